(* Ast.v -- the DSL accepted by state_machine!{}, as a tree, entries in source order.
   Token-level syntax errors are not representable.  Definitions only. *)
From Coq Require Import String List Bool.
From SM Require Import Ident.
Import ListNotations.

(* one entry of a `states: [...]` list or of a superstate block *)
Inductive sitem :=
| ILeaf (n : ident) (d : option ty)                    (* `X` / `X(T)` at top level, `state X` / `state X(T)` in a block *)
| ISuper (n : ident) (d : option ty) (body : list sitem)   (* `superstate G { ... }` / `superstate G(T) { ... }` *)
| IInitial (n : ident)                                 (* `initial: X` inside a block *)
| IUnknown (k : ident).                                (* any other key inside a block *)

Inductive hook_key := KGuards | KUnless | KBefore | KAfter | KAround.

Inductive tentry :=
| TFrom (l : list ident)
| TTo (t : ident)
| TList (k : hook_key) (l : list ident)
| TUnknownT (k : ident).

Inductive eentry :=
| EPayload (t : ty)
| EList (k : hook_key) (l : list ident)
| ETransition (es : list tentry)
| EUnknownE (k : ident).

Record sevent := { se_name : ident; se_entries : list eentry }.

Inductive mentry :=
| MName (n : ident)
| MInitial (n : ident)
| MContext (t : ty)
| MAsync (b : bool)
| MDynamic (b : bool)
| MStates (items : list sitem)
| MEvents (evs : list sevent)
| MLegacy (k : ident)          (* `state:` / `action:` / `callbacks:` -- parsed and ignored *)
| MUnknown (k : ident).

Definition defn := list mentry.

(* parsed (normalised) events: what parse_events / parse_transition return *)
Record hooks := {
  h_guards : list ident; h_unless : list ident; h_before : list ident;
  h_after : list ident; h_around : list ident }.
Definition no_hooks : hooks := Build_hooks [] [] [] [] [].
Definition set_hook (k : hook_key) (l : list ident) (h : hooks) : hooks :=
  match k with
  | KGuards => Build_hooks l (h_unless h) (h_before h) (h_after h) (h_around h)
  | KUnless => Build_hooks (h_guards h) l (h_before h) (h_after h) (h_around h)
  | KBefore => Build_hooks (h_guards h) (h_unless h) l (h_after h) (h_around h)
  | KAfter  => Build_hooks (h_guards h) (h_unless h) (h_before h) l (h_around h)
  | KAround => Build_hooks (h_guards h) (h_unless h) (h_before h) (h_after h) l
  end.
(* event-level hooks first, then transition-level (parser.rs:618-632) *)
Definition merge_hooks (e t : hooks) : hooks :=
  Build_hooks (h_guards e ++ h_guards t) (h_unless e ++ h_unless t) (h_before e ++ h_before t)
              (h_after e ++ h_after t) (h_around e ++ h_around t).

Record transition := { t_sources : list ident; t_target : ident; t_hooks : hooks }.

Record event := {
  e_name : ident; e_payload : option ty; e_transitions : list transition; e_hooks : hooks }.

(* induction principle for the nested inductive *)
Section sitem_ind2.
  Variable P : sitem -> Prop.
  Hypothesis Hleaf : forall n d, P (ILeaf n d).
  Hypothesis Hsuper : forall n d body, Forall P body -> P (ISuper n d body).
  Hypothesis Hinit : forall n, P (IInitial n).
  Hypothesis Hunk : forall k, P (IUnknown k).
  Fixpoint sitem_ind2 (i : sitem) : P i :=
    match i with
    | ILeaf n d => Hleaf n d
    | ISuper n d body =>
        Hsuper n d body
          ((fix go (l : list sitem) : Forall P l :=
              match l with
              | [] => Forall_nil P
              | x :: r => Forall_cons x (sitem_ind2 x) (go r)
              end) body)
    | IInitial n => Hinit n
    | IUnknown k => Hunk k
    end.
End sitem_ind2.
