(* Codegen.v -- model of codegen/typestate.rs, codegen/dynamic.rs and codegen/mod.rs: machine IR -> GIR.
   Definitions only. *)
From Coq Require Import String Ascii List Bool.
From SM Require Import Ident Ast Front Gir.
Import ListNotations.
Open Scope string_scope.
Open Scope list_scope.

Section Codegen.
Variable m : machine.

(* typestate.rs:510: the slot of the target state gets a fresh default, every other slot None *)
Definition slot_inits (tgt : ident) : list (ident * slot_init) :=
  map (fun sp => (ss_field sp, if String.eqb (ss_state sp) tgt then SlotDefault else SlotNone))
      (m_storage m).

Definition has_pl (e : edge) : bool := match g_payload e with Some _ => true | None => false end.

(* typestate.rs:344 generate_transition_method *)
Definition gen_body (e : edge) : list stmt :=
  let aw := m_async m in
  let pl := has_pl e in
  let h := g_hooks e in
  let ev := g_event e in
     map (fun cb => SAroundBefore cb aw ev) (h_around h)
  ++ map (fun g => SCond true g pl aw g ev) (h_guards h)
  ++ map (fun g => SCond false g pl aw g ev) (h_unless h)
  ++ map (fun cb => SBefore cb pl aw) (h_before h)
  ++ [SConstruct (g_target e) true (slot_inits (g_target e))]
  ++ map (fun cb => SAfter cb pl aw) (h_after h)
  ++ map (fun cb => SAroundAfter cb aw ev) (h_around h)
  ++ [SRetOk].

Definition gen_method (e : edge) : gmethod :=
  Build_gmethod (to_snake_case (g_event e)) (m_async m) (g_payload e) (g_target e) (gen_body e).

(* typestate.rs:284 generate_constructor: the initial state's own slot starts at its default *)
Definition gen_impl (s : ident) : gimpl :=
  Build_gimpl s
    (if String.eqb s (m_initial m) then Some (slot_inits s) else None)
    (map gen_method (outgoing (m_graph m) s)).

(* typestate.rs:911: no hooks, no payload *)
Definition gen_super_method (e : edge) : gmethod :=
  Build_gmethod (to_snake_case (g_event e)) (m_async m) None (g_target e)
                [SConstruct (g_target e) true (slot_inits (g_target e)); SRetOk].

Definition gen_superimpls : list gsuperimpl :=
  flat_map (fun g => match outgoing (m_graph m) g with
                     | [] => []
                     | es => [Build_gsuperimpl g (map gen_super_method es)]
                     end)
           (all_superstates (m_hier m)).

Definition strip_uu (s : string) : string :=    (* trim_start_matches("__") *)
  (fix go (n : nat) (s : string) :=
     match n with
     | O => s
     | S n' => match s with
               | String "_"%char (String "_"%char r) => go n' r
               | _ => s
               end
     end) (String.length s) s.

Definition gen_substate : list (ident * ident) :=
  flat_map (fun leaf => match assoc leaf (h_anc (m_hier m)) with
                        | Some ancs => map (fun a => (leaf, a)) ancs
                        | None => []
                        end) (m_states m).

(* dynamic.rs:197: for event, for state, for edge of state with edge.event == event.name *)
Definition gen_arms : list garm :=
  flat_map (fun ev =>
    flat_map (fun s =>
      flat_map (fun e =>
        if String.eqb (g_event e) (e_name ev)
        then [Build_garm s (e_name ev) (to_pascal_case (e_name ev))
                         (match e_payload ev with Some _ => true | None => false end)
                         (to_snake_case (e_name ev)) (m_async m) (g_target e) s]
        else [])
        (outgoing (m_graph m) s))
      (m_states m))
    (m_events m).

Definition gen_accs : list gacc :=
  flat_map (fun sp =>
    let reach := expand_state (m_hier m) (m_states m) (ss_state sp) in
    match reach with
    | [] => []
    | _ => let sn := to_snake_case (ss_state sp) in
           [Build_gacc (ss_state sp) (ss_field sp) (sn +++ "_data") (sn +++ "_data_mut")
                       ("set_" +++ sn +++ "_data") reach]
    end) (m_storage m).

Definition gen_dyn : gdyn :=
  Build_gdyn
    (map (fun ev => (to_pascal_case (e_name ev), e_name ev, e_payload ev)) (m_events m))
    (map (fun s => (s, s)) (m_states m))
    (m_initial m)
    gen_arms
    gen_accs
    (map (fun s => ("into_" +++ to_snake_case s, s)) (m_states m)).

(* codegen/mod.rs:22 expand; [feat] is cfg!(feature = "dynamic") *)
Definition codegen (feat : bool) : gir :=
  Build_gir
    (m_name m) (m_context m)
    (m_states m ++ all_superstates (m_hier m))
    (map (fun sp => (ss_field sp, ss_ty sp)) (m_storage m))
    (map gen_impl (m_states m))
    (flat_map (fun sp => let a := strip_uu (ss_field sp) in [(a, ss_field sp); (a +++ "_mut", ss_field sp)]) (m_storage m))
    (map (fun sp => (ss_state sp, to_snake_case (ss_state sp) +++ "_data", ss_field sp)) (m_storage m))
    gen_substate
    gen_superimpls
    (if m_dynamic m || feat then Some gen_dyn else None).

End Codegen.
