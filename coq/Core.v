(* Core.v -- model of state-machines-core/src/lib.rs (error algebra, constructors, the
   GuardError -> DynamicError conversion) and of the abort helper macros of state-machines/src/lib.rs.
   Definitions only. *)
From Coq Require Import String List Bool.
From SM Require Import Ident Sem Dyn.
Import ListNotations.
Open Scope string_scope.
Open Scope list_scope.

Record terr := { te_from : ident; te_event : ident; te_kind : akind }.     (* TransitionError<S> *)
Record tctx := { tc_from : ident; tc_to : ident; tc_event : ident }.       (* TransitionContext<S> *)

Definition te_invalid_transition (from ev : ident) : terr := Build_terr from ev AKInvalid.
Definition te_guard_failed (from ev guard : ident) : terr := Build_terr from ev (AKGuard guard).
Definition ge_new (guard ev : ident) : gerr := Build_gerr guard ev (AKGuard guard).
Definition ge_with_kind (guard ev : ident) (k : akind) : gerr := Build_gerr guard ev k.
Definition de_invalid_transition (from ev : ident) : derr := DInvalid from ev.
Definition de_guard_failed (g ev : ident) : derr := DGuardFailed g ev.
Definition de_action_failed (a ev : ident) : derr := DActionFailed a ev.
Definition de_wrong_state (ex ac op : ident) : derr := DWrongState ex ac op.

Inductive outcome := Proceed | Abort (e : terr).
(* abort_guard!(ctx, guard) -- both arms (identifier via stringify!, expression) *)
Definition abort_guard (c : tctx) (guard : ident) : outcome := Abort (te_guard_failed (tc_from c) (tc_event c) guard).
(* abort_with!(ctx, kind) *)
Definition abort_with (c : tctx) (k : akind) : outcome := Abort (Build_terr (tc_from c) (tc_event c) k).

(* canonical text, shared with harness/k4 *)
Definition kind_s (k : akind) : string :=
  match k with AKGuard n => "gf(" +++ n +++ ")" | AKAction n => "af(" +++ n +++ ")" | AKInvalid => "inv" end.
Definition te_s (e : terr) : string := "TE(" +++ te_from e +++ "," +++ te_event e +++ "," +++ kind_s (te_kind e) +++ ")".
Definition ge_s (e : gerr) : string := "G(" +++ ge_guard e +++ "," +++ ge_event e +++ "," +++ kind_s (ge_kind e) +++ ")".
Definition de_s (e : derr) : string :=
  match e with
  | DInvalid f ev => "IT(" +++ f +++ "," +++ ev +++ ")"
  | DGuardFailed g ev => "GF(" +++ g +++ "," +++ ev +++ ")"
  | DActionFailed a ev => "AF(" +++ a +++ "," +++ ev +++ ")"
  | DWrongState ex ac o => "WS(" +++ ex +++ "," +++ ac +++ "," +++ o +++ ")"
  end.
Definition ao_s (o : outcome) : string := match o with Proceed => "Proceed" | Abort e => "Abort(" +++ te_s e +++ ")" end.

(* #[derive(Debug)] renderings (names are identifier-like: no character needs escaping) *)
Definition q (s : string) : string := """" +++ s +++ """".
Definition kind_dbg (k : akind) : string :=
  match k with
  | AKGuard g => "GuardFailed { guard: " +++ q g +++ " }"
  | AKAction a => "ActionFailed { action: " +++ q a +++ " }"
  | AKInvalid => "InvalidTransition"
  end.
Definition ge_dbg (e : gerr) : string :=
  "GuardError { guard: " +++ q (ge_guard e) +++ ", event: " +++ q (ge_event e) +++ ", kind: " +++ kind_dbg (ge_kind e) +++ " }".
Definition de_dbg (e : derr) : string :=
  match e with
  | DInvalid f ev => "InvalidTransition { from: " +++ q f +++ ", event: " +++ q ev +++ " }"
  | DGuardFailed g ev => "GuardFailed { guard: " +++ q g +++ ", event: " +++ q ev +++ " }"
  | DActionFailed a ev => "ActionFailed { action: " +++ q a +++ ", event: " +++ q ev +++ " }"
  | DWrongState ex ac o => "WrongState { expected: " +++ q ex +++ ", actual: " +++ q ac +++ ", operation: " +++ q o +++ " }"
  end.

(* #[derive(PartialEq)]: structural equality *)
Definition akind_eqb (x y : akind) : bool :=
  match x, y with
  | AKGuard a, AKGuard b => String.eqb a b
  | AKAction a, AKAction b => String.eqb a b
  | AKInvalid, AKInvalid => true
  | _, _ => false
  end.
Definition gerr_eqb (x y : gerr) : bool :=
  String.eqb (ge_guard x) (ge_guard y) && String.eqb (ge_event x) (ge_event y) && akind_eqb (ge_kind x) (ge_kind y).
Definition derr_eqb (x y : derr) : bool :=
  match x, y with
  | DInvalid a b, DInvalid c d => String.eqb a c && String.eqb b d
  | DGuardFailed a b, DGuardFailed c d => String.eqb a c && String.eqb b d
  | DActionFailed a b, DActionFailed c d => String.eqb a c && String.eqb b d
  | DWrongState a b c, DWrongState d e f => String.eqb a d && String.eqb b e && String.eqb c f
  | _, _ => false
  end.
Definition b01 (b : bool) : string := if b then "1" else "0".

Definition k4_lines (names : list ident) : list string :=
  flat_map (fun a => flat_map (fun b =>
    [ "te_invalid|" +++ a +++ "|" +++ b +++ "|" +++ te_s (te_invalid_transition a b);
      "ge_new|" +++ a +++ "|" +++ b +++ "|" +++ ge_s (ge_new a b);
      "de_invalid|" +++ a +++ "|" +++ b +++ "|" +++ de_s (de_invalid_transition a b);
      "de_guard|" +++ a +++ "|" +++ b +++ "|" +++ de_s (de_guard_failed a b);
      "de_action|" +++ a +++ "|" +++ b +++ "|" +++ de_s (de_action_failed a b);
      "dbg_de_invalid|" +++ a +++ "|" +++ b +++ "|" +++ de_dbg (de_invalid_transition a b);
      "dbg_de_guard|" +++ a +++ "|" +++ b +++ "|" +++ de_dbg (de_guard_failed a b);
      "dbg_de_action|" +++ a +++ "|" +++ b +++ "|" +++ de_dbg (de_action_failed a b);
      "dbg_ge|" +++ a +++ "|" +++ b +++ "|" +++ ge_dbg (ge_new a b) ]
    ++ flat_map (fun c =>
         [ "te_guard|" +++ a +++ "|" +++ b +++ "|" +++ c +++ "|" +++ te_s (te_guard_failed a b c);
           "de_wrong|" +++ a +++ "|" +++ b +++ "|" +++ c +++ "|" +++ de_s (de_wrong_state a b c);
           "dbg_de_wrong|" +++ a +++ "|" +++ b +++ "|" +++ c +++ "|" +++ de_dbg (de_wrong_state a b c);
           "eq_de|" +++ a +++ "|" +++ b +++ "|" +++ c +++ "|" +++
             b01 (derr_eqb (de_wrong_state a b "op") (de_wrong_state a c "op")) +++
             b01 (derr_eqb (de_wrong_state b a "op") (de_wrong_state c a "op")) +++
             b01 (derr_eqb (de_wrong_state a "x" b) (de_wrong_state a "x" c)) +++
             b01 (derr_eqb (de_invalid_transition a b) (de_invalid_transition a c)) +++
             b01 (derr_eqb (de_guard_failed b a) (de_action_failed b a));
           "eq_ge|" +++ a +++ "|" +++ b +++ "|" +++ c +++ "|" +++
             b01 (gerr_eqb (ge_new a b) (ge_new a c)) +++
             b01 (gerr_eqb (ge_with_kind a "e" (AKGuard b)) (ge_with_kind a "e" (AKGuard c))) ]
         ++ flat_map (fun k =>
              [ "ge_with|" +++ a +++ "|" +++ b +++ "|" +++ kind_s k +++ "|" +++ ge_s (ge_with_kind a b k);
                "from_ge|" +++ a +++ "|" +++ b +++ "|" +++ kind_s k +++ "|" +++ de_s (from_guard_error (ge_with_kind a b k));
                "abort_with|" +++ a +++ "|" +++ b +++ "|" +++ kind_s k +++ "|" +++ ao_s (abort_with (Build_tctx a "to" b) k);
                "abort_with_var|" +++ a +++ "|" +++ b +++ "|" +++ kind_s k +++ "|" +++ ao_s (abort_with (Build_tctx a "to" b) k) ])
              [AKGuard c; AKAction c; AKInvalid]
         ++ [ "abort_guard_expr|" +++ a +++ "|" +++ b +++ "|" +++ c +++ "|" +++ ao_s (abort_guard (Build_tctx a "to" b) c) ])
       names
    ++ [ "abort_guard_ident|" +++ a +++ "|" +++ b +++ "|" +++ ao_s (abort_guard (Build_tctx a "to" b) "some_guard_ident");
         "abort_guard_lit|" +++ a +++ "|" +++ b +++ "|" +++ ao_s (abort_guard (Build_tctx a "to" b) "a_string_literal");
         "abort_guard_path|" +++ a +++ "|" +++ b +++ "|" +++ ao_s (abort_guard (Build_tctx a "to" b) "named_by_a_path") ])
    names) names.
