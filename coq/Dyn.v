(* Dyn.v -- run-time meaning of the generated Dynamic<Name> wrapper (dynamic.rs).  Definitions only. *)
From Coq Require Import String List Bool Arith.
From SM Require Import Ident Ast Front Gir Sem.
Import ListNotations.
Open Scope string_scope.
Open Scope list_scope.

Record dyn := { d_inner : option tmachine }.    (* the AnyState variant is the wrapped machine's state *)

(* core::DynamicError *)
Inductive derr :=
| DInvalid (from ev : ident)
| DGuardFailed (g ev : ident)
| DActionFailed (a ev : ident)
| DWrongState (expected actual op : ident).

(* core::DynamicError::from_guard_error *)
Definition from_guard_error (e : gerr) : derr :=
  match ge_kind e with
  | AKGuard g => DGuardFailed g (ge_event e)
  | AKAction a => DActionFailed a (ge_event e)
  | AKInvalid => DInvalid "" (ge_event e)
  end.

(* the conversion done in handle()'s Err arm: from_guard_error, with the state the machine was in
   filled in for an invalid-transition abort *)
Definition arm_err (src_lit : ident) (e : gerr) : derr :=
  match from_guard_error e with
  | DInvalid _ ev => DInvalid src_lit ev
  | other => other
  end.

Inductive hres :=
| HOk
| HErr (e : derr)
| HPanicHook (name : ident)
| HPanicAfter (name ev : ident)
| HPanicInvalid                  (* expect("dynamic machine in invalid state") *)
| HAbandoned
| HStuck.

Record handle_out := { ho_dyn : dyn; ho_trace : list call; ho_pend : nat; ho_res : hres }.

Definition state_lit (gd : gdyn) (variant : ident) : ident :=
  match assoc variant (gd_states gd) with Some l => l | None => "" end.

Definition event_variant (gd : gdyn) (ev : ident) : option (ident * ident * option ty) :=
  find (fun v => String.eqb (snd (fst v)) ev) (gd_events gd).

Definition find_arm (gd : gdyn) (src variant : ident) : option garm :=
  find (fun a => String.eqb (ga_src a) src && String.eqb (ga_variant a) variant) (gd_arms gd).

Definition dyn_new (g : gir) (gd : gdyn) (ctx : nat) : option dyn :=
  match typed_new g (gd_initial gd) ctx with
  | Some tm => Some (Build_dyn (Some tm))
  | None => None
  end.

(* handle(event): take(), match (current, event) first arm wins, write back *)
Definition handle (g : gir) (gd : gdyn) (d : dyn) (ev : ident) (pl : option nat)
           (w : oracle) (budget : option nat) : handle_out :=
  match d_inner d with
  | None => Build_handle_out d [] 0 HPanicInvalid
  | Some tm =>
      match event_variant gd ev with
      | None => Build_handle_out d [] 0 HStuck        (* no such event: cannot be written *)
      | Some (variant, ev_lit, _) =>
          match find_arm gd (tm_state tm) variant with
          | None =>     (* catch-all arm *)
              Build_handle_out d [] 0 (HErr (DInvalid (state_lit gd (tm_state tm)) ev_lit))
          | Some a =>
              match methods_of g (ga_src a) (ga_method a) with
              | [gm] =>
                  if negb (Bool.eqb (ga_aw a) (gm_async gm)) then Build_handle_out d [] 0 HStuck else
                  let ro := run_method gm tm (if ga_binds_pl a then pl else None) w budget in
                  match ro_res ro with
                  | ROk nm =>
                      if String.eqb (tm_state nm) (ga_ok a)
                      then Build_handle_out (Build_dyn (Some nm)) (ro_trace ro) (ro_pend ro) HOk
                      else Build_handle_out d (ro_trace ro) (ro_pend ro) HStuck
                  | RErr old e =>
                      if String.eqb (tm_state old) (ga_restore a)
                      then Build_handle_out (Build_dyn (Some old)) (ro_trace ro) (ro_pend ro)
                                            (HErr (arm_err (state_lit gd (ga_restore a)) e))
                      else Build_handle_out d (ro_trace ro) (ro_pend ro) HStuck
                  | RPanicHook n => Build_handle_out (Build_dyn None) (ro_trace ro) (ro_pend ro) (HPanicHook n)
                  | RPanicAfter n e => Build_handle_out (Build_dyn None) (ro_trace ro) (ro_pend ro) (HPanicAfter n e)
                  | RAbandoned => Build_handle_out (Build_dyn None) (ro_trace ro) (ro_pend ro) HAbandoned
                  | RStuck => Build_handle_out d (ro_trace ro) (ro_pend ro) HStuck
                  end
              | _ => Build_handle_out d [] 0 HStuck     (* no method / duplicate methods: rustc rejects *)
              end
          end
      end
  end.

(* current_state(): None = panics *)
Definition current_state (gd : gdyn) (d : dyn) : option ident :=
  match d_inner d with
  | Some tm => Some (state_lit gd (tm_state tm))
  | None => None
  end.

Definition acc_read (a : gacc) (d : dyn) : option nat :=
  match d_inner d with
  | Some tm => if mem (tm_state tm) (gc_variants a) then slot_get (gc_field a) (tm_slots tm) else None
  | None => None
  end.

(* x_data_mut().map(|r| *r += v): read-modify-write through the reference; returns whether a
   reference was handed out *)
Definition acc_write (a : gacc) (d : dyn) (v : nat) : dyn * bool :=
  match d_inner d with
  | Some tm =>
      if mem (tm_state tm) (gc_variants a)
      then match slot_get (gc_field a) (tm_slots tm) with
           | Some old => (Build_dyn (Some (Build_tmachine (tm_state tm) (tm_ctx tm)
                                                          (slot_set (gc_field a) (Some (old + v)) (tm_slots tm)))), true)
           | None => (d, false)
           end
      else (d, false)
  | None => (d, false)
  end.

Definition acc_set (gd : gdyn) (a : gacc) (d : dyn) (v : nat) : dyn * option derr :=
  match d_inner d with
  | Some tm =>
      if mem (tm_state tm) (gc_variants a)
      then (Build_dyn (Some (Build_tmachine (tm_state tm) (tm_ctx tm)
                                            (slot_set (gc_field a) (Some v) (tm_slots tm)))), None)
      else (d, Some (DWrongState (gc_state a) (state_lit gd (tm_state tm)) (gc_set a)))
  | None => (d, Some (DWrongState (gc_state a) "<extracted>" (gc_set a)))
  end.

(* into_<s>(): Ok(machine) iff currently in the variant; otherwise the wrapper comes back unchanged *)
Definition into_state (variant : ident) (d : dyn) : (tmachine + dyn) :=
  match d_inner d with
  | Some tm => if String.eqb (tm_state tm) variant then inl tm else inr d
  | None => inr d
  end.

Definition into_dynamic (tm : tmachine) : dyn := Build_dyn (Some tm).
