(* Front.v -- model of the macro's front end:
     parser.rs   (Parse for StateMachine, parse_states_section, parse_superstate_block,
                  parse_events, parse_transition, build_transition_graph)
     types.rs    (Hierarchy and TransitionGraph methods)
     validation.rs (StateMachine::validate)
   Definitions only; every function is total and computable. *)
From Coq Require Import String List Bool Arith.
From SM Require Import Ident Ast.
Import ListNotations.
Open Scope string_scope.
Open Scope list_scope.

Inductive err :=
| EUnknownKey | EMalformed
| EMissingName | EMissingInitial | EMissingStates
| EDuplicateState | EEmptySuper | EInitNotDescendant
| ETransMissingFrom | ETransMissingTo
| EInitialIsSuper | EInitialUndeclared
| ENotSnake | ENoTransitions | ENoSources | ESuperNoInitial
| ETargetUndeclared | ESourceUndeclared | ESourceEmpty.

Inductive result (A : Type) := Ok (a : A) | Err (e : err).
Arguments Ok {A} a.
Arguments Err {A} e.

Definition bind {A B} (r : result A) (f : A -> result B) : result B :=
  match r with Ok a => f a | Err e => Err e end.

(* ---------- states section ---------- *)

Record storage_spec := { ss_state : ident; ss_field : ident; ss_ty : ty }.
Definition storage_field (n : ident) : ident := String.append "__state_data_" (to_snake_case n).

Record hier := {
  h_lookup : list (ident * list ident);     (* superstate -> descendant leaves *)
  h_initch : list (ident * ident);          (* superstate -> initial leaf *)
  h_anc    : list (ident * list ident) }.   (* nested leaf -> enclosing superstates, outermost first *)
Definition hier0 : hier := Build_hier [] [] [].

Record pstate := {
  p_leaves : list ident; p_seen : list ident; p_hier : hier; p_storage : list storage_spec }.
Definition pstate0 : pstate := Build_pstate [] [] hier0 [].

(* accumulator of one block: global parser state, this block's descendants, this block's `initial:` *)
Record bacc := { b_st : pstate; b_desc : list ident; b_init : option ident }.

Definition push_storage (n : ident) (d : option ty) (s : list storage_spec) : list storage_spec :=
  match d with
  | Some t => s ++ [Build_storage_spec n (storage_field n) t]
  | None => s
  end.

Definition is_nil {A} (l : list A) : bool := match l with [] => true | _ => false end.

(* Hierarchy::register_leaf *)
Definition register_leaf (n : ident) (anc : list ident) (h : hier) : hier :=
  if is_nil anc then h
  else Build_hier (h_lookup h) (h_initch h) ((n, anc) :: h_anc h).
(* Hierarchy::register_superstate *)
Definition register_super (n : ident) (desc : list ident) (ini : ident) (h : hier) : hier :=
  Build_hier ((n, desc) :: h_lookup h) ((n, ini) :: h_initch h) (h_anc h).

Definition fold_items (f : sitem -> bacc -> result bacc) :=
  fix go (l : list sitem) (a : bacc) {struct l} : result bacc :=
    match l with
    | [] => Ok a
    | x :: r => match f x a with Ok a' => go r a' | Err e => Err e end
    end.

(* parse_states_section (anc = []) and parse_superstate_block (anc <> []), one item.
   The top level and a block run the same code: register_leaf is a no-op for an empty chain. *)
Fixpoint parse_item (anc : list ident) (it : sitem) (acc : bacc) {struct it} : result bacc :=
  let st := b_st acc in
  match it with
  | ILeaf n d =>
      if mem n (p_seen st) then Err EDuplicateState
      else
        Ok (Build_bacc
              (Build_pstate (p_leaves st ++ [n]) (n :: p_seen st)
                            (register_leaf n anc (p_hier st)) (push_storage n d (p_storage st)))
              (b_desc acc ++ [n]) (b_init acc))
  | ISuper n d body =>
      if mem n (p_seen st) then Err EDuplicateState
      else
        let st1 := Build_pstate (p_leaves st) (n :: p_seen st) (p_hier st)
                                (push_storage n d (p_storage st)) in
        match fold_items (parse_item (anc ++ [n])) body (Build_bacc st1 [] None) with
        | Err e => Err e
        | Ok inner =>
            match b_desc inner with
            | [] => Err EEmptySuper
            | first :: _ =>
                let ini :=
                  match b_init inner with
                  | Some i => if mem i (b_desc inner) then Ok i else Err EInitNotDescendant
                  | None => Ok first
                  end in
                match ini with
                | Err e => Err e
                | Ok i =>
                    let sti := b_st inner in
                    Ok (Build_bacc
                          (Build_pstate (p_leaves sti) (p_seen sti)
                                        (register_super n (b_desc inner) i (p_hier sti)) (p_storage sti))
                          (b_desc acc ++ b_desc inner) (b_init acc))
                end
            end
        end
  | IInitial x =>
      if is_nil anc then Err EMalformed
      else Ok (Build_bacc st (b_desc acc) (Some x))
  | IUnknown _ =>
      if is_nil anc then Err EMalformed else Err EUnknownKey
  end.

Definition parse_states (items : list sitem) : result pstate :=
  match fold_items (parse_item []) items (Build_bacc pstate0 [] None) with
  | Ok a => Ok (b_st a)
  | Err e => Err e
  end.

(* ---------- Hierarchy queries (types.rs:183-231) ---------- *)

Definition is_superstate (h : hier) (x : ident) : bool :=
  match assoc x (h_lookup h) with Some _ => true | None => false end.

Definition expand_state (h : hier) (leaves : list ident) (x : ident) : list ident :=
  match assoc x (h_lookup h) with
  | Some d => d
  | None => if mem x leaves then [x] else []
  end.

Definition initial_child (h : hier) (x : ident) : option ident :=
  match assoc x (h_initch h) with
  | Some i => Some i
  | None => match assoc x (h_lookup h) with
            | Some d => hd_error d
            | None => None
            end
  end.

Definition resolve_target (h : hier) (x : ident) : option ident :=
  if is_superstate h x then initial_child h x else Some x.

(* HashMap key order is unspecified; consumers must treat this as a set *)
Definition all_superstates (h : hier) : list ident := dedup (map fst (h_lookup h)).

(* ---------- events section ---------- *)

Record tacc := { ta_from : option (list ident); ta_to : option ident; ta_hooks : hooks }.

Fixpoint parse_tentries (es : list tentry) (a : tacc) : result tacc :=
  match es with
  | [] => Ok a
  | TFrom l :: r => parse_tentries r (Build_tacc (Some l) (ta_to a) (ta_hooks a))
  | TTo t :: r => parse_tentries r (Build_tacc (ta_from a) (Some t) (ta_hooks a))
  | TList k l :: r => parse_tentries r (Build_tacc (ta_from a) (ta_to a) (set_hook k l (ta_hooks a)))
  | TUnknownT _ :: _ => Err EUnknownKey
  end.

Definition parse_transition (es : list tentry) : result transition :=
  match parse_tentries es (Build_tacc None None no_hooks) with
  | Err e => Err e
  | Ok a =>
      match ta_from a with
      | None => Err ETransMissingFrom
      | Some src =>
          match ta_to a with
          | None => Err ETransMissingTo
          | Some t => Ok (Build_transition src t (ta_hooks a))
          end
      end
  end.

Fixpoint parse_eentries (es : list eentry) (ev : event) : result event :=
  match es with
  | [] => Ok ev
  | EPayload t :: r =>
      parse_eentries r (Build_event (e_name ev) (Some t) (e_transitions ev) (e_hooks ev))
  | EList k l :: r =>
      parse_eentries r (Build_event (e_name ev) (e_payload ev) (e_transitions ev) (set_hook k l (e_hooks ev)))
  | ETransition ts :: r =>
      match parse_transition ts with
      | Err e => Err e
      | Ok t => parse_eentries r (Build_event (e_name ev) (e_payload ev) (e_transitions ev ++ [t]) (e_hooks ev))
      end
  | EUnknownE _ :: _ => Err EUnknownKey
  end.

Definition parse_event (se : sevent) : result event :=
  parse_eentries (se_entries se) (Build_event (se_name se) None [] no_hooks).

Fixpoint parse_events (l : list sevent) : result (list event) :=
  match l with
  | [] => Ok []
  | se :: r =>
      match parse_event se with
      | Err e => Err e
      | Ok ev => match parse_events r with Err e => Err e | Ok evs => Ok (ev :: evs) end
      end
  end.

(* ---------- the machine IR ---------- *)

Record edge := {
  g_target : ident; g_event : ident; g_hooks : hooks; g_payload : option ty }.

Record machine := {
  m_name : ident; m_initial : ident; m_context : option ty;
  m_states : list ident; m_storage : list storage_spec; m_hier : hier;
  m_events : list event; m_async : bool; m_dynamic : bool;
  m_graph : list (ident * edge) }.      (* (source leaf, edge), in insertion order *)

(* TransitionGraph::outgoing: per-source insertion order is kept by the Vec *)
Definition outgoing (g : list (ident * edge)) (s : ident) : list edge :=
  map snd (filter (fun p => String.eqb (fst p) s) g).

(* build_transition_graph (parser.rs:606) *)
Definition edges_of_transition (h : hier) (leaves : list ident) (ev : event) (t : transition)
  : list (ident * edge) :=
  flat_map (fun src =>
    let tgt := match resolve_target h (t_target t) with Some x => x | None => t_target t end in
    map (fun s => (s, Build_edge tgt (e_name ev) (merge_hooks (e_hooks ev) (t_hooks t)) (e_payload ev)))
        (expand_state h leaves src))
    (t_sources t).

Definition build_graph (h : hier) (leaves : list ident) (evs : list event) : list (ident * edge) :=
  flat_map (fun ev => flat_map (edges_of_transition h leaves ev) (e_transitions ev)) evs.

(* ---------- top level: Parse for StateMachine ---------- *)

Record macc := {
  a_name : option ident; a_initial : option ident; a_context : option ty;
  a_states : option pstate; a_events : option (list event); a_async : bool; a_dynamic : bool }.
Definition macc0 : macc := Build_macc None None None None None false false.

Fixpoint parse_entries (es : list mentry) (a : macc) : result macc :=
  match es with
  | [] => Ok a
  | en :: r =>
      let next (a' : macc) := parse_entries r a' in
      match en with
      | MName n => next (Build_macc (Some n) (a_initial a) (a_context a) (a_states a) (a_events a) (a_async a) (a_dynamic a))
      | MInitial n => next (Build_macc (a_name a) (Some n) (a_context a) (a_states a) (a_events a) (a_async a) (a_dynamic a))
      | MContext t => next (Build_macc (a_name a) (a_initial a) (Some t) (a_states a) (a_events a) (a_async a) (a_dynamic a))
      | MAsync b => next (Build_macc (a_name a) (a_initial a) (a_context a) (a_states a) (a_events a) b (a_dynamic a))
      | MDynamic b => next (Build_macc (a_name a) (a_initial a) (a_context a) (a_states a) (a_events a) (a_async a) b)
      | MStates items =>
          match parse_states items with
          | Err e => Err e
          | Ok ps => next (Build_macc (a_name a) (a_initial a) (a_context a) (Some ps) (a_events a) (a_async a) (a_dynamic a))
          end
      | MEvents evs =>
          match parse_events evs with
          | Err e => Err e
          | Ok l => next (Build_macc (a_name a) (a_initial a) (a_context a) (a_states a) (Some l) (a_async a) (a_dynamic a))
          end
      | MLegacy _ => next a
      | MUnknown _ => Err EUnknownKey
      end
  end.

Definition parse_machine (d : defn) : result machine :=
  match parse_entries d macc0 with
  | Err e => Err e
  | Ok a =>
      match a_name a with
      | None => Err EMissingName
      | Some nm =>
          match a_initial a with
          | None => Err EMissingInitial
          | Some ini =>
              match a_states a with
              | None => Err EMissingStates
              | Some ps =>
                  let evs := match a_events a with Some l => l | None => [] end in
                  Ok (Build_machine nm ini (a_context a) (p_leaves ps) (p_storage ps) (p_hier ps)
                                    evs (a_async a) (a_dynamic a)
                                    (build_graph (p_hier ps) (p_leaves ps) evs))
              end
          end
      end
  end.

(* ---------- validation.rs:68 ---------- *)

Fixpoint has_dup (l : list ident) : bool :=
  match l with [] => false | x :: r => mem x r || has_dup r end.

Definition validate_source (m : machine) (src : ident) : result unit :=
  if negb (mem src (m_states m) || is_superstate (m_hier m) src) then Err ESourceUndeclared
  else if is_nil (expand_state (m_hier m) (m_states m) src) then Err ESourceEmpty
  else Ok tt.

Fixpoint validate_all {A} (f : A -> result unit) (l : list A) : result unit :=
  match l with
  | [] => Ok tt
  | x :: r => match f x with Ok _ => validate_all f r | Err e => Err e end
  end.

Definition validate_transition (m : machine) (t : transition) : result unit :=
  if is_nil (t_sources t) then Err ENoSources
  else
    let resolved :=
      if is_superstate (m_hier m) (t_target t)
      then match resolve_target (m_hier m) (t_target t) with
           | Some r => Ok r
           | None => Err ESuperNoInitial
           end
      else Ok (t_target t) in
    match resolved with
    | Err e => Err e
    | Ok r =>
        if negb (mem r (m_states m)) then Err ETargetUndeclared
        else validate_all (validate_source m) (t_sources t)
    end.

Definition validate_event (m : machine) (ev : event) : result unit :=
  if negb (is_snake_case (e_name ev)) then Err ENotSnake
  else if is_nil (e_transitions ev) then Err ENoTransitions
  else validate_all (validate_transition m) (e_transitions ev).

Definition validate (m : machine) : result unit :=
  if is_superstate (m_hier m) (m_initial m) then Err EInitialIsSuper
  else if negb (mem (m_initial m) (m_states m)) then Err EInitialUndeclared
  else if has_dup (m_states m) then Err EDuplicateState
  else validate_all (validate_event m) (m_events m).

(* parse + validate: what `state_machine!` does before generating code *)
Definition front (d : defn) : result machine :=
  match parse_machine d with
  | Err e => Err e
  | Ok m => match validate m with Ok _ => Ok m | Err e => Err e end
  end.
