(* Gir.v -- GIR, the generated-program IR: what the macro's code generator emits, reduced to what
   the properties can observe.  Definitions only. *)
From Coq Require Import String List Bool.
From SM Require Import Ident Ast Front.
Import ListNotations.

Inductive slot_init := SlotNone | SlotDefault.        (* Option::None | Option::Some(<T as Default>::default()) *)

(* one statement of a generated transition method (typestate.rs:344-705) *)
Inductive stmt :=
| SAroundBefore (cb : ident) (aw : bool) (ev_lit : ident)   (* match self.cb(Before)[.await] { Proceed => {}, Abort(err) => return Err((self, with_kind(name-of-kind | stringify!(cb), ev_lit, kind))) } *)
| SCond (neg : bool) (g : ident) (with_pl : bool) (aw : bool) (g_lit e_lit : ident)
                                                      (* if [!]self.g(&self.ctx[, &payload])[.await] { return Err((self, GuardError::new(g_lit, e_lit))) }
                                                         neg = true is the `guards` form `if !…`, neg = false the `unless` form *)
| SBefore (cb : ident) (with_pl : bool) (aw : bool)   (* self.cb([&payload])[.await]; *)
| SConstruct (tgt : ident) (ctx_moved : bool) (inits : list (ident * slot_init))
                                                      (* let mut new_machine = M { ctx: self.ctx, _state, field: init, ... } *)
| SAfter (cb : ident) (with_pl : bool) (aw : bool)    (* new_machine.cb([&payload])[.await]; *)
| SAroundAfter (cb : ident) (aw : bool) (ev_lit : ident)    (* match new_machine.cb(AfterSuccess)[.await] { Proceed => {}, Abort(err) => panic!(.., name, ev_lit) } *)
| SRetOk.                                             (* Ok(new_machine) *)

Record gmethod := {
  gm_name : ident;            (* method identifier: to_snake_case(event) *)
  gm_async : bool;
  gm_payload : option ty;
  gm_target : ident;          (* state of the Ok type *)
  gm_body : list stmt }.

(* impl<C> M<C, State> { [new] methods... } -- one per leaf, in declaration order (typestate.rs:183) *)
Record gimpl := {
  gi_state : ident;
  gi_new : option (list (ident * slot_init));     (* Some inits iff this impl carries `new` *)
  gi_methods : list gmethod }.

(* blanket impl<C, S: SubstateOf<G>> M<C, S> (typestate.rs:866; dead on every accepted definition) *)
Record gsuperimpl := { gs_super : ident; gs_methods : list gmethod }.

Record garm := {          (* one arm of handle()'s match (dynamic.rs:197-273) *)
  ga_src : ident;         (* AnyState variant matched *)
  ga_event : ident;       (* declared event whose enum variant is matched *)
  ga_variant : ident;     (* Event enum variant: to_pascal_case(event) *)
  ga_binds_pl : bool;     (* pattern binds the payload and passes it on *)
  ga_method : ident;      (* typed method called on the unwrapped machine *)
  ga_aw : bool;           (* .await on the call *)
  ga_ok : ident;          (* variant wrapping the Ok machine *)
  ga_restore : ident }.   (* variant written back on Err *)

Record gacc := {          (* the three dynamic data accessors of one storage spec (dynamic.rs:330) *)
  gc_state : ident;       (* state (or superstate) that owns the data; also the `expected` literal *)
  gc_field : ident;
  gc_read : ident; gc_write : ident; gc_set : ident;   (* method names *)
  gc_variants : list ident }.                          (* AnyState variants that give access *)

Record gdyn := {
  gd_events : list (ident * ident * option ty);   (* (variant, name() literal, payload) *)
  gd_states : list (ident * ident);               (* (variant, name() literal) *)
  gd_initial : ident;                             (* variant built by new() *)
  gd_arms : list garm;
  gd_accs : list gacc;
  gd_into : list (ident * ident) }.               (* (into_<snake> method name, variant) *)

Record gir := {
  gr_name : ident;
  gr_ctx : option ty;
  gr_markers : list ident;                       (* leaf markers in order, then the superstate set *)
  gr_fields : list (ident * ty);                 (* storage fields after ctx and _state *)
  gr_impls : list gimpl;
  gr_storage_accs : list (ident * ident);        (* (accessor name, field): state_data_x / _mut on every state *)
  gr_state_accs : list (ident * ident * ident);  (* (state, accessor name, field): x_data / x_data_mut on M<.., X> only *)
  gr_substate : list (ident * ident);            (* (leaf, superstate): impl SubstateOf<superstate> for leaf *)
  gr_superimpls : list gsuperimpl;
  gr_dyn : option gdyn }.
