(* Ident.v -- ASCII identifiers and the three name functions of the macro.
   Models state-machines-macro/src/codegen/utils.rs (to_snake_case, to_pascal_case)
   and validation.rs:25 (is_snake_case), restricted to ASCII.  Definitions only. *)
From Coq Require Import String Ascii List Bool Arith.
Import ListNotations.
Open Scope string_scope.
Open Scope list_scope.

Definition ident := string.
Definition ty := string.          (* a Rust type, kept as its token text *)

Definition is_upper (c : ascii) : bool :=
  let n := nat_of_ascii c in (65 <=? n)%nat && (n <=? 90)%nat.
Definition is_lower (c : ascii) : bool :=
  let n := nat_of_ascii c in (97 <=? n)%nat && (n <=? 122)%nat.
Definition is_digit (c : ascii) : bool :=
  let n := nat_of_ascii c in (48 <=? n)%nat && (n <=? 57)%nat.
Definition is_us (c : ascii) : bool := Ascii.eqb c "_"%char.
Definition to_lower (c : ascii) : ascii :=
  if is_upper c then ascii_of_nat (nat_of_ascii c + 32) else c.
Definition to_upper (c : ascii) : ascii :=
  if is_lower c then ascii_of_nat (nat_of_ascii c - 32) else c.

Definition opt_test {A} (f : A -> bool) (o : option A) : bool :=
  match o with Some a => f a | None => false end.

(* Characters.  The Rust functions work on `char`s with Unicode case predicates.  The model knows ASCII and the
   letters of the Latin-1 supplement U+00C0..U+00FF (UTF-8: the byte 195 followed by a byte in 128..191); any other
   byte is a character that is neither a letter, a digit nor an underscore. *)
Inductive uch := UA (c : ascii) | UL (b : ascii).

Definition is_cont (b : ascii) : bool := let n := nat_of_ascii b in (128 <=? n)%nat && (n <=? 191)%nat.
Fixpoint decode (cs : list ascii) : list uch :=
  match cs with
  | [] => []
  | c :: rest =>
      match rest with
      | b :: rest' => if Ascii.eqb c "195"%char && is_cont b then UL b :: decode rest' else UA c :: decode rest
      | [] => [UA c]
      end
  end.
Definition enc1 (u : uch) : list ascii := match u with UA c => [c] | UL b => ["195"%char; b] end.
Definition encode (us : list uch) : list ascii := flat_map enc1 us.

(* U+00C0..U+00DE except the multiplication sign are upper case; U+00DF..U+00FF except the division sign lower case *)
Definition u_is_upper (u : uch) : bool :=
  match u with
  | UA c => is_upper c
  | UL b => let n := nat_of_ascii b in (128 <=? n)%nat && (n <=? 158)%nat && negb (n =? 151)%nat
  end.
Definition u_is_lower (u : uch) : bool :=
  match u with
  | UA c => is_lower c
  | UL b => let n := nat_of_ascii b in (159 <=? n)%nat && (n <=? 191)%nat && negb (n =? 183)%nat
  end.
Definition u_is_digit (u : uch) : bool := match u with UA c => is_digit c | UL _ => false end.
Definition u_is_us (u : uch) : bool := match u with UA c => is_us c | UL _ => false end.
(* char::to_lowercase: one character for every letter the model knows *)
Definition u_to_lower (u : uch) : uch :=
  match u with
  | UA c => UA (to_lower c)
  | UL b => if u_is_upper (UL b) then UL (ascii_of_nat (nat_of_ascii b + 32)) else UL b
  end.
(* char::to_uppercase: the sharp s becomes "SS", y with diaeresis leaves the Latin-1 block (U+0178 = 197 184) *)
Definition u_to_upper (u : uch) : list ascii :=
  match u with
  | UA c => [to_upper c]
  | UL b =>
      let n := nat_of_ascii b in
      if (n =? 159)%nat then ["S"%char; "S"%char]
      else if (n =? 191)%nat then ["197"%char; "184"%char]
      else if u_is_lower (UL b) then ["195"%char; ascii_of_nat (n - 32)]
      else ["195"%char; b]
  end.

(* utils.rs:25 to_snake_case; [prev] is chars[i-1] (None iff i = 0) *)
Fixpoint snake_aux (prev : option uch) (cs : list uch) : list uch :=
  match cs with
  | [] => []
  | ch :: rest =>
      if u_is_upper ch then
        let prev_is_lower := opt_test u_is_lower prev in
        let prev_is_us := opt_test u_is_us prev in
        let next_is_lower := opt_test u_is_lower (hd_error rest) in
        let i_gt0 := match prev with Some _ => true | None => false end in
        let prev_is_upper := opt_test u_is_upper prev in
        let ins := i_gt0 && negb prev_is_us && (prev_is_lower || next_is_lower)
                   && (negb prev_is_upper || next_is_lower) in
        (if ins then [UA "_"%char] else []) ++ u_to_lower ch :: snake_aux (Some ch) rest
      else ch :: snake_aux (Some ch) rest
  end.
(* a raw identifier (`r#loop`) contributes its bare name: s.strip_prefix("r#").unwrap_or(s) *)
Definition strip_raw (cs : list ascii) : list ascii :=
  match cs with
  | a :: b :: rest => if Ascii.eqb a "r"%char && Ascii.eqb b "#"%char then rest else cs
  | _ => cs
  end.
Definition to_snake_case (s : string) : string :=
  string_of_list_ascii (encode (snake_aux None (decode (strip_raw (list_ascii_of_string s))))).

(* utils.rs:75 to_pascal_case: split on '_', upper-case the first char of each word, concatenate *)
Fixpoint pascal_aux (start : bool) (cs : list uch) : list ascii :=
  match cs with
  | [] => []
  | c :: r => if u_is_us c then pascal_aux true r
              else (if start then u_to_upper c else enc1 c) ++ pascal_aux false r
  end.
Definition to_pascal_case (s : string) : string :=
  string_of_list_ascii (pascal_aux true (decode (list_ascii_of_string s))).

(* validation.rs:25 is_snake_case *)
Fixpoint snake_chars_ok (prev_us : bool) (cs : list uch) : bool :=
  match cs with
  | [] => true
  | c :: r =>
      if negb (u_is_lower c) && negb (u_is_digit c) && negb (u_is_us c) then false
      else if u_is_us c then (if prev_us then false else snake_chars_ok true r)
      else snake_chars_ok false r
  end.
Definition is_snake_case (s : string) : bool :=
  let cs := decode (list_ascii_of_string s) in
  match cs with
  | [] => false
  | c :: _ =>
      if u_is_us c || opt_test u_is_us (hd_error (rev cs)) then false
      else snake_chars_ok false cs
  end.

(* association lists standing for the macro's HashMap<String, _>: insert = cons, lookup = first hit,
   which is "last insert wins", the HashMap::insert behaviour *)
Fixpoint assoc {A} (k : ident) (m : list (ident * A)) : option A :=
  match m with
  | [] => None
  | (k', v) :: r => if String.eqb k k' then Some v else assoc k r
  end.
Definition mem (k : ident) (l : list ident) : bool := existsb (String.eqb k) l.

Fixpoint dedup (l : list ident) : list ident :=
  match l with
  | [] => []
  | x :: r => if mem x r then dedup r else x :: dedup r
  end.

Infix "+++" := String.append (right associativity, at level 60).
