(* Ident.v -- ASCII identifiers and the three name functions of the macro.
   Models state-machines-macro/src/codegen/utils.rs (to_snake_case, to_pascal_case)
   and validation.rs:25 (is_snake_case), restricted to ASCII.  Definitions only. *)
From Coq Require Import String Ascii List Bool Arith.
Import ListNotations.
Open Scope string_scope.
Open Scope list_scope.

Definition ident := string.
Definition ty := string.          (* a Rust type, kept as its token text *)

Definition is_upper (c : ascii) : bool :=
  let n := nat_of_ascii c in (65 <=? n)%nat && (n <=? 90)%nat.
Definition is_lower (c : ascii) : bool :=
  let n := nat_of_ascii c in (97 <=? n)%nat && (n <=? 122)%nat.
Definition is_digit (c : ascii) : bool :=
  let n := nat_of_ascii c in (48 <=? n)%nat && (n <=? 57)%nat.
Definition is_us (c : ascii) : bool := Ascii.eqb c "_"%char.
Definition to_lower (c : ascii) : ascii :=
  if is_upper c then ascii_of_nat (nat_of_ascii c + 32) else c.
Definition to_upper (c : ascii) : ascii :=
  if is_lower c then ascii_of_nat (nat_of_ascii c - 32) else c.

Definition opt_test {A} (f : A -> bool) (o : option A) : bool :=
  match o with Some a => f a | None => false end.

(* utils.rs:25 to_snake_case; [prev] is chars[i-1] (None iff i = 0) *)
Fixpoint snake_aux (prev : option ascii) (cs : list ascii) : list ascii :=
  match cs with
  | [] => []
  | ch :: rest =>
      if is_upper ch then
        let prev_is_lower := opt_test is_lower prev in
        let prev_is_us := opt_test is_us prev in
        let next_is_lower := opt_test is_lower (hd_error rest) in
        let i_gt0 := match prev with Some _ => true | None => false end in
        let prev_is_upper := opt_test is_upper prev in
        let ins := i_gt0 && negb prev_is_us && (prev_is_lower || next_is_lower)
                   && (negb prev_is_upper || next_is_lower) in
        (if ins then ["_"%char] else []) ++ to_lower ch :: snake_aux (Some ch) rest
      else ch :: snake_aux (Some ch) rest
  end.
(* a raw identifier (`r#loop`) contributes its bare name: s.strip_prefix("r#").unwrap_or(s) *)
Definition strip_raw (cs : list ascii) : list ascii :=
  match cs with
  | a :: b :: rest => if Ascii.eqb a "r"%char && Ascii.eqb b "#"%char then rest else cs
  | _ => cs
  end.
Definition to_snake_case (s : string) : string :=
  string_of_list_ascii (snake_aux None (strip_raw (list_ascii_of_string s))).

(* utils.rs:75 to_pascal_case: split on '_', upper-case the first char of each word, concatenate *)
Fixpoint pascal_aux (start : bool) (cs : list ascii) : list ascii :=
  match cs with
  | [] => []
  | c :: r => if is_us c then pascal_aux true r
              else (if start then to_upper c else c) :: pascal_aux false r
  end.
Definition to_pascal_case (s : string) : string :=
  string_of_list_ascii (pascal_aux true (list_ascii_of_string s)).

(* validation.rs:25 is_snake_case *)
Fixpoint snake_chars_ok (prev_us : bool) (cs : list ascii) : bool :=
  match cs with
  | [] => true
  | c :: r =>
      if negb (is_lower c) && negb (is_digit c) && negb (is_us c) then false
      else if is_us c then (if prev_us then false else snake_chars_ok true r)
      else snake_chars_ok false r
  end.
Definition is_snake_case (s : string) : bool :=
  let cs := list_ascii_of_string s in
  match cs with
  | [] => false
  | c :: _ =>
      if is_us c || opt_test is_us (hd_error (rev cs)) then false
      else snake_chars_ok false cs
  end.

(* association lists standing for the macro's HashMap<String, _>: insert = cons, lookup = first hit,
   which is "last insert wins", the HashMap::insert behaviour *)
Fixpoint assoc {A} (k : ident) (m : list (ident * A)) : option A :=
  match m with
  | [] => None
  | (k', v) :: r => if String.eqb k k' then Some v else assoc k r
  end.
Definition mem (k : ident) (l : list ident) : bool := existsb (String.eqb k) l.

Fixpoint dedup (l : list ident) : list ident :=
  match l with
  | [] => []
  | x :: r => if mem x r then dedup r else x :: dedup r
  end.

Infix "+++" := String.append (right associativity, at level 60).
