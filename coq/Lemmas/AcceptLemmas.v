(* AcceptLemmas.v -- everything the macro (and rustc's duplicate checks) accept is well-formed (C13). *)
From Coq Require Import String List Bool Arith Lia.
From SM Require Import Ident Ast Front Spec Gir Codegen Sem Static.
From SM.Lemmas Require Import FrontLemmas FrontTop ChainLemmas GirLemmas IdentLemmas.
Import ListNotations.
Open Scope string_scope.
Open Scope list_scope.

(* ---------- keys ---------- *)

Lemma parse_keys_ok : forall items anc a a',
  fold_items (parse_item anc) items a = Ok a' -> forallb (item_keys_ok (is_nil anc)) items = true.
Proof.
  assert (Hi : forall it, (fun it => forall anc a a', parse_item anc it a = Ok a' -> item_keys_ok (is_nil anc) it = true) it).
  { induction it as [n d|n d body IHb|n|k] using sitem_ind2; intros anc a a' H.
    - reflexivity.
    - rewrite parse_item_super in H. destruct (mem n (p_seen (b_st a))); [discriminate|].
      destruct (fold_items (parse_item (anc ++ [n])) body (super_start n d a)) as [inner|] eqn:Ef; [|discriminate].
      cbn [item_keys_ok]. clear H. revert Ef. generalize (super_start n d a) as a0. intros a0 Ef.
      assert (Hn : is_nil (anc ++ [n]) = false) by (destruct anc; reflexivity).
      revert a0 inner Ef. induction IHb as [|x r Hx Hr IH]; intros a0 inner Ef; [reflexivity|].
      rewrite fold_items_cons in Ef. destruct (parse_item (anc ++ [n]) x a0) as [a1|] eqn:Ex; [|discriminate].
      cbn [forallb]. pose proof (Hx _ _ _ Ex) as Hk. rewrite Hn in Hk. rewrite Hk. cbn [andb]. eapply IH. exact Ef.
    - cbn in H. cbn [item_keys_ok]. destruct (is_nil anc); [discriminate|reflexivity].
    - cbn in H. destruct (is_nil anc); discriminate. }
  induction items as [|x r IH]; intros anc a a' H; [reflexivity|].
  rewrite fold_items_cons in H. destruct (parse_item anc x a) as [a1|] eqn:Ex; [|discriminate].
  cbn [forallb]. rewrite (Hi _ _ _ _ Ex). cbn [andb]. eapply IH. exact H.
Qed.

Lemma parse_valid_ok : forall items anc a a',
  fold_items (parse_item anc) items a = Ok a' -> forallb item_valid_b items = true.
Proof.
  assert (Hi : forall it, (fun it => forall anc a a', parse_item anc it a = Ok a' -> item_valid_b it = true) it).
  { induction it as [n d|n d body IHb|n|k] using sitem_ind2; intros anc a a' H; try reflexivity.
    rewrite parse_item_super in H. destruct (mem n (p_seen (b_st a))); [discriminate|].
    destruct (fold_items (parse_item (anc ++ [n])) body (super_start n d a)) as [inner|] eqn:Ef; [|discriminate].
    pose proof (parse_R1 _ _ _ _ Ef) as (_ & D & _).
    pose proof (parse_R2 _ _ _ _ Ef) as (_ & _ & _ & B).
    unfold super_start in D, B. cbn [b_desc b_init app] in D, B.
    cbn [item_valid_b]. unfold super_finish in H.
    destruct (b_desc inner) as [|first rest] eqn:Ed; [discriminate|].
    rewrite <- D. cbn [is_nil negb andb]. rewrite B in H.
    assert (Hall : forallb item_valid_b body = true).
    { clear H. revert Ef. generalize (super_start n d a) as a0. intros a0 Ef.
      revert a0 inner Ef D B Ed. induction IHb as [|x r Hx Hr IH]; intros a0 inner Ef D B Ed; [reflexivity|].
      rewrite fold_items_cons in Ef. destruct (parse_item (anc ++ [n]) x a0) as [a1|] eqn:Ex; [|discriminate].
      cbn [forallb]. rewrite (Hx _ _ _ Ex). cbn [andb].
      (* the tail: re-run the argument on r (only success of the fold is needed) *)
      clear - Ef Hr.
      revert a1 inner Ef. induction Hr as [|y r' Hy Hr' IH2]; intros a1 inner Ef; [reflexivity|].
      rewrite fold_items_cons in Ef. destruct (parse_item (anc ++ [n]) y a1) as [a2|] eqn:Ey; [|discriminate].
      cbn [forallb]. rewrite (Hy _ _ _ Ey). cbn [andb]. eapply IH2. exact Ef. }
    rewrite Hall, andb_true_r.
    destruct (last_init body) as [i|]; [|reflexivity].
    destruct (mem i (first :: rest)); [reflexivity|discriminate]. }
  induction items as [|x r IH]; intros anc a a' H; [reflexivity|].
  rewrite fold_items_cons in H. destruct (parse_item anc x a) as [a1|] eqn:Ex; [|discriminate].
  cbn [forallb]. rewrite (Hi _ _ _ _ Ex). cbn [andb]. eapply IH. exact H.
Qed.

Lemma parse_states_forest_wf items ps : parse_states items = Ok ps -> forest_wf items.
Proof.
  intros Hp. destruct (parse_states_fold _ _ Hp) as (a' & Hf & _).
  constructor.
  - exact (parse_keys_ok _ _ _ _ Hf).
  - exact (ps_names_nodup _ _ Hp).
  - exact (parse_valid_ok _ _ _ _ Hf).
Qed.

(* ---------- events sections ---------- *)

Lemma parse_tentries_wf ts : forall a a', parse_tentries ts a = Ok a' ->
  (forall k, ~ In (TUnknownT k) ts) /\
  (ta_from a' <> None -> ta_from a <> None \/ exists l, In (TFrom l) ts) /\
  (ta_to a' <> None -> ta_to a <> None \/ exists t, In (TTo t) ts).
Proof.
  induction ts as [|t r IH]; intros a a' H.
  - cbn in H. inversion H; subst. repeat split; [intros k []|intros Hn; left; exact Hn|intros Hn; left; exact Hn].
  - destruct t as [l|tt|k l|k]; cbn [parse_tentries] in H; try discriminate;
      destruct (IH _ _ H) as (U & Fr & To); cbn [ta_from ta_to] in *;
      (repeat split;
       [ intros k0 [Hk|Hk]; [discriminate|exact (U _ Hk)]
       | intros Hn; destruct (Fr Hn) as [Ho|[l0 Hl]];
           [ first [left; exact Ho | right; eexists; left; reflexivity] | right; exists l0; right; exact Hl]
       | intros Hn; destruct (To Hn) as [Ho|[t0 Ht]];
           [ first [left; exact Ho | right; eexists; left; reflexivity] | right; exists t0; right; exact Ht] ]).
Qed.

Lemma parse_transition_wf ts t : parse_transition ts = Ok t -> tentries_wf ts.
Proof.
  unfold parse_transition. destruct (parse_tentries ts _) as [a|] eqn:E; [|discriminate].
  destruct (parse_tentries_wf _ _ _ E) as (U & Fr & To). cbn [ta_from ta_to] in *.
  destruct (ta_from a) as [src|] eqn:Ef; [|discriminate].
  destruct (ta_to a) as [tg|] eqn:Et; [|discriminate].
  intros _. repeat split.
  - exact U.
  - destruct Fr as [Ho|Hx]; [discriminate|contradiction|exact Hx].
  - destruct To as [Ho|Hx]; [discriminate|contradiction|exact Hx].
Qed.

Lemma parse_eentries_wf es : forall ev ev', parse_eentries es ev = Ok ev' ->
  (forall k, ~ In (EUnknownE k) es) /\ (forall ts, In (ETransition ts) es -> tentries_wf ts).
Proof.
  induction es as [|e r IH]; intros ev ev' H.
  - split; intros ? [].
  - destruct e as [t|k l|ts|k]; cbn [parse_eentries] in H; try discriminate.
    + destruct (IH _ _ H) as (U & T). split; [intros k [Hk|Hk]; [discriminate|exact (U _ Hk)]|intros ts [Hk|Hk]; [discriminate|exact (T _ Hk)]].
    + destruct (IH _ _ H) as (U & T). split; [intros k0 [Hk|Hk]; [discriminate|exact (U _ Hk)]|intros ts [Hk|Hk]; [discriminate|exact (T _ Hk)]].
    + destruct (parse_transition ts) as [t|] eqn:Et; [|discriminate].
      destruct (IH _ _ H) as (U & T). split; [intros k [Hk|Hk]; [discriminate|exact (U _ Hk)]|].
      intros ts' [Hk|Hk]; [inversion Hk; subst; eapply parse_transition_wf; exact Et|exact (T _ Hk)].
Qed.

Lemma parse_events_wf sevs evs : parse_events sevs = Ok evs -> forall se, In se sevs -> sevent_wf se.
Proof.
  revert evs. induction sevs as [|se0 r IH]; intros evs H se Hin; [contradiction|].
  cbn [parse_events] in H. destruct (parse_event se0) as [ev|] eqn:Ee; [|discriminate].
  destruct (parse_events r) as [evs'|] eqn:Er; [|discriminate].
  destruct Hin as [<-|Hin]; [|eapply IH; [reflexivity|exact Hin]].
  unfold parse_event in Ee. exact (parse_eentries_wf _ _ _ Ee).
Qed.

(* ---------- the rule list ---------- *)

Definition effective_events (d : defn) (evs : list event) : Prop :=
  match d_sevents d with Some sevs => parse_events sevs = Ok evs | None => evs = [] end.

Record WF (d : defn) : Prop := {
  wf_name : d_name d <> None;                                   (* required sections *)
  wf_initial : d_initial d <> None;
  wf_states : d_states d <> None;
  wf_no_unknown : forall k, ~ In (MUnknown k) d;                (* no unknown key at top level ... *)
  wf_forests : forall items, In (MStates items) d -> forest_wf items;   (* ... nor in a block; names distinct; superstates non-empty with inner initial *)
  wf_sevents : forall sevs se, In (MEvents sevs) d -> In se sevs -> sevent_wf se;  (* no unknown key in events/transitions; from and to present *)
  wf_initial_leaf : forall items ini, d_states d = Some items -> d_initial d = Some ini ->
                    In ini (leaves_of items) /\ ~ In ini (supers_of items);
  wf_events : forall items evs, d_states d = Some items -> effective_events d evs ->
              forall ev, In ev evs -> event_wf items ev }.

Theorem accepted_is_wf d m : front d = Ok m -> WF d.
Proof.
  intros H. destruct (front_spec _ _ H) as (items & ps & F).
  pose proof (validate_facts _ _ _ _ F) as VF.
  constructor.
  - rewrite (ff_name _ _ _ _ F). discriminate.
  - rewrite (ff_initial _ _ _ _ F). discriminate.
  - rewrite (ff_states _ _ _ _ F). discriminate.
  - exact (ff_no_unknown _ _ _ _ F).
  - intros it Hin. destruct (ff_all_states _ _ _ _ F it Hin) as [ps' Hp]. eapply parse_states_forest_wf. exact Hp.
  - intros sevs se Hin Hse. destruct (ff_all_events _ _ _ _ F sevs Hin) as [evs Hp]. eapply parse_events_wf; eassumption.
  - intros it ini Hs Hi. rewrite (ff_states _ _ _ _ F) in Hs. inversion Hs; subst it.
    rewrite (ff_initial _ _ _ _ F) in Hi. inversion Hi; subst ini.
    split; [exact (vf_initial_leaf _ _ VF)|exact (vf_initial_not_super _ _ VF)].
  - intros it evs Hs He ev Hev. rewrite (ff_states _ _ _ _ F) in Hs. inversion Hs; subst it.
    unfold effective_events in He. pose proof (ff_events _ _ _ _ F) as Fe.
    destruct (d_sevents d) as [sevs|].
    + rewrite Fe in He. inversion He; subst evs. exact (vf_events _ _ VF ev Hev).
    + subst evs. contradiction.
Qed.

(* ---------- ambiguity: what rustc's duplicate-definition check rules out ---------- *)

Lemma has_dup_false_NoDup l : has_dup l = false -> NoDup l.
Proof.
  induction l as [|x r IH]; intros H; [constructor|]. cbn [has_dup] in H.
  apply orb_false_iff in H as [Hm Hr]. constructor; [apply mem_false; exact Hm|apply IH; exact Hr].
Qed.

Lemma NoDup_map_filter_le1 {A} (f : A -> ident) (p : A -> bool) (v : ident) (l : list A) :
  NoDup (map f l) -> (forall x, In x l -> p x = true -> f x = v) -> length (filter p l) <= 1.
Proof.
  induction l as [|x r IH]; intros ND Hp; [cbn; lia|].
  cbn [map] in ND. inversion ND as [|? ? Hx ND']; subst. cbn [filter].
  destruct (p x) eqn:Ex.
  - assert (Hr : filter p r = []).
    { destruct (filter p r) as [|y t] eqn:Ef; [reflexivity|exfalso].
      assert (Hy : In y (filter p r)) by (rewrite Ef; left; reflexivity).
      apply filter_In in Hy as [Hy Py]. apply Hx. rewrite (Hp x (or_introl eq_refl) Ex).
      rewrite <- (Hp y (or_intror Hy) Py). apply in_map. exact Hy. }
    rewrite Hr. cbn. lia.
  - apply IH; [exact ND'|]. intros y Hy. apply Hp. right. exact Hy.
Qed.

Definition graph_det (m : machine) : Prop :=
  forall s ev, length (filter (fun e => String.eqb (g_event e) ev) (outgoing (m_graph m) s)) <= 1.

Lemma graph_sources_leaves d m items ps s e :
  front_facts d m items ps -> In (s, e) (m_graph m) -> In s (m_states m).
Proof.
  intros F H. rewrite (ff_graph _ _ _ _ F) in H.
  apply in_build_graph in H as (ev & tr & src & _ & _ & _ & Hs & _).
  rewrite (ff_hier _ _ _ _ F), (ff_leaves _ _ _ _ F) in Hs.
  pose proof (ff_parse _ _ _ _ F) as Hp. rewrite <- (ps_leaves _ _ Hp), (expand_state_spec _ _ Hp) in Hs.
  rewrite (ff_leaves _ _ _ _ F).
  unfold leaves_under in Hs. destruct (find_super src items) as [b|] eqn:E.
  - eapply find_super_leaves_sub; [exact E|exact Hs].
  - destruct (mem src (leaves_of items)) eqn:Em; [|contradiction].
    destruct Hs as [<-|[]]. apply mem_In. exact Em.
Qed.

(* rustc's "duplicate definitions" check (E0592) on the generated impls rules out two transitions of
   one event applicable to the same leaf *)
Theorem coherent_is_deterministic d m items ps feat :
  front_facts d m items ps -> methods_coherent (codegen m feat) = true -> graph_det m.
Proof.
  intros F Hc s ev. unfold methods_coherent in Hc. rewrite forallb_forall in Hc.
  destruct (mem s (m_states m)) eqn:Es.
  - apply mem_In in Es.
    assert (Hin : In (gen_impl m s) (gr_impls (codegen m feat))) by (unfold codegen; cbn; apply in_map; exact Es).
    specialize (Hc _ Hin). apply negb_true_iff in Hc. cbn [gen_impl gi_state] in Hc.
    apply has_dup_false_NoDup in Hc. unfold inherent_names in Hc.
    rewrite (impl_of_codegen _ _ _ Es) in Hc. cbn [gen_impl gi_new gi_methods] in Hc.
    apply NoDup_app_elim in Hc as (Hc & _ & _). apply NoDup_app_elim in Hc as (_ & Hc & _).
    rewrite map_map in Hc. cbn [gen_method gm_name] in Hc.
    apply (NoDup_map_filter_le1 (fun e => to_snake_case (g_event e)) _ (to_snake_case ev)); [exact Hc|].
    intros x _ Hx. apply String.eqb_eq in Hx. rewrite Hx. reflexivity.
  - apply mem_false in Es.
    assert (Ho : outgoing (m_graph m) s = []).
    { destruct (outgoing (m_graph m) s) as [|e0 r] eqn:Eo; [reflexivity|exfalso]. apply Es.
      eapply graph_sources_leaves; [exact F|]. apply in_outgoing. rewrite Eo. left. reflexivity. }
    rewrite Ho. cbn. lia.
Qed.

(* ... and its duplicate-variant check (E0428 on enum variants) two events with one variant name *)
Theorem coherent_variants_distinct m feat :
  m_dynamic m || feat = true -> dyn_coherent (codegen m feat) = true ->
  NoDup (map (fun ev => to_pascal_case (e_name ev)) (m_events m)).
Proof.
  intros Hd Hc. unfold dyn_coherent, codegen in Hc. cbn [gr_dyn] in Hc. rewrite Hd in Hc.
  apply andb_prop in Hc as [_ Hc]. apply negb_true_iff in Hc.
  apply has_dup_false_NoDup in Hc. cbn [gen_dyn gd_events] in Hc. rewrite map_map in Hc. exact Hc.
Qed.

(* contrapositive, as the property words it: an ill-formed definition is refused with a diagnostic *)
Corollary ill_formed_is_refused d : ~ WF d -> exists e, front d = Err e.
Proof.
  intros H. destruct (front d) as [m|e] eqn:E; [|exists e; reflexivity].
  exfalso. apply H. eapply accepted_is_wf. exact E.
Qed.
