(* AsyncLemmas.v -- the async expansion behaves like the sync one (C15). *)
From Coq Require Import String List Bool Arith Lia.
From SM Require Import Ident Ast Front Gir Codegen Sem.
From SM.Lemmas Require Import SemLemmas RefSem SemProps.
Import ListNotations.
Open Scope list_scope.

Definition set_async (b : bool) (m : machine) : machine :=
  Build_machine (m_name m) (m_initial m) (m_context m) (m_states m) (m_storage m) (m_hier m)
                (m_events m) b (m_dynamic m) (m_graph m).

(* forget how often a hook's future was pending *)
Definition erase (c : call) : call :=
  Build_call (c_kind c) (c_name c) (c_state c) (c_slots c) (c_ctx c) (c_pl c) 0 (c_done c).

Lemma ref_run_erase plb ev pl w self newm hs : forall i,
  let '(tra, pa, ra) := ref_run true plb ev pl w self newm hs i in
  let '(trs, ps, rs) := ref_run false plb ev pl w self newm hs i in
  map erase tra = trs /\ ra = rs /\ ps = 0 /\
  pa = fold_right (fun c acc => c_susp c + acc) 0 tra.
Proof.
  induction hs as [|[k n] hs IH]; intros i; cbn [ref_run]; [repeat split|].
  destruct (an_val (w i)) eqn:Ea; try (cbn; repeat split; lia);
    (destruct (stop_of ev k self n _); [cbn; repeat split; lia|];
     specialize (IH (S i));
     destruct (ref_run true plb ev pl w self newm hs (S i)) as [[tra pa] ra];
     destruct (ref_run false plb ev pl w self newm hs (S i)) as [[trs ps] rs];
     destruct IH as (E1 & E2 & E3 & E4); cbn [map fold_right]; repeat split;
     [ rewrite E1; reflexivity | exact E2 | cbn; lia | cbn [call_at mk_call c_susp susp_at]; lia ]).
Qed.

Lemma new_machine_async b m e self : new_machine (set_async b m) e self = new_machine m e self.
Proof. reflexivity. Qed.

(* Same definition, same input machine, payload and hook behaviour: the async method, run to
   completion under any number of suspensions per hook, returns the same result as the sync method
   and calls the same hooks with the same views in the same order; the sync run is never pending and
   the async run is pending exactly as often as its hooks were. *)
Theorem async_equals_sync m e self pl w :
  let ra := run_method (gen_method (set_async true m) e) self pl w None in
  let rs := run_method (gen_method (set_async false m) e) self pl w None in
  ro_res ra = ro_res rs /\
  map erase (ro_trace ra) = ro_trace rs /\
  ro_pend rs = 0 /\
  ro_pend ra = fold_right (fun c acc => c_susp c + acc) 0 (ro_trace ra).
Proof.
  cbn zeta. rewrite !run_method_ref. cbn [set_async m_async]. rewrite !new_machine_async.
  pose proof (ref_run_erase (has_pl e) (g_event e) (eff_pl e pl) w self (new_machine m e self)
                            (hooks_of (g_hooks e)) 0) as H.
  destruct (ref_run true _ _ _ _ _ _ _ _) as [[tra pa] ra].
  destruct (ref_run false _ _ _ _ _ _ _ _) as [[trs ps] rs].
  destruct H as (E1 & E2 & E3 & E4). cbn [ro_res ro_trace ro_pend]. subst rs. repeat split; assumption.
Qed.

(* hooks are awaited one at a time: in every run, every hook but possibly the last one (a panicking
   hook) ran to completion before the next one was called *)
Lemma ref_run_sequential am plb ev pl w self newm hs : forall i,
  Forall (fun c => c_done c = true) (removelast (fst (fst (ref_run am plb ev pl w self newm hs i)))).
Proof.
  induction hs as [|[k n] hs IH]; intros i; cbn [ref_run]; [constructor|].
  destruct (an_val (w i)); cbn [fst removelast]; try constructor;
    (destruct (stop_of ev k self n _); cbn [fst removelast]; [constructor|];
     specialize (IH (S i)); destruct (ref_run am plb ev pl w self newm hs (S i)) as [[tr p] r];
     cbn [fst] in *; destruct tr as [|c tr']; [constructor|]; cbn [removelast] in *;
     constructor; [reflexivity|exact IH]).
Qed.

Theorem hooks_run_one_at_a_time m e self pl w :
  Forall (fun c => c_done c = true) (removelast (ro_trace (run_method (gen_method m e) self pl w None))).
Proof.
  rewrite run_method_ref.
  pose proof (ref_run_sequential (m_async m) (has_pl e) (g_event e) (eff_pl e pl) w self (new_machine m e self)
                                 (hooks_of (g_hooks e)) 0) as H.
  destruct (ref_run _ _ _ _ _ _ _ _ _) as [[tr p] r]. exact H.
Qed.

(* every hook call and the typed call inside every handle() arm carries `.await` exactly when the
   machine is async: the generated code never creates a future it does not poll *)
Theorem awaits_everywhere m e :
  Forall (fun s => match s with
                   | SAroundBefore _ aw _ | SCond _ _ _ aw _ _ | SBefore _ _ aw | SAfter _ _ aw | SAroundAfter _ aw _ => aw = m_async m
                   | _ => True
                   end) (gen_body m e)
  /\ Forall (fun a => ga_aw a = m_async m) (gen_arms m)
  /\ gm_async (gen_method m e) = m_async m.
Proof.
  split; [|split; [|reflexivity]].
  - unfold gen_body. repeat (apply Forall_app; split); try (apply Forall_forall; intros s Hs; apply in_map_iff in Hs as (? & <- & _); reflexivity);
      repeat constructor.
  - apply Forall_forall. intros a Ha. unfold gen_arms in Ha.
    apply in_flat_map in Ha as (ev & _ & Ha). apply in_flat_map in Ha as (s & _ & Ha).
    apply in_flat_map in Ha as (ed & _ & Ha). destruct (String.eqb (g_event ed) (e_name ev)); [|contradiction].
    destruct Ha as [<-|[]]. reflexivity.
Qed.
