(* BudgetLemmas.v -- dropping an async future at its b-th Pending: the run either was going to
   complete before that (and then completes identically) or is abandoned (C19, C15). *)
From Coq Require Import String List Bool Arith Lia.
From SM Require Import Ident Ast Front Gir Codegen Sem.
From SM.Lemmas Require Import SemLemmas.
Import ListNotations.
Open Scope list_scope.

Definition with_budget (x : xst) (b : option nat) : xst :=
  Build_xst (x_self x) (x_new x) (x_i x) (x_tr x) (x_pend x) b.

Definition is_prefix_calls (short long : list call) : Prop :=
  length short <= length long /\
  map (fun c => (c_kind c, c_name c, c_state c, c_ctx c)) short
  = firstn (length short) (map (fun c => (c_kind c, c_name c, c_state c, c_ctx c)) long).

Definition key (c : call) := (c_kind c, c_name c, c_state c, c_ctx c).

Definition budget_rel (x : xst) (b : nat) (rn rb : xst * cres) : Prop :=
  let '(xn, c) := rn in
  let '(xb, cb) := rb in
  (cb = CAbandon /\ x_pend xn - x_pend x >= b)
  \/ (cb = c /\ xb = with_budget xn (Some (b - (x_pend xn - x_pend x)))).

Lemma invoke_budget am aw must w x k n on p b :
  x_budget x = None ->
  budget_rel x b (invoke am aw must w x k n on p) (invoke am aw must w (with_budget x (Some b)) k n on p).
Proof.
  intros Hb. unfold invoke, with_budget. cbn [x_budget x_i x_self x_new x_tr x_pend]. rewrite Hb.
  destruct (negb (Bool.eqb am aw)).
  { right. split; [reflexivity|]. unfold with_budget. rewrite Nat.sub_diag, Nat.sub_0_r. reflexivity. }
  set (a := w (x_i x)). set (susp := if am then an_susp a else 0).
  destruct (b <=? susp)%nat eqn:Eb.
  - apply Nat.leb_le in Eb.
    destruct (an_val a); left; cbn [x_self x_new x_tr x_pend]; split; try reflexivity; lia.
  - apply Nat.leb_gt in Eb.
    destruct (an_val a); right; cbn [x_self x_new x_tr x_pend]; split; try reflexivity;
      (unfold with_budget; cbn [x_self x_new x_i x_tr x_pend];
       replace (x_pend x + susp - x_pend x) with susp by lia; reflexivity).
Qed.

Lemma invoke_none_budget am aw must w x k n on p :
  x_budget x = None ->
  x_budget (fst (invoke am aw must w x k n on p)) = None /\
  x_pend x <= x_pend (fst (invoke am aw must w x k n on p)).
Proof.
  intros Hb. unfold invoke. rewrite Hb. destruct (negb (Bool.eqb am aw)); [cbn; split; [exact Hb|lia]|].
  destruct (an_val (w (x_i x))); cbn; split; try reflexivity; lia.
Qed.

Definition bud_out (x : xst) (b : nat) (outn outb : xst * tres) : Prop :=
  (snd outb = RAbandoned /\ x_pend (fst outn) - x_pend x >= b)
  \/ (snd outb = snd outn /\ fst outb = with_budget (fst outn) (Some (b - (x_pend (fst outn) - x_pend x)))).

Lemma exec_mono am pl w ss : forall x, x_budget x = None ->
  x_pend x <= x_pend (fst (exec am pl w ss x)) /\ x_budget (fst (exec am pl w ss x)) = None.
Proof.
  induction ss as [|s rest IH]; intros x Hb; [cbn; split; [lia|exact Hb]|].
  destruct s; cbn [exec].
  - pose proof (invoke_none_budget am aw true w x HAroundBefore cb (x_self x) None Hb) as [Hb' Hm].
    destruct (invoke am aw true w x HAroundBefore cb (x_self x) None) as [x' c]. cbn [fst] in *.
    destruct c as [a| | | |]; cbn [fst]; try (split; assumption).
    destruct a; try (destruct (IH x' Hb'); split; [lia|assumption]); cbn [fst]; split; assumption.
  - pose proof (invoke_none_budget am aw true w x (if neg then HGuard else HUnless) g (x_self x) (pl_if pl with_pl) Hb) as [Hb' Hm].
    destruct (invoke am aw true w x (if neg then HGuard else HUnless) g (x_self x) (pl_if pl with_pl)) as [x' c]. cbn [fst] in *.
    destruct c as [a| | | |]; cbn [fst]; try (split; assumption).
    destruct (if neg then negb (guard_ans a) else unless_ans a); cbn [fst]; [split; assumption|].
    destruct (IH x' Hb'); split; [lia|assumption].
  - pose proof (invoke_none_budget am aw false w x HBefore cb (x_self x) (pl_if pl with_pl) Hb) as [Hb' Hm].
    destruct (invoke am aw false w x HBefore cb (x_self x) (pl_if pl with_pl)) as [x' c]. cbn [fst] in *.
    destruct c as [a| | | |]; cbn [fst]; try (split; assumption);
      destruct (IH x' Hb'); split; [lia|assumption|lia|assumption].
  - match goal with |- context [exec am pl w rest ?y] => specialize (IH y Hb) end. exact IH.
  - destruct (x_new x) as [nm|]; [|cbn; split; [lia|exact Hb]].
    pose proof (invoke_none_budget am aw false w x HAfter cb nm (pl_if pl with_pl) Hb) as [Hb' Hm].
    destruct (invoke am aw false w x HAfter cb nm (pl_if pl with_pl)) as [x' c]. cbn [fst] in *.
    destruct c as [a| | | |]; cbn [fst]; try (split; assumption);
      destruct (IH x' Hb'); split; [lia|assumption|lia|assumption].
  - destruct (x_new x) as [nm|]; [|cbn; split; [lia|exact Hb]].
    pose proof (invoke_none_budget am aw true w x HAroundAfter cb nm None Hb) as [Hb' Hm].
    destruct (invoke am aw true w x HAroundAfter cb nm None) as [x' c]. cbn [fst] in *.
    destruct c as [a| | | |]; cbn [fst]; try (split; assumption).
    destruct a; try (destruct (IH x' Hb'); split; [lia|assumption]); cbn [fst]; split; assumption.
  - destruct (x_new x); cbn; split; try lia; exact Hb.
Qed.

(* one statement = an invocation followed by a continuation that only looks at the answer *)
Lemma bud_step (x : xst) (b : nat) (rn rb : xst * cres) (cont : xst -> cres -> xst * tres) :
  x_budget (fst rn) = None -> x_pend x <= x_pend (fst rn) ->
  budget_rel x b rn rb ->
  (forall y, cont y CAbandon = (y, RAbandoned)) ->
  (forall y c, x_budget y = None -> x_pend y <= x_pend (fst (cont y c))) ->
  (forall y c b', x_budget y = None -> c <> CAbandon -> bud_out y b' (cont y c) (cont (with_budget y (Some b')) c)) ->
  bud_out x b (cont (fst rn) (snd rn)) (cont (fst rb) (snd rb)).
Proof.
  intros Hn Hm R Hab Hmono Hc. destruct rn as [xn c], rb as [xb cb]. cbn [fst snd] in *.
  pose proof (Hmono xn c Hn) as Hm2.
  destruct R as [(-> & Hge)|(-> & ->)].
  - left. rewrite Hab. cbn [snd]. split; [reflexivity|lia].
  - assert (Hca : c = CAbandon \/ c <> CAbandon) by (destruct c; auto; right; discriminate).
    destruct Hca as [->|Hne].
    + rewrite !Hab. right. cbn [fst snd]. split; reflexivity.
    + destruct (Hc xn c (b - (x_pend xn - x_pend x)) Hn Hne) as [[Ha Hge]|[Hs Hf]].
      * left. split; [exact Ha|lia].
      * right. split; [exact Hs|]. rewrite Hf. f_equal. f_equal. lia.
Qed.

Lemma bud_out_stop y b' r : bud_out y b' (y, r) (with_budget y (Some b'), r).
Proof. right. cbn [fst snd]. split; [reflexivity|]. rewrite Nat.sub_diag, Nat.sub_0_r. reflexivity. Qed.

Lemma invoke_self am aw must w x k n on p :
  x_self (fst (invoke am aw must w x k n on p)) = x_self x /\
  x_new (fst (invoke am aw must w x k n on p)) = x_new x.
Proof.
  unfold invoke. destruct (negb (Bool.eqb am aw)); [split; reflexivity|].
  destruct (x_budget x) as [b|].
  - destruct (b <=? _)%nat; [split; reflexivity|]. destruct (an_val (w (x_i x))); split; reflexivity.
  - destruct (an_val (w (x_i x))); split; reflexivity.
Qed.

(* dropping the future at its b-th Pending: abandoned, or exactly the complete run *)
Theorem exec_budget am pl w ss : forall x b,
  x_budget x = None ->
  bud_out x b (exec am pl w ss x) (exec am pl w ss (with_budget x (Some b))).
Proof.
  induction ss as [|s rest IH]; intros x b Hb; [apply bud_out_stop|].
  assert (Hmono : forall y, x_budget y = None -> x_pend y <= x_pend (fst (exec am pl w rest y)))
    by (intros y Hy; apply exec_mono; exact Hy).
  destruct s as [cb aw ev|neg g wpl aw gl el|cb wpl aw|tgt mv inits|cb wpl aw|cb aw ev|].
  - (* SAroundBefore *)
    set (cont := fun (y : xst) (c : cres) =>
      match c with
      | CAns (AAbort k) => (y, RErr (x_self y) (Build_gerr (abort_name k cb) ev k))
      | CAns _ => exec am pl w rest y
      | CPanic => (y, RPanicHook cb)
      | CAbandon => (y, RAbandoned)
      | _ => (y, RStuck)
      end).
    assert (E : forall z, exec am pl w (SAroundBefore cb aw ev :: rest) z =
                          cont (fst (invoke am aw true w z HAroundBefore cb (x_self z) None))
                               (snd (invoke am aw true w z HAroundBefore cb (x_self z) None))).
    { intros z. cbn [exec]. pose proof (invoke_self am aw true w z HAroundBefore cb (x_self z) None) as [Hs _].
      destruct (invoke am aw true w z HAroundBefore cb (x_self z) None) as [z' c]. cbn [fst snd] in *.
      unfold cont. destruct c as [a| | | |]; try reflexivity. destruct a; try reflexivity. rewrite Hs. reflexivity. }
    rewrite !E. cbn [with_budget x_self].
    pose proof (invoke_none_budget am aw true w x HAroundBefore cb (x_self x) None Hb) as [Hn Hm].
    apply bud_step; try assumption.
    + apply invoke_budget. exact Hb.
    + reflexivity.
    + intros y c Hy. unfold cont. destruct c as [a| | | |]; cbn [fst]; try lia. destruct a; cbn [fst]; try lia; apply Hmono; exact Hy.
    + intros y c b' Hy Hne. unfold cont. destruct c as [a| | | |]; try apply bud_out_stop; try congruence.
      destruct a; try (apply IH; exact Hy). apply bud_out_stop.
  - (* SCond *)
    set (cont := fun (y : xst) (c : cres) =>
      match c with
      | CAns a => if (if neg then negb (guard_ans a) else unless_ans a)
                  then (y, RErr (x_self y) (Build_gerr gl el (AKGuard gl))) else exec am pl w rest y
      | CPanic => (y, RPanicHook g)
      | CAbandon => (y, RAbandoned)
      | _ => (y, RStuck)
      end).
    assert (E : forall z, exec am pl w (SCond neg g wpl aw gl el :: rest) z =
                          cont (fst (invoke am aw true w z (if neg then HGuard else HUnless) g (x_self z) (pl_if pl wpl)))
                               (snd (invoke am aw true w z (if neg then HGuard else HUnless) g (x_self z) (pl_if pl wpl)))).
    { intros z. cbn [exec]. pose proof (invoke_self am aw true w z (if neg then HGuard else HUnless) g (x_self z) (pl_if pl wpl)) as [Hs _].
      destruct (invoke am aw true w z (if neg then HGuard else HUnless) g (x_self z) (pl_if pl wpl)) as [z' c]. cbn [fst snd] in *.
      unfold cont. destruct c as [a| | | |]; try reflexivity. rewrite Hs. reflexivity. }
    rewrite !E. cbn [with_budget x_self].
    pose proof (invoke_none_budget am aw true w x (if neg then HGuard else HUnless) g (x_self x) (pl_if pl wpl) Hb) as [Hn Hm].
    apply bud_step; try assumption.
    + apply invoke_budget. exact Hb.
    + reflexivity.
    + intros y c Hy. unfold cont. destruct c as [a| | | |]; cbn [fst]; try lia.
      destruct (if neg then negb (guard_ans a) else unless_ans a); cbn [fst]; [lia|apply Hmono; exact Hy].
    + intros y c b' Hy Hne. unfold cont. destruct c as [a| | | |]; try apply bud_out_stop; try congruence.
      destruct (if neg then negb (guard_ans a) else unless_ans a); [apply bud_out_stop|apply IH; exact Hy].
  - (* SBefore *)
    set (cont := fun (y : xst) (c : cres) =>
      match c with
      | CAns _ | CSkip => exec am pl w rest y
      | CPanic => (y, RPanicHook cb)
      | CAbandon => (y, RAbandoned)
      | CStuck => (y, RStuck)
      end).
    assert (E : forall z, exec am pl w (SBefore cb wpl aw :: rest) z =
                          cont (fst (invoke am aw false w z HBefore cb (x_self z) (pl_if pl wpl)))
                               (snd (invoke am aw false w z HBefore cb (x_self z) (pl_if pl wpl)))).
    { intros z. cbn [exec]. destruct (invoke am aw false w z HBefore cb (x_self z) (pl_if pl wpl)) as [z' c].
      cbn [fst snd]. unfold cont. destruct c; reflexivity. }
    rewrite !E. cbn [with_budget x_self].
    pose proof (invoke_none_budget am aw false w x HBefore cb (x_self x) (pl_if pl wpl) Hb) as [Hn Hm].
    apply bud_step; try assumption.
    + apply invoke_budget. exact Hb.
    + reflexivity.
    + intros y c Hy. unfold cont. destruct c; cbn [fst]; try lia; apply Hmono; exact Hy.
    + intros y c b' Hy Hne. unfold cont. destruct c; try apply bud_out_stop; try congruence; apply IH; exact Hy.
  - (* SConstruct *)
    cbn [exec]. unfold set_new. cbn [with_budget x_self x_new x_i x_tr x_pend].
    match goal with |- bud_out _ _ (exec _ _ _ _ ?y) _ =>
      change (bud_out x b (exec am pl w rest y) (exec am pl w rest (with_budget y (Some b)))) end.
    match goal with |- bud_out _ _ (exec _ _ _ _ ?y) _ =>
      pose proof (IH y b Hb) as H; unfold bud_out in *; cbn [x_pend] in * end. exact H.
  - (* SAfter *)
    cbn [exec with_budget x_new]. destruct (x_new x) as [nm|]; [|apply bud_out_stop].
    set (cont := fun (y : xst) (c : cres) =>
      match c with
      | CAns _ | CSkip => exec am pl w rest y
      | CPanic => (y, RPanicHook cb)
      | CAbandon => (y, RAbandoned)
      | CStuck => (y, RStuck)
      end).
    assert (E : forall z, match invoke am aw false w z HAfter cb nm (pl_if pl wpl) with
                          | (x', CAns _) | (x', CSkip) => exec am pl w rest x'
                          | (x', CPanic) => (x', RPanicHook cb)
                          | (x', CAbandon) => (x', RAbandoned)
                          | (x', CStuck) => (x', RStuck)
                          end = cont (fst (invoke am aw false w z HAfter cb nm (pl_if pl wpl)))
                                     (snd (invoke am aw false w z HAfter cb nm (pl_if pl wpl)))).
    { intros z. destruct (invoke am aw false w z HAfter cb nm (pl_if pl wpl)) as [z' c]. cbn [fst snd]. unfold cont. destruct c; reflexivity. }
    rewrite !E.
    pose proof (invoke_none_budget am aw false w x HAfter cb nm (pl_if pl wpl) Hb) as [Hn Hm].
    apply bud_step; try assumption.
    + apply (invoke_budget am aw false w x HAfter cb nm (pl_if pl wpl) b Hb).
    + reflexivity.
    + intros y c Hy. unfold cont. destruct c; cbn [fst]; try lia; apply Hmono; exact Hy.
    + intros y c b' Hy Hne. unfold cont. destruct c; try apply bud_out_stop; try congruence; apply IH; exact Hy.
  - (* SAroundAfter *)
    cbn [exec with_budget x_new]. destruct (x_new x) as [nm|]; [|apply bud_out_stop].
    set (cont := fun (y : xst) (c : cres) =>
      match c with
      | CAns (AAbort k) => (y, RPanicAfter (abort_name k cb) ev)
      | CAns _ => exec am pl w rest y
      | CPanic => (y, RPanicHook cb)
      | CAbandon => (y, RAbandoned)
      | _ => (y, RStuck)
      end).
    assert (E : forall z, match invoke am aw true w z HAroundAfter cb nm None with
                          | (x', CAns (AAbort k)) => (x', RPanicAfter (abort_name k cb) ev)
                          | (x', CAns _) => exec am pl w rest x'
                          | (x', CPanic) => (x', RPanicHook cb)
                          | (x', CAbandon) => (x', RAbandoned)
                          | (x', _) => (x', RStuck)
                          end = cont (fst (invoke am aw true w z HAroundAfter cb nm None))
                                     (snd (invoke am aw true w z HAroundAfter cb nm None))).
    { intros z. destruct (invoke am aw true w z HAroundAfter cb nm None) as [z' c]. cbn [fst snd]. unfold cont.
      destruct c as [a| | | |]; reflexivity. }
    rewrite !E.
    pose proof (invoke_none_budget am aw true w x HAroundAfter cb nm None Hb) as [Hn Hm].
    apply bud_step; try assumption.
    + apply (invoke_budget am aw true w x HAroundAfter cb nm None b Hb).
    + reflexivity.
    + intros y c Hy. unfold cont. destruct c as [a| | | |]; cbn [fst]; try lia. destruct a; cbn [fst]; try lia; apply Hmono; exact Hy.
    + intros y c b' Hy Hne. unfold cont. destruct c as [a| | | |]; try apply bud_out_stop; try congruence.
      destruct a; try (apply IH; exact Hy). apply bud_out_stop.
  - (* SRetOk *)
    cbn [exec with_budget x_new]. destruct (x_new x); apply bud_out_stop.
Qed.

(* a generated method whose future is dropped at its b-th Pending *)
Theorem run_method_budget gm self pl w b :
  let rn := run_method gm self pl w None in
  let rb := run_method gm self pl w (Some b) in
  (ro_res rb = RAbandoned /\ gm_async gm = true /\ b <= ro_pend rn) \/ rb = rn.
Proof.
  cbn zeta. unfold run_method.
  set (pl' := match gm_payload gm with Some _ => pl | None => None end).
  destruct (gm_async gm) eqn:Ea.
  - set (x0 := Build_xst self None 0 [] 0 None).
    pose proof (exec_budget true pl' w (gm_body gm) x0 b eq_refl) as H.
    change (Build_xst self None 0 [] 0 (Some b)) with (with_budget x0 (Some b)).
    destruct (exec true pl' w (gm_body gm) x0) as [xn rn].
    destruct (exec true pl' w (gm_body gm) (with_budget x0 (Some b))) as [xb rb].
    unfold bud_out in H. cbn [fst snd x_pend x0] in H.
    destruct H as [[Hr Hge]|[Hr Hx]].
    + left. cbn [ro_res ro_pend]. repeat split; [exact Hr|lia].
    + right. subst rb xb. reflexivity.
  - right. reflexivity.
Qed.

From SM Require Import Dyn.

(* handle() whose future is dropped at its b-th Pending: poisoned, or exactly the completed call *)
Theorem handle_budget g gd d ev pl w b :
  let hn := handle g gd d ev pl w None in
  let hb := handle g gd d ev pl w (Some b) in
  (ho_res hb = HAbandoned /\ ho_dyn hb = Build_dyn None /\ d_inner d <> None) \/ hb = hn.
Proof.
  cbn zeta. unfold handle. destruct (d_inner d) as [tm|] eqn:Ed; [|right; reflexivity].
  destruct (event_variant gd ev) as [[[v l] p]|]; [|right; reflexivity].
  destruct (find_arm gd (tm_state tm) v) as [a|]; [|right; reflexivity].
  destruct (methods_of g (ga_src a) (ga_method a)) as [|gm [|gm2 r]]; try (right; reflexivity).
  destruct (negb (Bool.eqb (ga_aw a) (gm_async gm))); [right; reflexivity|].
  destruct (run_method_budget gm tm (if ga_binds_pl a then pl else None) w b) as [(Hr & _ & _)|He].
  - left. rewrite Hr. cbn. repeat split. discriminate.
  - right. rewrite He. reflexivity.
Qed.
