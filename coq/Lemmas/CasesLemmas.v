(* CasesLemmas.v -- every outcome of a generated method, for every abandonment budget. *)
From Coq Require Import String List Bool Arith Lia.
From SM Require Import Ident Ast Front Gir Codegen Sem.
From SM.Lemmas Require Import SemLemmas RefSem.
Import ListNotations.
Open Scope list_scope.

Lemma invoke_frame am aw must w x k n on p x' c :
  invoke am aw must w x k n on p = (x', c) ->
  x_self x' = x_self x /\ x_new x' = x_new x /\
  (forall cl, In cl (x_tr x') -> In cl (x_tr x) \/ (c_ctx cl = tm_ctx on /\ c_state cl = tm_state on)).
Proof.
  unfold invoke. intros H.
  destruct (negb (Bool.eqb am aw)).
  { inversion H; subst. repeat split. intros cl Hc. left. exact Hc. }
  destruct (x_budget x) as [b|].
  - destruct (b <=? _)%nat.
    + inversion H; subst. cbn. repeat split. intros cl Hc. apply in_app_or in Hc as [Hc|[<-|[]]]; [left; exact Hc|right; split; reflexivity].
    + destruct (an_val (w (x_i x))); inversion H; subst; cbn; repeat split;
        intros cl Hc; apply in_app_or in Hc as [Hc|[<-|[]]]; try (left; exact Hc); right; split; reflexivity.
  - destruct (an_val (w (x_i x))); inversion H; subst; cbn; repeat split;
      intros cl Hc; apply in_app_or in Hc as [Hc|[<-|[]]]; try (left; exact Hc); right; split; reflexivity.
Qed.

Section Seg.
Variable am : bool.
Variable plb : bool.
Variable ev : ident.
Variable pl : option nat.
Variable w : oracle.

Definition res_ok_for (self : tmachine) (r : tres) : Prop :=
  match r with
  | ROk _ => False
  | RErr m' ge => m' = self /\ ge_event ge = ev
  | _ => True
  end.

Lemma run_seg_frame k names : forall x x' r,
  run_seg am plb ev pl w k names x = (x', r) ->
  x_self x' = x_self x /\ x_new x' = x_new x /\
  match r with Some res => res_ok_for (x_self x) res /\ (res = RStuck -> recv k x = None) | None => True end.
Proof.
  induction names as [|n names IH]; intros x x' r H.
  - cbn in H. inversion H; subst. repeat split.
  - cbn [run_seg] in H. destruct (recv k x) as [on|] eqn:Er.
    2:{ inversion H; subst. repeat split. }
    destruct (invoke am am _ w x (hkind_of k) n on (plarg plb pl k)) as [x1 c] eqn:Ei.
    pose proof (invoke_frame _ _ _ _ _ _ _ _ _ _ _ Ei) as (Hs & Hn & _).
    pose proof (invoke_not_skip _ _ _ _ _ _ _ _ _ _ Ei) as [Hsk Hst].
    destruct c as [a| | | |]; try congruence.
    + destruct (stop_of ev k (x_self x) n a) as [res|] eqn:Es.
      * inversion H; subst. repeat split; try assumption.
        -- destruct k, a; cbn in Es; try discriminate;
             repeat match type of Es with context [if ?c then _ else _] => destruct c end;
             try discriminate; inversion Es; subst; cbn; auto.
        -- intros ->. destruct k, a; cbn in Es; try discriminate;
             repeat match type of Es with context [if ?c then _ else _] => destruct c end; discriminate.
      * destruct (IH _ _ _ H) as (Hs2 & Hn2 & Hr2). repeat split; try congruence.
        destruct r as [res|]; [|exact I]. rewrite Hs in Hr2. destruct Hr2 as [Hr2 Hr3]. split; [exact Hr2|].
        intros E. specialize (Hr3 E). unfold recv in *. rewrite Hs, Hn in Hr3. congruence.
    + inversion H; subst. repeat split; try assumption. discriminate.
    + inversion H; subst. repeat split; try assumption. discriminate.
Qed.

End Seg.

(* every result of a generated method: Ok(fresh machine in the target), Err(the input machine),
   a panic, or abandonment -- for every budget; never stuck *)
Theorem run_method_cases m e self pl w b :
  match ro_res (run_method (gen_method m e) self pl w b) with
  | ROk nm => nm = new_machine m e self
  | RErr m' ge => m' = self /\ ge_event ge = g_event e
  | RStuck => False
  | _ => True
  end.
Proof.
  unfold run_method, gen_method. cbn [gm_payload gm_async gm_body].
  set (p' := match g_payload e with Some _ => pl | None => None end).
  set (am := m_async m). set (plb := has_pl e). set (ev := g_event e). set (h := g_hooks e).
  set (x0 := Build_xst self None 0 [] 0 (if am then b else None)).
  assert (Hbody : gen_body m e =
     map (stmt_of am plb ev KAB) (h_around h) ++ (map (stmt_of am plb ev KG) (h_guards h) ++
     (map (stmt_of am plb ev KU) (h_unless h) ++ (map (stmt_of am plb ev KB) (h_before h) ++
     (SConstruct (g_target e) true (slot_inits m (g_target e)) ::
     (map (stmt_of am plb ev KA) (h_after h) ++ (map (stmt_of am plb ev KAA) (h_around h) ++ [SRetOk]))))))).
  { unfold gen_body. reflexivity. }
  rewrite Hbody. clear Hbody.
  (* four segments on self *)
  rewrite exec_seg. destruct (run_seg am plb ev p' w KAB (h_around h) x0) as [x1 r1] eqn:E1.
  destruct (run_seg_frame _ _ _ _ _ _ _ _ _ _ E1) as (S1 & N1 & R1).
  destruct r1 as [res|].
  { cbn [ro_res]. destruct R1 as [R1 R1']. destruct res; cbn in R1; try exact I; try contradiction; try exact R1.
    specialize (R1' eq_refl). discriminate. }
  rewrite exec_seg. destruct (run_seg am plb ev p' w KG (h_guards h) x1) as [x2 r2] eqn:E2.
  destruct (run_seg_frame _ _ _ _ _ _ _ _ _ _ E2) as (S2 & N2 & R2).
  destruct r2 as [res|].
  { cbn [ro_res]. destruct R2 as [R2 R2']. rewrite S1 in R2. destruct res; cbn in R2; try exact I; try contradiction; try exact R2.
    specialize (R2' eq_refl). discriminate. }
  rewrite exec_seg. destruct (run_seg am plb ev p' w KU (h_unless h) x2) as [x3 r3] eqn:E3.
  destruct (run_seg_frame _ _ _ _ _ _ _ _ _ _ E3) as (S3 & N3 & R3).
  destruct r3 as [res|].
  { cbn [ro_res]. destruct R3 as [R3 R3']. rewrite S2, S1 in R3. destruct res; cbn in R3; try exact I; try contradiction; try exact R3.
    specialize (R3' eq_refl). discriminate. }
  rewrite exec_seg. destruct (run_seg am plb ev p' w KB (h_before h) x3) as [x4 r4] eqn:E4.
  destruct (run_seg_frame _ _ _ _ _ _ _ _ _ _ E4) as (S4 & N4 & R4).
  destruct r4 as [res|].
  { cbn [ro_res]. destruct R4 as [R4 R4']. rewrite S3, S2, S1 in R4. destruct res; cbn in R4; try exact I; try contradiction; try exact R4.
    specialize (R4' eq_refl). discriminate. }
  cbn [exec].
  set (nm := Build_tmachine (g_target e) (tm_ctx (x_self x4)) (map (fun fi => (fst fi, init_slot (snd fi))) (slot_inits m (g_target e)))).
  assert (Hnm : nm = new_machine m e self).
  { unfold nm, new_machine. rewrite S4, S3, S2, S1. reflexivity. }
  rewrite exec_seg. destruct (run_seg am plb ev p' w KA (h_after h) (set_new x4 nm)) as [x5 r5] eqn:E5.
  destruct (run_seg_frame _ _ _ _ _ _ _ _ _ _ E5) as (S5 & N5 & R5).
  destruct r5 as [res|].
  { cbn [ro_res]. destruct R5 as [R5 R5']. cbn [set_new x_self] in R5. rewrite S4, S3, S2, S1 in R5.
    destruct res; cbn in R5; try exact I; try contradiction; try exact R5.
    specialize (R5' eq_refl). discriminate. }
  rewrite exec_seg. destruct (run_seg am plb ev p' w KAA (h_around h) x5) as [x6 r6] eqn:E6.
  destruct (run_seg_frame _ _ _ _ _ _ _ _ _ _ E6) as (S6 & N6 & R6).
  destruct r6 as [res|].
  { cbn [ro_res]. destruct R6 as [R6 R6']. rewrite S5 in R6. cbn [set_new x_self] in R6. rewrite S4, S3, S2, S1 in R6.
    destruct res; cbn in R6; try exact I; try contradiction; try exact R6.
    specialize (R6' eq_refl). unfold recv in R6'. cbn in R6'. rewrite N5 in R6'. discriminate. }
  cbn [exec]. rewrite N6, N5. cbn [set_new x_new ro_res]. exact Hnm.
Qed.
