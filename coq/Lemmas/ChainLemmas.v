(* ChainLemmas.v -- the ancestor chain of a leaf lists exactly the superstates that contain it. *)
From Coq Require Import String List Bool Arith Lia.
From SM Require Import Ident Ast Front Spec.
From SM.Lemmas Require Import FrontLemmas.
Import ListNotations.
Open Scope string_scope.
Open Scope list_scope.

Lemma leaf_chain_exists : forall items l, In l (leaves_of items) -> exists c, chain_of l items = Some c.
Proof.
  assert (Hi : forall it, (fun it => forall l, In l (leaves_of_item it) -> exists c, chain_item l it = Some c) it).
  { induction it as [n d|n d body IHb|n|k] using sitem_ind2; intros l H; try (cbn in H; contradiction).
    - cbn in H. destruct H as [<-|[]]. cbn. rewrite String.eqb_refl. eexists. reflexivity.
    - rewrite chain_item_super. cbn [leaves_of_item] in H.
      assert (G : exists c, chain_of l body = Some c).
      { induction IHb as [|x r Hx Hr IH]; [contradiction|].
        cbn [flat_map] in H. cbn [chain_of]. apply in_app_or in H as [H|H].
        - destruct (Hx _ H) as [c Hc]. rewrite Hc. eexists. reflexivity.
        - destruct (chain_item l x); [eexists; reflexivity|apply IH; exact H]. }
      destruct G as [c Hc]. rewrite Hc. eexists. reflexivity. }
  induction items as [|x r IH]; intros l H; [contradiction|].
  unfold leaves_of in H. cbn [flat_map] in H. cbn [chain_of]. apply in_app_or in H as [H|H].
  - destruct (Hi _ _ H) as [c Hc]. rewrite Hc. eexists. reflexivity.
  - destruct (chain_item l x); [eexists; reflexivity|apply IH; exact H].
Qed.

Lemma find_super_leaves_sub : forall items g b, find_super g items = Some b -> incl (leaves_of b) (leaves_of items).
Proof.
  assert (Hi : forall it, (fun it => forall g b, find_super_item g it = Some b -> incl (leaves_of b) (leaves_of_item it)) it).
  { induction it as [n d|n d body IHb|n|k] using sitem_ind2; intros g b H; try discriminate.
    rewrite find_super_item_super in H. cbn [leaves_of_item].
    destruct (String.eqb g n); [inversion H; subst; apply incl_refl|].
    induction IHb as [|x r Hx Hr IH]; [discriminate|].
    cbn [find_super] in H. cbn [flat_map].
    destruct (find_super_item g x) eqn:Ex.
    - inversion H; subst. apply incl_appl. eapply Hx. exact Ex.
    - apply incl_appr. apply IH. exact H. }
  induction items as [|x r IH]; intros g b H; [discriminate|].
  cbn [find_super] in H. unfold leaves_of at 2. cbn [flat_map].
  destruct (find_super_item g x) eqn:Ex.
  - inversion H; subst. apply incl_appl. eapply Hi. exact Ex.
  - apply incl_appr. eapply IH. exact H.
Qed.

Definition contains_spec (items : list sitem) (l p : ident) : Prop :=
  exists b, find_super p items = Some b /\ In l (leaves_of b).
Definition chain_spec (items : list sitem) (l p : ident) : Prop :=
  exists c, chain_of l items = Some c /\ In p c.

Lemma chain_contains_list items :
  Forall (fun it => NoDup (names_of_item it) ->
                    forall l p, (exists c, chain_item l it = Some c /\ In p c)
                                <-> (exists b, find_super_item p it = Some b /\ In l (leaves_of b))) items ->
  NoDup (names_of items) ->
  forall l p, chain_spec items l p <-> contains_spec items l p.
Proof.
  unfold chain_spec, contains_spec.
  induction 1 as [|x r Hx Hr IH]; intros ND l p.
  - cbn. split; intros (? & H & _); discriminate.
  - unfold names_of in ND. cbn [flat_map] in ND. apply NoDup_app_elim in ND as (N1 & N2 & Dj).
    cbn [chain_of find_super]. split.
    + intros (c & Hc & Hp). destruct (chain_item l x) as [cx|] eqn:Ex.
      * inversion Hc; subst cx. destruct (proj1 (Hx N1 l p)) as (b & Hb & Hl); [eexists; split; [exact Ex|exact Hp]|].
        rewrite Hb. eexists. split; [reflexivity|exact Hl].
      * destruct (proj1 (IH N2 l p)) as (b & Hb & Hl); [eexists; split; [exact Hc|exact Hp]|].
        destruct (find_super_item p x) as [bx|] eqn:Efx.
        -- exfalso. apply (Dj p); [eapply find_super_item_names; exact Efx|eapply find_super_names; exact Hb].
        -- eexists. split; [exact Hb|exact Hl].
    + intros (b & Hb & Hl). destruct (find_super_item p x) as [bx|] eqn:Efx.
      * inversion Hb; subst bx. destruct (proj2 (Hx N1 l p)) as (c & Hc & Hp); [eexists; split; [exact Efx|exact Hl]|].
        rewrite Hc. eexists. split; [reflexivity|exact Hp].
      * destruct (proj2 (IH N2 l p)) as (c & Hc & Hp); [eexists; split; [exact Hb|exact Hl]|].
        destruct (chain_item l x) as [cx|] eqn:Ex.
        -- exfalso. apply (Dj l).
           ++ rewrite <- chain_of_single in Ex. apply chain_of_leaf in Ex.
              apply leaves_item_in_names. unfold leaves_of in Ex. cbn in Ex. rewrite app_nil_r in Ex. exact Ex.
           ++ apply (leaves_in_names r). eapply find_super_leaves_sub; [exact Hb|exact Hl].
        -- eexists. split; [exact Hc|exact Hp].
Qed.

Lemma chain_contains_item : forall it,
  NoDup (names_of_item it) ->
  forall l p, (exists c, chain_item l it = Some c /\ In p c)
              <-> (exists b, find_super_item p it = Some b /\ In l (leaves_of b)).
Proof.
  induction it as [n d|n d body IHb|n|k] using sitem_ind2; intros ND l p;
    try (cbn; split; intros (? & H & _); discriminate).
  - cbn. split.
    + intros (c & Hc & Hp). destruct (String.eqb l n); [inversion Hc; subst; contradiction|discriminate].
    + intros (? & H & _). discriminate.
  - cbn [names_of_item] in ND. inversion ND as [|? ? Hn ND']; subst.
    pose proof (chain_contains_list body IHb ND' l p) as IHl. unfold chain_spec, contains_spec in IHl.
    rewrite chain_item_super, find_super_item_super. split.
    + intros (c & Hc & Hp). destruct (chain_of l body) as [c'|] eqn:Ec; [|discriminate].
      inversion Hc; subst c. destruct Hp as [<-|Hp].
      * rewrite String.eqb_refl. eexists. split; [reflexivity|]. eapply chain_of_leaf. exact Ec.
      * destruct (proj1 IHl) as (b & Hb & Hl); [eexists; split; [reflexivity|exact Hp]|].
        destruct (String.eqb p n) eqn:Epn.
        -- apply String.eqb_eq in Epn. subst p. exfalso. apply Hn. eapply find_super_names. exact Hb.
        -- eexists. split; [exact Hb|exact Hl].
    + intros (b & Hb & Hl). destruct (String.eqb p n) eqn:Epn.
      * apply String.eqb_eq in Epn. subst p. inversion Hb; subst b.
        destruct (leaf_chain_exists _ _ Hl) as [c Hc]. rewrite Hc. eexists. split; [reflexivity|left; reflexivity].
      * destruct (proj2 IHl) as (c & Hc & Hp); [eexists; split; [exact Hb|exact Hl]|].
        rewrite Hc. eexists. split; [reflexivity|right; exact Hp].
Qed.

(* SubstateOf: p is in the chain of l  <->  the block of superstate p has l among its leaves *)
Theorem chain_contains items :
  NoDup (names_of items) -> forall l p, chain_spec items l p <-> contains_spec items l p.
Proof.
  intros ND. apply chain_contains_list; [|exact ND].
  apply Forall_forall. intros it _. apply chain_contains_item.
Qed.
