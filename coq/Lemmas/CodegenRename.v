(* CodegenRename.v -- the code generator is natural in identifiers: the generated program of the
   renamed machine IR is the generated program of the original one, relabelled namespace by namespace.
   The names the generator derives (snake_case methods and accessors, PascalCase variants, data fields)
   are re-derived from the new names; the relabelling of those namespaces is whatever function sends each
   old derived name to the new one ([compat]).  Such a function exists exactly when the derivations do not
   identify two names that the renaming keeps apart or vice versa (the collision class of C14). *)
From Coq Require Import String Ascii List Bool Arith Lia.
From SM Require Import Ident Ast Front Gir Codegen Sem Dyn.
From SM.Lemmas Require Import GirLemmas RenameLemmas FrontRename.
Import ListNotations.
Open Scope string_scope.
Open Scope list_scope.

Section CodegenRename.
Variable f : ident -> ident.
Variables mth var fld acc : ident -> ident.
Hypothesis f_inj : injective f.

(* user-level names are relabelled by f itself; derived names by the four given functions *)
Definition R : roles := Build_roles f f f var mth fld acc.

Variable m : machine.

Definition compat : Prop :=
  (forall ev, In ev (m_events m) ->
     mth (to_snake_case (e_name ev)) = to_snake_case (f (e_name ev)) /\
     var (to_pascal_case (e_name ev)) = to_pascal_case (f (e_name ev))) /\
  (forall s e, In (s, e) (m_graph m) -> mth (to_snake_case (g_event e)) = to_snake_case (f (g_event e))) /\
  (forall sp, In sp (m_storage m) ->
     fld (ss_field sp) = storage_field (f (ss_state sp)) /\
     acc (strip_uu (ss_field sp)) = strip_uu (storage_field (f (ss_state sp))) /\
     acc (strip_uu (ss_field sp) +++ "_mut") = strip_uu (storage_field (f (ss_state sp))) +++ "_mut" /\
     acc (to_snake_case (ss_state sp) +++ "_data") = to_snake_case (f (ss_state sp)) +++ "_data" /\
     acc (to_snake_case (ss_state sp) +++ "_data_mut") = to_snake_case (f (ss_state sp)) +++ "_data_mut" /\
     acc ("set_" +++ to_snake_case (ss_state sp) +++ "_data") = "set_" +++ to_snake_case (f (ss_state sp)) +++ "_data") /\
  (forall s, In s (m_states m) -> acc ("into_" +++ to_snake_case s) = "into_" +++ to_snake_case (f s)).

Hypothesis C : compat.

Let m' := rn_machine f m.

Lemma map_ext_in' {A B} (g h : A -> B) (l : list A) : (forall x, In x l -> g x = h x) -> map g l = map h l.
Proof. intros H. apply map_ext_in. exact H. Qed.

Lemma flat_map_ext_in {A B} (g h : A -> list B) (l : list A) :
  (forall x, In x l -> g x = h x) -> flat_map g l = flat_map h l.
Proof.
  induction l as [|x l IH]; intros H; [reflexivity|]. cbn [flat_map].
  rewrite (H x (or_introl eq_refl)), IH; [reflexivity|]. intros y Hy. apply H. right. exact Hy.
Qed.

Lemma outgoing_rn g s : outgoing (map (rn_ke f) g) (f s) = map (rn_edge f) (outgoing g s).
Proof.
  unfold outgoing. rewrite (filter_map_rn (rn_ke f) (fun p => String.eqb (fst p) s)).
  - rewrite !map_map. reflexivity.
  - intros [a e]. cbn [rn_ke fst]. apply (eqb_inj f f_inj).
Qed.

Lemma slot_inits_rn tgt : slot_inits m' (f tgt) = rn_pairs R (slot_inits m tgt).
Proof.
  unfold slot_inits, rn_pairs. cbn [m' rn_machine m_storage]. rewrite !map_map.
  apply map_ext_in'. intros sp Hsp. cbn [rn_spec ss_field ss_state fst snd R r_fld].
  destruct C as (_ & _ & Cs & _). destruct (Cs sp Hsp) as (-> & _).
  rewrite (eqb_inj f f_inj). reflexivity.
Qed.

Lemma gen_body_rn e : gen_body m' (rn_edge f e) = map (rn_stmt R) (gen_body m e).
Proof.
  unfold gen_body. cbn [rn_edge g_hooks g_event g_target rn_hooks h_around h_guards h_unless h_before h_after].
  change (m_async m') with (m_async m). change (has_pl (rn_edge f e)) with (has_pl e).
  rewrite !map_app, !map_map. cbn [map rn_stmt R r_hk r_ev r_st]. rewrite slot_inits_rn. reflexivity.
Qed.

Lemma gen_method_rn s e : In (s, e) (m_graph m) -> gen_method m' (rn_edge f e) = rn_method R (gen_method m e).
Proof.
  intros He. unfold gen_method, rn_method. cbn [gm_name gm_async gm_payload gm_target gm_body].
  rewrite gen_body_rn. cbn [rn_edge g_event g_payload g_target R r_mth r_st].
  destruct C as (_ & Cg & _). rewrite (Cg s e He). reflexivity.
Qed.

Lemma gen_impl_rn s : gen_impl m' (f s) = rn_impl R (gen_impl m s).
Proof.
  unfold gen_impl, rn_impl. cbn [gi_state gi_new gi_methods R r_st].
  change (m_initial m') with (f (m_initial m)). rewrite (eqb_inj f f_inj).
  change (m_graph m') with (map (rn_ke f) (m_graph m)). rewrite outgoing_rn, !map_map.
  f_equal.
  - destruct (String.eqb s (m_initial m)); cbn [option_map]; [rewrite slot_inits_rn|]; reflexivity.
  - apply map_ext_in'. intros e He. apply (gen_method_rn s). apply in_outgoing. exact He.
Qed.

Lemma gen_super_method_rn s e :
  In (s, e) (m_graph m) -> gen_super_method m' (rn_edge f e) = rn_method R (gen_super_method m e).
Proof.
  intros He. unfold gen_super_method, rn_method. cbn [gm_name gm_async gm_payload gm_target gm_body map rn_stmt].
  cbn [rn_edge g_event g_target R r_mth r_st]. rewrite slot_inits_rn.
  destruct C as (_ & Cg & _). rewrite (Cg s e He). reflexivity.
Qed.

Lemma gen_superimpls_rn : gen_superimpls m' = map (rn_super R) (gen_superimpls m).
Proof.
  unfold gen_superimpls. change (m_hier m') with (rn_hier f (m_hier m)).
  rewrite (all_superstates_rn f f_inj), flat_map_map, map_flat_map. apply flat_map_ext_in. intros g _.
  change (m_graph m') with (map (rn_ke f) (m_graph m)). rewrite outgoing_rn.
  destruct (outgoing (m_graph m) g) as [|e es] eqn:Eo; [reflexivity|].
  assert (Hm : map (gen_super_method m') (map (rn_edge f) (e :: es))
               = map (rn_method R) (map (gen_super_method m) (e :: es))).
  { rewrite !map_map. apply map_ext_in'. intros e' He'. apply (gen_super_method_rn g).
    apply in_outgoing. rewrite Eo. exact He'. }
  cbn [map] in Hm |- *. unfold rn_super. cbn [gs_super gs_methods R r_st]. rewrite Hm. reflexivity.
Qed.

Lemma gen_substate_rn :
  gen_substate m' = map (fun v => (f (fst v), f (snd v))) (gen_substate m).
Proof.
  unfold gen_substate. change (m_states m') with (map f (m_states m)). change (m_hier m') with (rn_hier f (m_hier m)).
  rewrite flat_map_map, map_flat_map. apply flat_map_ext_in. intros leaf _.
  cbn [rn_hier h_anc]. unfold rn_kl. rewrite (assoc_gen f f_inj (map f)).
  destruct (assoc leaf (h_anc (m_hier m))) as [ancs|]; cbn [option_map]; [|reflexivity].
  rewrite !map_map. reflexivity.
Qed.

Lemma gen_arms_rn : gen_arms m' = map (rn_arm R) (gen_arms m).
Proof.
  unfold gen_arms. change (m_events m') with (map (rn_event f) (m_events m)).
  rewrite flat_map_map, map_flat_map. apply flat_map_ext_in. intros ev Hev.
  change (m_states m') with (map f (m_states m)).
  rewrite flat_map_map, map_flat_map. apply flat_map_ext_in. intros s _.
  change (m_graph m') with (map (rn_ke f) (m_graph m)). rewrite outgoing_rn.
  rewrite flat_map_map, map_flat_map. apply flat_map_ext_in. intros e _.
  cbn [rn_edge g_event g_target rn_event e_name e_payload]. rewrite (eqb_inj f f_inj).
  destruct (String.eqb (g_event e) (e_name ev)); [|reflexivity].
  unfold rn_arm. cbn [map ga_src ga_event ga_variant ga_binds_pl ga_method ga_aw ga_ok ga_restore R r_st r_ev r_var r_mth].
  destruct C as (Ce & _). destruct (Ce ev Hev) as (-> & ->). reflexivity.
Qed.

Lemma gen_accs_rn : gen_accs m' = map (rn_acc R) (gen_accs m).
Proof.
  unfold gen_accs. change (m_storage m') with (map (rn_spec f) (m_storage m)).
  rewrite flat_map_map, map_flat_map. apply flat_map_ext_in. intros sp Hsp.
  change (m_hier m') with (rn_hier f (m_hier m)). change (m_states m') with (map f (m_states m)).
  cbn [rn_spec ss_state ss_field]. rewrite (expand_state_rn f f_inj).
  destruct (expand_state (m_hier m) (m_states m) (ss_state sp)) as [|x xs]; [reflexivity|].
  unfold rn_acc. cbn [map gc_state gc_field gc_read gc_write gc_set gc_variants R r_st r_fld r_acc].
  destruct C as (_ & _ & Cs & _). destruct (Cs sp Hsp) as (-> & _ & _ & -> & -> & ->). reflexivity.
Qed.

Lemma gen_dyn_rn : gen_dyn m' = rn_gdyn R (gen_dyn m).
Proof.
  unfold gen_dyn, rn_gdyn. cbn [gd_events gd_states gd_initial gd_arms gd_accs gd_into R r_st r_ev r_var r_acc].
  rewrite gen_arms_rn, gen_accs_rn.
  change (m_events m') with (map (rn_event f) (m_events m)). change (m_states m') with (map f (m_states m)).
  change (m_initial m') with (f (m_initial m)). rewrite !map_map. f_equal.
  - apply map_ext_in'. intros ev Hev. cbn [rn_event e_name e_payload fst snd].
    destruct C as (Ce & _). destruct (Ce ev Hev) as (_ & ->). reflexivity.
  - apply map_ext_in'. intros s Hs. cbn [fst snd]. destruct C as (_ & _ & _ & Ci). rewrite (Ci s Hs). reflexivity.
Qed.

Theorem codegen_rn feat : codegen m' feat = rn_gir R (codegen m feat).
Proof.
  unfold codegen, rn_gir.
  cbn [gr_name gr_ctx gr_markers gr_fields gr_impls gr_storage_accs gr_state_accs gr_substate gr_superimpls gr_dyn
       R r_st r_fld r_acc].
  rewrite gen_superimpls_rn, gen_substate_rn, gen_dyn_rn.
  change (m_name m') with (f (m_name m)). change (m_context m') with (m_context m).
  change (m_states m') with (map f (m_states m)). change (m_hier m') with (rn_hier f (m_hier m)).
  change (m_storage m') with (map (rn_spec f) (m_storage m)). change (m_dynamic m') with (m_dynamic m).
  rewrite (all_superstates_rn f f_inj), <- map_app.
  f_equal.
  - unfold rn_pairs. rewrite !map_map. apply map_ext_in'. intros sp Hsp. cbn [rn_spec ss_field ss_ty fst snd R r_fld].
    destruct C as (_ & _ & Cs & _). destruct (Cs sp Hsp) as (-> & _). reflexivity.
  - rewrite !map_map. apply map_ext. intros s. apply gen_impl_rn.
  - rewrite flat_map_map, map_flat_map. apply flat_map_ext_in. intros sp Hsp.
    cbn [rn_spec ss_field map fst snd]. destruct C as (_ & _ & Cs & _).
    destruct (Cs sp Hsp) as (-> & -> & -> & _). reflexivity.
  - rewrite !map_map. apply map_ext_in'. intros sp Hsp. cbn [rn_spec ss_field ss_state fst snd].
    destruct C as (_ & _ & Cs & _). destruct (Cs sp Hsp) as (-> & _ & _ & -> & _). reflexivity.
  - destruct (m_dynamic m || feat); reflexivity.
Qed.

End CodegenRename.

(* ---------- finite permutations: relabellings that satisfy the hypotheses ---------- *)

Fixpoint swaps (l : list (ident * ident)) (x : ident) : ident :=
  match l with
  | [] => x
  | (a, b) :: r => if String.eqb x a then b else if String.eqb x b then a else swaps r x
  end.

Definition names_of_swaps (l : list (ident * ident)) : list ident := flat_map (fun p => [fst p; snd p]) l.

Lemma swaps_range l x : swaps l x = x \/ In (swaps l x) (names_of_swaps l).
Proof.
  induction l as [|[a b] r IH]; [left; reflexivity|]. cbn [swaps names_of_swaps flat_map fst snd app].
  destruct (String.eqb x a); [right; right; left; reflexivity|].
  destruct (String.eqb x b); [right; left; reflexivity|].
  destruct IH as [E|I]; [left; exact E|right; right; right; exact I].
Qed.

Lemma swaps_involutive l : NoDup (names_of_swaps l) -> forall x, swaps l (swaps l x) = x.
Proof.
  induction l as [|[a b] r IH]; intros Hn x; [reflexivity|].
  cbn [names_of_swaps flat_map fst snd app] in Hn. inversion Hn as [|? ? Ha Hn1]; subst.
  inversion Hn1 as [|? ? Hb Hn2]; subst.
  assert (Hab : a <> b) by (intros ->; apply Ha; left; reflexivity).
  cbn [swaps].
  destruct (String.eqb_spec x a) as [->|Nxa].
  - destruct (String.eqb_spec b a) as [E|_]; [elim Hab; symmetry; exact E|]. rewrite String.eqb_refl. reflexivity.
  - destruct (String.eqb_spec x b) as [->|Nxb].
    + rewrite String.eqb_refl. reflexivity.
    + destruct (swaps_range r x) as [E|I].
      * rewrite E. apply String.eqb_neq in Nxa, Nxb. rewrite Nxa, Nxb. exact E.
      * destruct (String.eqb_spec (swaps r x) a) as [E|_]; [elim Ha; right; rewrite <- E; exact I|].
        destruct (String.eqb_spec (swaps r x) b) as [E|_]; [elim Hb; rewrite <- E; exact I|].
        apply IH. exact Hn2.
Qed.

Lemma swaps_injective l : NoDup (names_of_swaps l) -> injective (swaps l).
Proof. intros Hn a b H. rewrite <- (swaps_involutive l Hn a), H. apply swaps_involutive. exact Hn. Qed.

Lemma swaps_snake l :
  Forall (fun p => is_snake_case (fst p) = is_snake_case (snd p)) l ->
  forall x, is_snake_case (swaps l x) = is_snake_case x.
Proof.
  induction 1 as [|[a b] r Hab _ IH]; intros x; [reflexivity|]. cbn [swaps]. cbn [fst snd] in Hab.
  destruct (String.eqb_spec x a) as [->|_]; [symmetry; exact Hab|].
  destruct (String.eqb_spec x b) as [->|_]; [exact Hab|apply IH].
Qed.

Lemma swaps_fix l x : ~ In x (names_of_swaps l) -> swaps l x = x.
Proof.
  induction l as [|[a b] r IH]; intros Hn; [reflexivity|]. cbn [swaps].
  cbn [names_of_swaps flat_map fst snd app] in Hn.
  destruct (String.eqb_spec x a) as [->|_]; [elim Hn; left; reflexivity|].
  destruct (String.eqb_spec x b) as [->|_]; [elim Hn; right; left; reflexivity|].
  apply IH. intros H. apply Hn. right. right. exact H.
Qed.
