(* CtxLemmas.v -- the context and the payload are moved, never duplicated or lost (C16). *)
From Coq Require Import String List Bool Arith Lia.
From SM Require Import Ident Ast Front Spec Gir Codegen Sem Dyn Script.
From SM.Lemmas Require Import GirLemmas SemLemmas RefSem SemProps CasesLemmas.
Import ListNotations.
Open Scope string_scope.
Open Scope list_scope.

(* every hook invocation of a run, whatever its outcome, is handed the machine's own context, and
   the caller's payload or none *)
Lemma ref_run_ctx am plb ev pl w self newm hs i :
  tm_ctx newm = tm_ctx self ->
  Forall (fun c => c_ctx c = tm_ctx self /\ (c_pl c = None \/ c_pl c = pl))
         (fst (fst (ref_run am plb ev pl w self newm hs i))).
Proof.
  intros Hc. revert i. induction hs as [|[k n] hs IH]; intros i; cbn [ref_run]; [constructor|].
  assert (Hcall : forall dn, c_ctx (call_at am plb pl w self newm k i n dn) = tm_ctx self /\
                             (c_pl (call_at am plb pl w self newm k i n dn) = None \/
                              c_pl (call_at am plb pl w self newm k i n dn) = pl)).
  { intros dn. cbn. unfold recv_of, plarg. split; [destruct (on_new k); congruence|].
    destruct (takes_pl k && plb); [right|left]; reflexivity. }
  destruct (an_val (w i)); cbn [fst]; try (constructor; [apply Hcall|constructor]);
    (destruct (stop_of ev k self n _); cbn [fst]; [constructor; [apply Hcall|constructor]|];
     specialize (IH (S i)); destruct (ref_run am plb ev pl w self newm hs (S i)) as [[tr p] r];
     cbn [fst] in *; constructor; [apply Hcall|exact IH]).
Qed.

Theorem hooks_see_own_context m e self pl w :
  Forall (fun c => c_ctx c = tm_ctx self /\ (c_pl c = None \/ c_pl c = eff_pl e pl))
         (ro_trace (run_method (gen_method m e) self pl w None)).
Proof.
  rewrite run_method_ref.
  pose proof (ref_run_ctx (m_async m) (has_pl e) (g_event e) (eff_pl e pl) w self (new_machine m e self)
                          (hooks_of (g_hooks e)) 0 eq_refl) as H.
  destruct (ref_run _ _ _ _ _ _ _ _ _) as [[tr p] r]. exact H.
Qed.

(* the machine that comes back (Ok or Err) carries the context that went in -- any budget *)
Theorem result_carries_context m e self pl w b :
  match ro_res (run_method (gen_method m e) self pl w b) with
  | ROk nm => tm_ctx nm = tm_ctx self
  | RErr old _ => tm_ctx old = tm_ctx self
  | _ => True
  end.
Proof.
  pose proof (run_method_cases m e self pl w b) as C.
  destruct (ro_res (run_method (gen_method m e) self pl w b)); try exact I.
  - subst m0. reflexivity.
  - destruct C as [-> _]. reflexivity.
Qed.

(* histories: no operation other than the constructors brings a context into being, and a context
   leaves the holder only by being reported dropped *)
Definition is_ctor (o : op) : bool :=
  match o with ONew _ _ | ODynNew _ | ODynDefault => true | _ => false end.

Section H.
Variable m : machine.
Variable feat : bool.
Let g := codegen m feat.

Lemma handle_ctx gd dd e pl w b :
  holder_ctx (HD (ho_dyn (handle g gd dd e pl w b))) = holder_ctx (HD dd) \/
  holder_ctx (HD (ho_dyn (handle g gd dd e pl w b))) = [].
Proof.
  unfold handle. destruct (d_inner dd) as [tm|] eqn:Ed; [|left; reflexivity].
  destruct (event_variant gd e) as [[[vv l] pp]|]; [|left; reflexivity].
  destruct (find_arm gd (tm_state tm) vv) as [a|]; [|left; reflexivity].
  destruct (methods_of g (ga_src a) (ga_method a)) as [|gm [|gm2 rr]] eqn:Em; try (left; reflexivity).
  destruct (negb (Bool.eqb (ga_aw a) (gm_async gm))); [left; reflexivity|].
  assert (Hgm : In gm (methods_of g (ga_src a) (ga_method a))) by (rewrite Em; left; reflexivity).
  apply methods_of_in in Hgm as (ed & -> & _ & _).
  pose proof (result_carries_context m ed tm (if ga_binds_pl a then pl else None) w b) as C.
  destruct (ro_res (run_method (gen_method m ed) tm _ w b)); cbn [ho_dyn];
    try (right; reflexivity); try (left; reflexivity);
    (destruct (String.eqb _ _); cbn [ho_dyn]; left; cbn; rewrite ?Ed; congruence).
Qed.

Theorem context_conserved h o :
  is_ctor o = false ->
  let ob := step g h o in
  (holder_ctx (o_holder ob) = holder_ctx h /\ o_cdrops ob = []) \/
  (holder_ctx (o_holder ob) = [] /\ o_cdrops ob = holder_ctx h).
Proof.
  intros Hc. unfold step. destruct (step_core g h o) as [[[r tr] p] h'] eqn:E. cbn [o_holder o_cdrops].
  assert (Keep : holder_ctx h' = holder_ctx h ->
                 (holder_ctx h' = holder_ctx h /\
                  filter (fun c => negb (nat_mem c (holder_ctx h'))) (holder_ctx h) = []) \/
                 (holder_ctx h' = [] /\ filter (fun c => negb (nat_mem c (holder_ctx h'))) (holder_ctx h) = holder_ctx h)).
  { intros Ek. left. split; [exact Ek|]. rewrite Ek.
    destruct h as [|tm|[[tm|]]]; cbn; try reflexivity; rewrite Nat.eqb_refl; reflexivity. }
  assert (Gone : holder_ctx h' = [] ->
                 (holder_ctx h' = holder_ctx h /\
                  filter (fun c => negb (nat_mem c (holder_ctx h'))) (holder_ctx h) = []) \/
                 (holder_ctx h' = [] /\ filter (fun c => negb (nat_mem c (holder_ctx h'))) (holder_ctx h) = holder_ctx h)).
  { intros Eg. right. split; [exact Eg|]. rewrite Eg.
    destruct h as [|tm|[[tm|]]]; reflexivity. }
  destruct o as [s c|c| |e pl orc b|e pl orc b|x v|x v|x v|s| | |e pl]; try discriminate; cbn [step_core] in E.
  - destruct h as [|tm|dd]; try (inversion E; subst; apply Keep; reflexivity).
    destruct (methods_of g (tm_state tm) (to_snake_case e)) as [|gm [|gm2 rr]] eqn:Em;
      try (inversion E; subst; apply Keep; reflexivity).
    assert (Hgm : In gm (methods_of g (tm_state tm) (to_snake_case e))) by (rewrite Em; left; reflexivity).
    apply methods_of_in in Hgm as (ed & -> & _ & _).
    pose proof (result_carries_context m ed tm pl (oracle_of orc) b) as C.
    inversion E; subst; clear E.
    destruct (ro_res (run_method (gen_method m ed) tm pl (oracle_of orc) b));
      try (apply Gone; reflexivity); apply Keep; cbn; congruence.
  - destruct h as [|tm|dd]; try (inversion E; subst; apply Keep; reflexivity).
    destruct (gr_dyn g) as [gd|]; [|inversion E; subst; apply Keep; reflexivity].
    inversion E; subst; clear E.
    destruct (handle_ctx gd dd e pl (oracle_of orc) b) as [Hk|Hg]; [apply Keep; exact Hk|apply Gone; exact Hg].
  - destruct h as [|tm|dd]; try (inversion E; subst; apply Keep; reflexivity).
    destruct (gr_dyn g) as [gd|]; [|inversion E; subst; apply Keep; reflexivity].
    destruct (find_acc gd x) as [a|]; [|inversion E; subst; apply Keep; reflexivity].
    unfold acc_set in E. destruct (d_inner dd) as [tm|] eqn:Ed.
    + destruct (mem (tm_state tm) (gc_variants a)); inversion E; subst; apply Keep; cbn; rewrite ?Ed; reflexivity.
    + inversion E; subst. apply Keep. reflexivity.
  - destruct h as [|tm|dd].
    + inversion E; subst. apply Keep. reflexivity.
    + destruct (spec_field g x); [destruct (slot_get i (tm_slots tm))|]; inversion E; subst; apply Keep; reflexivity.
    + destruct (gr_dyn g) as [gd|]; [|inversion E; subst; apply Keep; reflexivity].
      destruct (find_acc gd x) as [a|]; [|inversion E; subst; apply Keep; reflexivity].
      unfold acc_write in E. destruct (d_inner dd) as [tm|] eqn:Ed.
      * destruct (mem (tm_state tm) (gc_variants a)); [|inversion E; subst; apply Keep; reflexivity].
        destruct (slot_get (gc_field a) (tm_slots tm)); inversion E; subst; apply Keep; cbn; rewrite ?Ed; reflexivity.
      * inversion E; subst. apply Keep. reflexivity.
  - destruct h as [|tm|dd]; try (inversion E; subst; apply Keep; reflexivity).
    destruct (String.eqb (tm_state tm) x); [|inversion E; subst; apply Keep; reflexivity].
    destruct (spec_field g x); [destruct (slot_get i (tm_slots tm))|]; inversion E; subst; apply Keep; reflexivity.
  - destruct h as [|tm|dd]; try (inversion E; subst; apply Keep; reflexivity).
    destruct (gr_dyn g) as [gd|]; [|inversion E; subst; apply Keep; reflexivity].
    destruct (existsb _ _); [|inversion E; subst; apply Keep; reflexivity].
    unfold into_state in E. destruct (d_inner dd) as [tm|] eqn:Ed.
    + destruct (String.eqb (tm_state tm) s); inversion E; subst; apply Keep; cbn; rewrite ?Ed; reflexivity.
    + inversion E; subst. apply Keep. reflexivity.
  - destruct h as [|tm|dd]; try (inversion E; subst; apply Keep; reflexivity).
    destruct (gr_dyn g); inversion E; subst; apply Keep; reflexivity.
  - inversion E; subst. apply Gone. reflexivity.
  - destruct h as [|tm|dd]; try (inversion E; subst; apply Keep; reflexivity).
    + destruct (methods_of g (tm_state tm) (to_snake_case e)) as [|gm [|gm2 rr]]; try (inversion E; subst; apply Keep; reflexivity).
      destruct (gm_async gm); inversion E; subst; [apply Gone|apply Keep]; reflexivity.
    + destruct (gr_dyn g); [destruct (gir_async g)|]; inversion E; subst; apply Keep; reflexivity.
Qed.

End H.

Theorem conversion_keeps_ctx (m : machine) (feat : bool) (h : holder) (o : op) :
  (exists s, o = OInto s) \/ o = OIntoDyn ->
  holder_ctx (o_holder (step (codegen m feat) h o)) = holder_ctx h /\ o_cdrops (step (codegen m feat) h o) = [].
Proof.
  intros Ho.
  assert (K : forall h', holder_ctx h' = holder_ctx h ->
              holder_ctx h' = holder_ctx h /\ filter (fun c => negb (nat_mem c (holder_ctx h'))) (holder_ctx h) = []).
  { intros h' Ek. split; [exact Ek|]. rewrite Ek.
    destruct h as [|tm|[[tm|]]]; cbn; try reflexivity; rewrite Nat.eqb_refl; reflexivity. }
  unfold step. destruct (step_core (codegen m feat) h o) as [[[r tr] p] h'] eqn:E. cbn [o_holder o_cdrops].
  apply K. destruct Ho as [[s ->]| ->]; cbn [step_core] in E.
  - destruct h as [|tm|dd]; try (inversion E; subst; reflexivity).
    destruct (gr_dyn (codegen m feat)); [|inversion E; subst; reflexivity].
    destruct (existsb _ _); [|inversion E; subst; reflexivity].
    unfold into_state in E. destruct (d_inner dd) as [tm|] eqn:Ed.
    + destruct (String.eqb (tm_state tm) s); inversion E; subst; cbn; rewrite ?Ed; reflexivity.
    + inversion E; subst. reflexivity.
  - destruct h as [|tm|dd]; try (inversion E; subst; reflexivity).
    destruct (gr_dyn (codegen m feat)); inversion E; subst; reflexivity.
Qed.
