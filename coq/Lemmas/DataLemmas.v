(* DataLemmas.v -- the state-data invariant (C08), accessors (C11), conversions (C10), context (C16)
   over every history of operations on an accepted machine. *)
From Coq Require Import String List Bool Arith Lia.
From SM Require Import Ident Ast Front Spec Gir Codegen Sem Dyn Script.
From SM.Lemmas Require Import FrontLemmas FrontTop GirLemmas SemLemmas RefSem CasesLemmas.
Import ListNotations.
Open Scope string_scope.
Open Scope list_scope.

Section Dt.
Variable m : machine.
Variable feat : bool.
Let g := codegen m feat.

(* storage field names are pairwise distinct (to_snake_case is not injective on state names:
   HTTPServer / HttpServer -- rustc rejects such a definition; known finding for C14) *)
Hypothesis fields_distinct : NoDup (map ss_field (m_storage m)).

Definition fresh_slots (s : ident) : slots :=
  map (fun fi => (fst fi, init_slot (snd fi))) (slot_inits m s).

(* the data slot of a leaf X is present iff the machine is in X *)
Definition data_inv (tm : tmachine) : Prop :=
  map fst (tm_slots tm) = map ss_field (m_storage m) /\
  forall sp, In sp (m_storage m) -> In (ss_state sp) (m_states m) ->
             (slot_get (ss_field sp) (tm_slots tm) <> None <-> ss_state sp = tm_state tm).

Lemma slot_get_map_in (l : list storage_spec) (f : storage_spec -> option nat) sp :
  NoDup (map ss_field l) -> In sp l ->
  slot_get (ss_field sp) (map (fun x => (ss_field x, f x)) l) = f sp.
Proof.
  induction l as [|x r IH]; intros ND Hin; [contradiction|].
  cbn [map] in ND. inversion ND as [|? ? Hx ND']; subst. cbn [map slot_get].
  destruct Hin as [->|Hin]; [rewrite String.eqb_refl; reflexivity|].
  destruct (String.eqb (ss_field sp) (ss_field x)) eqn:E.
  - exfalso. apply String.eqb_eq in E. apply Hx. rewrite <- E. apply in_map. exact Hin.
  - apply IH; assumption.
Qed.

Lemma fresh_slots_eq s :
  fresh_slots s = map (fun x => (ss_field x, if String.eqb (ss_state x) s then Some 0 else None)) (m_storage m).
Proof.
  unfold fresh_slots, slot_inits. rewrite map_map. apply map_ext. intros x. cbn.
  destruct (String.eqb (ss_state x) s); reflexivity.
Qed.

(* entering s gives s a fresh default and every other slot nothing *)
Lemma fresh_slots_get s sp :
  In sp (m_storage m) ->
  slot_get (ss_field sp) (fresh_slots s) = if String.eqb (ss_state sp) s then Some 0 else None.
Proof.
  intros H. rewrite fresh_slots_eq.
  exact (slot_get_map_in (m_storage m) (fun x => if String.eqb (ss_state x) s then Some 0 else None) sp fields_distinct H).
Qed.

Lemma fresh_inv s ctx : data_inv (Build_tmachine s ctx (fresh_slots s)).
Proof.
  split.
  - cbn. rewrite fresh_slots_eq, map_map. reflexivity.
  - intros sp Hsp _. cbn [tm_slots tm_state]. rewrite (fresh_slots_get _ _ Hsp).
    destruct (String.eqb (ss_state sp) s) eqn:E.
    + apply String.eqb_eq in E. split; [intros _; exact E|discriminate].
    + split; [intros H; contradiction|]. intros E2. rewrite E2, String.eqb_refl in E. discriminate.
Qed.

Lemma slot_set_fst f v s : map fst (slot_set f v s) = map fst s.
Proof.
  induction s as [|[f' v'] r IH]; [reflexivity|]. cbn [slot_set].
  destruct (String.eqb f f') eqn:E; cbn [map fst]; [apply String.eqb_eq in E; subst; reflexivity|rewrite IH; reflexivity].
Qed.

Fixpoint has_key (f : ident) (s : slots) : bool :=
  match s with [] => false | (f', _) :: r => String.eqb f f' || has_key f r end.

Lemma slot_get_set_same f v s : has_key f s = true -> slot_get f (slot_set f v s) = v.
Proof.
  induction s as [|[f' v'] r IH]; intros H; [discriminate|]. cbn [slot_set has_key] in *.
  destruct (String.eqb f f') eqn:E; cbn [slot_get]; rewrite E; [reflexivity|]. apply IH. exact H.
Qed.

Lemma slot_get_set_other f f' v s : f' <> f -> slot_get f' (slot_set f v s) = slot_get f' s.
Proof.
  intros Hne. induction s as [|[f2 v2] r IH]; [reflexivity|]. cbn [slot_set].
  destruct (String.eqb f f2) eqn:E; cbn [slot_get].
  - apply String.eqb_eq in E. subst f2. destruct (String.eqb f' f) eqn:E2; [apply String.eqb_eq in E2; contradiction|reflexivity].
  - rewrite IH. reflexivity.
Qed.

Lemma slot_get_some_has_key f s : slot_get f s <> None -> has_key f s = true.
Proof.
  induction s as [|[f' v'] r IH]; intros H; [contradiction|]. cbn [slot_get has_key] in *.
  destruct (String.eqb f f'); [reflexivity|apply IH; exact H].
Qed.

(* writing a value into a slot that is present keeps the invariant *)
Lemma set_present_inv tm f v :
  data_inv tm -> slot_get f (tm_slots tm) <> None ->
  data_inv (Build_tmachine (tm_state tm) (tm_ctx tm) (slot_set f (Some v) (tm_slots tm))).
Proof.
  intros [Hk Hi] Hp. split; cbn [tm_slots tm_state].
  - rewrite slot_set_fst. exact Hk.
  - intros sp Hsp Hl. destruct (string_dec (ss_field sp) f) as [Ef|Hne].
    + rewrite <- Ef in Hp. rewrite <- Ef. rewrite (slot_get_set_same _ _ _ (slot_get_some_has_key _ _ Hp)).
      rewrite <- (Hi sp Hsp Hl). split; [intros _; exact Hp|discriminate].
    + rewrite (slot_get_set_other _ _ _ _ Hne). apply Hi; assumption.
Qed.

(* ---------- every operation keeps the invariant ---------- *)

Definition tm_ok (tm : tmachine) : Prop := data_inv tm /\ In (tm_state tm) (m_states m).
Definition holder_ok (h : holder) : Prop :=
  match h with
  | HNone => True
  | HT tm => tm_ok tm
  | HD d => match d_inner d with Some tm => tm_ok tm | None => True end
  end.

Hypothesis targets_declared : forall s e, In (s, e) (m_graph m) -> In (g_target e) (m_states m).
Hypothesis initial_declared : In (m_initial m) (m_states m).

Lemma method_result_ok gm tm pl w b s name :
  tm_ok tm -> In gm (methods_of g s name) -> s = tm_state tm ->
  match ro_res (run_method gm tm pl w b) with
  | ROk nm => tm_ok nm /\ tm_ctx nm = tm_ctx tm /\ tm_slots nm = fresh_slots (tm_state nm)
  | RErr old _ => old = tm
  | RStuck => False
  | _ => True
  end.
Proof.
  intros Hok Hin ->. apply methods_of_in in Hin as (e & -> & He & _).
  pose proof (run_method_cases m e tm pl w b) as C.
  destruct (ro_res (run_method (gen_method m e) tm pl w b)); try exact I; try exact C.
  - subst m0. unfold new_machine. cbn [tm_state tm_ctx tm_slots].
    split; [split; [apply fresh_inv|eapply targets_declared; apply in_outgoing; exact He]|split; reflexivity].
  - destruct C as [-> _]. reflexivity.
Qed.

Lemma typed_new_ok s ctx tm : typed_new g s ctx = Some tm -> tm_ok tm /\ tm_ctx tm = ctx /\ tm_state tm = m_initial m.
Proof.
  unfold typed_new. destruct (impl_of g s) as [gi|] eqn:Ei; [|discriminate].
  unfold impl_of, g, codegen in Ei. cbn [gr_impls] in Ei. apply find_some in Ei as [Hin Heq].
  apply in_map_iff in Hin as (s' & <- & Hs'). cbn [gen_impl gi_state gi_new] in *.
  apply String.eqb_eq in Heq. subst s'.
  destruct (String.eqb s (m_initial m)) eqn:E; [|discriminate]. apply String.eqb_eq in E. subst s.
  intros H. inversion H; subst. cbn [tm_ctx tm_state]. split; [split; [apply fresh_inv|exact initial_declared]|split; reflexivity].
Qed.

(* the dynamic accessor of a data leaf X gives access in X only (expand_state X = [X]) *)
Hypothesis acc_variants : forall a, In a (gen_accs m) -> forall sp, In sp (m_storage m) ->
  In (ss_state sp) (m_states m) -> ss_field sp = gc_field a -> gc_variants a = [ss_state sp].

Lemma gr_dyn_is gd : gr_dyn g = Some gd -> gd = gen_dyn m.
Proof. unfold g, codegen. cbn [gr_dyn]. destruct (m_dynamic m || feat); intros H; inversion H; reflexivity. Qed.

Lemma has_key_of_shape tm sp :
  map fst (tm_slots tm) = map ss_field (m_storage m) -> In sp (m_storage m) -> has_key (ss_field sp) (tm_slots tm) = true.
Proof.
  intros Hk Hsp. assert (Hin : In (ss_field sp) (map fst (tm_slots tm))) by (rewrite Hk; apply in_map; exact Hsp).
  clear Hk. induction (tm_slots tm) as [|[f0 v0] r IH]; [contradiction|]. cbn in *.
  destruct Hin as [->|Hin]; [rewrite String.eqb_refl; reflexivity|]. rewrite (IH Hin). apply orb_true_r.
Qed.

(* storing through the setter in one of the accessor's variants *)
Lemma set_variant_inv tm a v :
  In a (gen_accs m) -> data_inv tm -> mem (tm_state tm) (gc_variants a) = true ->
  data_inv (Build_tmachine (tm_state tm) (tm_ctx tm) (slot_set (gc_field a) (Some v) (tm_slots tm))).
Proof.
  intros Ha [Hk Hi] Hv. split; cbn [tm_slots tm_state].
  - rewrite slot_set_fst. exact Hk.
  - intros sp Hsp Hl. destruct (string_dec (ss_field sp) (gc_field a)) as [Ef|Hne].
    + rewrite <- Ef. rewrite (slot_get_set_same _ _ _ (has_key_of_shape _ _ Hk Hsp)).
      split; [|discriminate]. intros _.
      rewrite (acc_variants a Ha sp Hsp Hl Ef) in Hv. cbn in Hv. rewrite orb_false_r in Hv.
      apply String.eqb_eq in Hv. congruence.
    + rewrite (slot_get_set_other _ _ _ _ Hne). apply Hi; assumption.
Qed.

Lemma handle_ok gd d ev pl w b :
  holder_ok (HD d) -> holder_ok (HD (ho_dyn (handle g gd d ev pl w b))).
Proof.
  intros Hok. unfold handle. cbn [holder_ok] in Hok.
  destruct (d_inner d) as [tm|] eqn:Ed; [|cbn; rewrite Ed; exact I].
  destruct (event_variant gd ev) as [[[v l] p]|]; [|cbn; rewrite Ed; exact Hok].
  destruct (find_arm gd (tm_state tm) v) as [a|] eqn:Ea; [|cbn; rewrite Ed; exact Hok].
  apply find_some in Ea as [_ Ep]. apply andb_prop in Ep as [Esrc _]. apply String.eqb_eq in Esrc.
  destruct (methods_of g (ga_src a) (ga_method a)) as [|gm [|gm2 r]] eqn:Em; try (cbn; rewrite Ed; exact Hok).
  destruct (negb (Bool.eqb (ga_aw a) (gm_async gm))); [cbn; rewrite Ed; exact Hok|].
  assert (Hgm : In gm (methods_of g (ga_src a) (ga_method a))) by (rewrite Em; left; reflexivity).
  pose proof (method_result_ok gm tm (if ga_binds_pl a then pl else None) w b _ _ Hok Hgm Esrc) as R.
  destruct (ro_res (run_method gm tm _ w b)); cbn; try exact I.
  - destruct (String.eqb _ _); cbn; [exact (proj1 R)|rewrite Ed; exact Hok].
  - subst m0. destruct (String.eqb _ _); cbn; [exact Hok|rewrite Ed; exact Hok].
  - contradiction.
Qed.

Lemma find_acc_in gd x a : gr_dyn g = Some gd -> find_acc gd x = Some a -> In a (gen_accs m).
Proof.
  intros Hgd H. apply gr_dyn_is in Hgd. subst gd. unfold find_acc in H. apply find_some in H as [H _]. exact H.
Qed.

Lemma spec_field_in x f : spec_field g x = Some f -> exists sp, In sp (m_storage m) /\ ss_state sp = x /\ ss_field sp = f.
Proof.
  unfold spec_field, state_acc, g, codegen. cbn [gr_state_accs].
  destruct (find _ _) as [[[s0 a0] f0]|] eqn:Ef; [|discriminate].
  intros H. inversion H; subst f0. apply find_some in Ef as [Hin Heq].
  apply in_map_iff in Hin as (sp & E & Hsp). inversion E; subst. cbn in Heq. apply String.eqb_eq in Heq.
  exists sp. repeat split; [exact Hsp|exact Heq].
Qed.

(* every operation of every history keeps: data present exactly in its own leaf, state a declared leaf *)
Theorem step_keeps_inv h o : holder_ok h -> holder_ok (o_holder (step g h o)).
Proof.
  intros Hok. unfold step. destruct (step_core g h o) as [[[r tr] p] h'] eqn:E. cbn [o_holder].
  destruct o as [s c|c| |e pl orc b|e pl orc b|x v|x v|x v|s| | |e pl]; cbn [step_core] in E.
  - destruct (typed_new g s c) as [tm|] eqn:Et; inversion E; subst; [|exact Hok].
    cbn. exact (proj1 (typed_new_ok _ _ _ Et)).
  - destruct (gr_dyn g) as [gd|]; [|inversion E; subst; exact Hok].
    unfold dyn_new in E. destruct (typed_new g (gd_initial gd) c) as [tm|] eqn:Et; inversion E; subst; [|exact Hok].
    cbn. exact (proj1 (typed_new_ok _ _ _ Et)).
  - destruct (gr_dyn g) as [gd|]; [|inversion E; subst; exact Hok].
    unfold dyn_new in E. destruct (typed_new g (gd_initial gd) 0) as [tm|] eqn:Et; inversion E; subst; [|exact Hok].
    cbn. exact (proj1 (typed_new_ok _ _ _ Et)).
  - destruct h as [|tm|dd]; try (inversion E; subst; exact Hok).
    destruct (methods_of g (tm_state tm) (to_snake_case e)) as [|gm [|gm2 rr]] eqn:Em;
      try (inversion E; subst; exact Hok).
    assert (Hgm : In gm (methods_of g (tm_state tm) (to_snake_case e))) by (rewrite Em; left; reflexivity).
    pose proof (method_result_ok gm tm pl (oracle_of orc) b _ _ Hok Hgm eq_refl) as R.
    inversion E; subst; clear E.
    destruct (ro_res (run_method gm tm pl (oracle_of orc) b)); cbn; try exact I.
    + exact (proj1 R).
    + subst m0. exact Hok.
    + contradiction.
  - destruct h as [|tm|dd]; try (inversion E; subst; exact Hok).
    destruct (gr_dyn g) as [gd|] eqn:Eg; [|inversion E; subst; exact Hok].
    inversion E; subst; clear E. apply handle_ok; assumption.
  - destruct h as [|tm|dd]; try (inversion E; subst; exact Hok).
    destruct (gr_dyn g) as [gd|] eqn:Eg; [|inversion E; subst; exact Hok].
    destruct (find_acc gd x) as [a|] eqn:Ea; [|inversion E; subst; exact Hok].
    pose proof (find_acc_in _ _ _ Eg Ea) as Hain.
    unfold acc_set in E. cbn [holder_ok] in Hok. destruct (d_inner dd) as [tm|] eqn:Ed.
    + destruct (mem (tm_state tm) (gc_variants a)) eqn:Emv; inversion E; subst; cbn; rewrite ?Ed; [|exact Hok].
      destruct Hok as [Hinv Hs]. split; [|exact Hs]. apply set_variant_inv; assumption.
    + inversion E; subst. cbn. rewrite Ed. exact I.
  - destruct h as [|tm|dd].
    + inversion E; subst. exact I.
    + destruct (spec_field g x) as [f|]; [|inversion E; subst; exact Hok].
      destruct (slot_get f (tm_slots tm)) eqn:Es; inversion E; subst; [|exact Hok].
      destruct Hok as [Hinv Hs]. split; [|exact Hs]. apply set_present_inv; [exact Hinv|rewrite Es; discriminate].
    + destruct (gr_dyn g) as [gd|] eqn:Eg; [|inversion E; subst; exact Hok].
      destruct (find_acc gd x) as [a|] eqn:Ea; [|inversion E; subst; exact Hok].
      unfold acc_write in E. cbn [holder_ok] in Hok. destruct (d_inner dd) as [tm|] eqn:Ed.
      * destruct (mem (tm_state tm) (gc_variants a)); [|inversion E; subst; cbn; rewrite Ed; exact Hok].
        destruct (slot_get (gc_field a) (tm_slots tm)) eqn:Es; inversion E; subst; cbn; rewrite ?Ed; [|exact Hok].
        destruct Hok as [Hinv Hs]. split; [|exact Hs]. apply set_present_inv; [exact Hinv|rewrite Es; discriminate].
      * inversion E; subst. cbn. rewrite Ed. exact I.
  - destruct h as [|tm|dd]; try (inversion E; subst; exact Hok).
    destruct (String.eqb (tm_state tm) x); [|inversion E; subst; exact Hok].
    destruct (spec_field g x) as [f|]; [|inversion E; subst; exact Hok].
    destruct (slot_get f (tm_slots tm)) eqn:Es; inversion E; subst; [|exact Hok].
    destruct Hok as [Hinv Hs]. split; [|exact Hs]. apply set_present_inv; [exact Hinv|rewrite Es; discriminate].
  - destruct h as [|tm|dd]; try (inversion E; subst; exact Hok).
    destruct (gr_dyn g) as [gd|]; [|inversion E; subst; exact Hok].
    destruct (existsb _ _); [|inversion E; subst; exact Hok].
    unfold into_state in E. cbn [holder_ok] in Hok. destruct (d_inner dd) as [tm|] eqn:Ed.
    + destruct (String.eqb (tm_state tm) s); inversion E; subst; cbn; rewrite ?Ed; exact Hok.
    + inversion E; subst. cbn. rewrite Ed. exact I.
  - destruct h as [|tm|dd]; try (inversion E; subst; exact Hok).
    destruct (gr_dyn g); inversion E; subst; exact Hok.
  - inversion E; subst. exact I.
  - destruct h as [|tm|dd]; try (inversion E; subst; exact Hok).
    + destruct (methods_of g (tm_state tm) (to_snake_case e)) as [|gm [|gm2 rr]]; try (inversion E; subst; exact Hok).
      destruct (gm_async gm); inversion E; subst; [exact I|exact Hok].
    + destruct (gr_dyn g); [destruct (gir_async g)|]; inversion E; subst; exact Hok.
Qed.

Theorem history_keeps_inv ops : forall h, holder_ok h -> Forall (fun ob => holder_ok (o_holder ob)) (run_script g h ops).
Proof.
  induction ops as [|o r IH]; intros h Hok; [constructor|].
  cbn [run_script]. constructor; [apply step_keeps_inv; exact Hok|apply IH; apply step_keeps_inv; exact Hok].
Qed.

(* consequences for what the accessors show *)
Lemma inv_accessor_total tm sp :
  tm_ok tm -> In sp (m_storage m) -> ss_state sp = tm_state tm -> slot_get (ss_field sp) (tm_slots tm) <> None.
Proof.
  intros [[_ Hi] Hs] Hsp E. apply Hi; [exact Hsp|rewrite E; exact Hs|exact E].
Qed.

End Dt.
