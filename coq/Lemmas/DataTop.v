(* DataTop.v -- C08, C10, C11, C16 for accepted definitions: discharges the hypotheses of DataLemmas
   from the front-end facts and states what the accessors and conversions do. *)
From Coq Require Import String List Bool Arith Lia.
From SM Require Import Ident Ast Front Spec Gir Codegen Sem Dyn Script.
From SM.Lemmas Require Import FrontLemmas FrontTop ChainLemmas GirLemmas SemLemmas RefSem CasesLemmas DataLemmas.
Import ListNotations.
Open Scope string_scope.
Open Scope list_scope.

Definition fields_distinct (m : machine) : Prop := NoDup (map ss_field (m_storage m)).

Section DT.
Variable d : defn.
Variable m : machine.
Variable items : list sitem.
Variable ps : pstate.
Variable feat : bool.
Hypothesis F : front_facts d m items ps.
Hypothesis FD : fields_distinct m.
Let g := codegen m feat.

Lemma targets_declared : forall s e, In (s, e) (m_graph m) -> In (g_target e) (m_states m).
Proof.
  intros s e H. rewrite (ff_graph _ _ _ _ F) in H.
  apply in_build_graph in H as (ev & tr & src & Hev & Htr & _ & _ & ->). cbn [g_target].
  pose proof (ff_parse _ _ _ _ F) as Hp.
  rewrite (ff_hier _ _ _ _ F), (resolve_target_spec _ _ Hp), (ff_leaves _ _ _ _ F).
  pose proof (ew_target _ _ (vf_events _ _ (validate_facts _ _ _ _ F) ev Hev) tr Htr) as Hdecl.
  unfold entry_of. destruct (find_super (t_target tr) items) as [b|] eqn:Ef.
  - destruct (ps_super_valid _ _ Hp _ _ Ef) as [_ Hin]. eapply find_super_leaves_sub; [exact Ef|exact Hin].
  - destruct Hdecl as [Hl|Hs]; [exact Hl|]. apply find_super_supers in Hs as [b Hb]. congruence.
Qed.

Lemma initial_declared : In (m_initial m) (m_states m).
Proof. rewrite (ff_leaves _ _ _ _ F). exact (vf_initial_leaf _ _ (validate_facts _ _ _ _ F)). Qed.

Lemma field_injective sp1 sp2 :
  In sp1 (m_storage m) -> In sp2 (m_storage m) -> ss_field sp1 = ss_field sp2 -> sp1 = sp2.
Proof.
  intros H1 H2 E. unfold fields_distinct in FD.
  induction (m_storage m) as [|x r IH]; [contradiction|].
  cbn [map] in FD. inversion FD as [|? ? Hx ND]; subst.
  destruct H1 as [<-|H1], H2 as [<-|H2]; try reflexivity.
  - exfalso. apply Hx. rewrite E. apply in_map. exact H2.
  - exfalso. apply Hx. rewrite <- E. apply in_map. exact H1.
  - apply IH; assumption.
Qed.

Lemma acc_variants : forall a, In a (gen_accs m) -> forall sp, In sp (m_storage m) ->
  In (ss_state sp) (m_states m) -> ss_field sp = gc_field a -> gc_variants a = [ss_state sp].
Proof.
  intros a Ha sp Hsp Hl Ef. unfold gen_accs in Ha. apply in_flat_map in Ha as (sp' & Hsp' & Ha).
  destruct (expand_state (m_hier m) (m_states m) (ss_state sp')) as [|x r] eqn:Ee; [contradiction|].
  destruct Ha as [<-|[]]. cbn [gc_field gc_variants] in *.
  assert (sp = sp') by (apply field_injective; assumption). subst sp'.
  rewrite <- Ee. pose proof (ff_parse _ _ _ _ F) as Hp.
  rewrite (ff_hier _ _ _ _ F), (ff_leaves _ _ _ _ F), <- (ps_leaves _ _ Hp).
  apply (expand_leaf _ _ Hp). rewrite <- (ff_leaves _ _ _ _ F). exact Hl.
Qed.

(* C08: the invariant holds along every history *)
Theorem data_invariant_all_histories ops :
  Forall (fun ob => holder_ok m (o_holder ob)) (run_script g HNone ops).
Proof.
  apply (history_keeps_inv m feat FD targets_declared initial_declared acc_variants). exact I.
Qed.

(* entering a state (construction, transition, self-transition) gives it a fresh default *)
Theorem entry_gives_default tm e pl w b nm sp :
  In e (outgoing (m_graph m) (tm_state tm)) ->
  ro_res (run_method (gen_method m e) tm pl w b) = ROk nm ->
  In sp (m_storage m) ->
  slot_get (ss_field sp) (tm_slots nm) = if String.eqb (ss_state sp) (tm_state nm) then Some 0 else None.
Proof.
  intros He Hr Hsp. pose proof (run_method_cases m e tm pl w b) as C. rewrite Hr in C. subst nm.
  unfold new_machine. cbn [tm_slots tm_state]. apply (fresh_slots_get m FD). exact Hsp.
Qed.

Theorem new_gives_default s ctx tm sp :
  typed_new g s ctx = Some tm -> In sp (m_storage m) ->
  tm_state tm = m_initial m /\ tm_ctx tm = ctx /\
  slot_get (ss_field sp) (tm_slots tm) = if String.eqb (ss_state sp) (m_initial m) then Some 0 else None.
Proof.
  intros Ht Hsp. unfold typed_new in Ht. destruct (impl_of g s) as [gi|] eqn:Ei; [|discriminate].
  unfold impl_of, g, codegen in Ei. cbn [gr_impls] in Ei. apply find_some in Ei as [Hin Heq].
  apply in_map_iff in Hin as (s' & <- & Hs'). cbn [gen_impl gi_state gi_new] in *.
  apply String.eqb_eq in Heq. subst s'.
  destruct (String.eqb s (m_initial m)) eqn:E; [|discriminate]. apply String.eqb_eq in E. subst s.
  inversion Ht; subst. cbn. repeat split. apply (fresh_slots_get m FD). exact Hsp.
Qed.

(* the infallible accessor of a machine typed in X never meets None *)
Theorem accessor_never_panics tm sp :
  tm_ok m tm -> In sp (m_storage m) -> ss_state sp = tm_state tm ->
  slot_get (ss_field sp) (tm_slots tm) <> None.
Proof. apply inv_accessor_total. Qed.

(* ---------- C11: dynamic accessors ---------- *)

Definition acc_for (sp : storage_spec) : gacc :=
  let sn := to_snake_case (ss_state sp) in
  Build_gacc (ss_state sp) (ss_field sp) (sn +++ "_data") (sn +++ "_data_mut") ("set_" +++ sn +++ "_data") [ss_state sp].

Lemma acc_for_in sp :
  In sp (m_storage m) -> In (ss_state sp) (m_states m) -> In (acc_for sp) (gen_accs m).
Proof.
  intros Hsp Hl. unfold gen_accs. apply in_flat_map. exists sp. split; [exact Hsp|].
  pose proof (ff_parse _ _ _ _ F) as Hp.
  assert (Ee : expand_state (m_hier m) (m_states m) (ss_state sp) = [ss_state sp]).
  { rewrite (ff_hier _ _ _ _ F), (ff_leaves _ _ _ _ F), <- (ps_leaves _ _ Hp).
    apply (expand_leaf _ _ Hp). rewrite <- (ff_leaves _ _ _ _ F). exact Hl. }
  rewrite Ee. left. reflexivity.
Qed.

Theorem dyn_accessors_gated tm sp v :
  tm_ok m tm -> In sp (m_storage m) -> In (ss_state sp) (m_states m) ->
  let a := acc_for sp in
  let dd := Build_dyn (Some tm) in
  (* read / mutable access: a value iff the machine is in X *)
  (acc_read a dd <> None <-> tm_state tm = ss_state sp) /\
  (snd (acc_write a dd v) = true <-> tm_state tm = ss_state sp) /\
  (* the setter stores iff in X, and then it is what later reads return; nothing else changes *)
  (tm_state tm = ss_state sp ->
     acc_set (gen_dyn m) a dd v =
       (Build_dyn (Some (Build_tmachine (tm_state tm) (tm_ctx tm) (slot_set (ss_field sp) (Some v) (tm_slots tm)))), None) /\
     acc_read a (fst (acc_set (gen_dyn m) a dd v)) = Some v /\
     (exists old, acc_read a dd = Some old /\ acc_read a (fst (acc_write a dd v)) = Some (old + v)) /\
     (forall sp', In sp' (m_storage m) -> ss_field sp' <> ss_field sp ->
        slot_get (ss_field sp') (slot_set (ss_field sp) (Some v) (tm_slots tm)) = slot_get (ss_field sp') (tm_slots tm))) /\
  (* otherwise nothing changes and the error names the expected state, the actual state, the operation *)
  (tm_state tm <> ss_state sp ->
     acc_set (gen_dyn m) a dd v = (dd, Some (DWrongState (ss_state sp) (tm_state tm) (gc_set a))) /\
     acc_write a dd v = (dd, false)).
Proof.
  intros Hok Hsp Hl a dd. destruct Hok as [[Hk Hi] Hs].
  assert (Hmem : mem (tm_state tm) [ss_state sp] = true <-> tm_state tm = ss_state sp).
  { cbn. rewrite orb_false_r. apply String.eqb_eq. }
  assert (Hlit : state_lit (gen_dyn m) (tm_state tm) = tm_state tm).
  { unfold state_lit, gen_dyn. cbn [gd_states]. clear - Hs.
    induction (m_states m) as [|x r IH]; [contradiction|]. cbn [map assoc].
    destruct (String.eqb (tm_state tm) x) eqn:E; [apply String.eqb_eq in E; congruence|].
    destruct Hs as [->|Hs]; [rewrite String.eqb_refl in E; discriminate|apply IH; exact Hs]. }
  assert (Hkey : has_key (ss_field sp) (tm_slots tm) = true) by (eapply has_key_of_shape; eassumption).
  unfold acc_read, acc_write, acc_set. cbn [d_inner dd a acc_for gc_variants gc_field gc_state gc_set].
  destruct (mem (tm_state tm) [ss_state sp]) eqn:Em.
  - assert (Est : tm_state tm = ss_state sp) by (apply Hmem; reflexivity).
    assert (Hsome : slot_get (ss_field sp) (tm_slots tm) <> None) by (apply Hi; [exact Hsp|exact Hl|congruence]).
    destruct (slot_get (ss_field sp) (tm_slots tm)) as [v0|] eqn:Eg; [|contradiction].
    cbn [fst snd d_inner tm_state tm_slots]. rewrite ?Em, ?(slot_get_set_same _ _ _ Hkey).
    split. { split; [intros _; exact Est|intros _; discriminate]. }
    split. { split; [intros _; exact Est|intros _; reflexivity]. }
    split.
    { intros _. split; [reflexivity|]. split; [reflexivity|]. split; [exists v0; split; reflexivity|].
      intros sp' _ Hne. apply slot_get_set_other. exact Hne. }
    intros Hne. contradiction.
  - assert (Est : tm_state tm <> ss_state sp) by (intros E; apply Hmem in E; congruence).
    cbn [fst snd].
    split. { split; [intros H; contradiction|intros E; contradiction]. }
    split. { split; [discriminate|intros E; contradiction]. }
    split. { intros E; contradiction. }
    intros _. rewrite Hlit. split; reflexivity.
Qed.

(* ---------- C10: conversions ---------- *)

Theorem conversions_exact tm s :
  In (tm_state tm) (m_states m) ->
  current_state (gen_dyn m) (into_dynamic tm) = Some (tm_state tm) /\
  (into_state s (into_dynamic tm) = inl tm <-> tm_state tm = s) /\
  (tm_state tm <> s -> into_state s (into_dynamic tm) = inr (into_dynamic tm)) /\
  into_state (tm_state tm) (into_dynamic tm) = inl tm.
Proof.
  intros Hs. unfold current_state, into_dynamic, into_state. cbn [d_inner].
  assert (Hlit : state_lit (gen_dyn m) (tm_state tm) = tm_state tm).
  { unfold state_lit, gen_dyn. cbn [gd_states].
    induction (m_states m) as [|x r IH]; [contradiction|]. cbn [map assoc].
    destruct (String.eqb (tm_state tm) x) eqn:E; [apply String.eqb_eq in E; congruence|].
    destruct Hs as [->|Hs]; [rewrite String.eqb_refl in E; discriminate|apply IH; exact Hs]. }
  rewrite Hlit, String.eqb_refl. repeat split.
  - destruct (String.eqb (tm_state tm) s) eqn:E; [intros _; apply String.eqb_eq; exact E|discriminate].
  - intros <-. rewrite String.eqb_refl. reflexivity.
  - intros Hne. destruct (String.eqb (tm_state tm) s) eqn:E; [apply String.eqb_eq in E; contradiction|reflexivity].
Qed.

End DT.

(* conversions never change the wrapped machine: whatever into_<s>() returns holds what went in *)
Theorem into_state_lossless s dd :
  match into_state s dd with
  | inl tm => dd = into_dynamic tm /\ tm_state tm = s
  | inr dd' => dd' = dd
  end.
Proof.
  unfold into_state, into_dynamic. destruct dd as [[tm|]]; cbn; [|reflexivity].
  destruct (String.eqb (tm_state tm) s) eqn:E; [split; [reflexivity|apply String.eqb_eq; exact E]|reflexivity].
Qed.
