(* DynLemmas.v -- handle() of the generated wrapper, in terms of the graph and the typed methods. *)
From Coq Require Import String List Bool Arith Lia.
From SM Require Import Ident Ast Front Spec Gir Codegen Sem Dyn.
From SM.Lemmas Require Import FrontLemmas FrontTop ChainLemmas GirLemmas IdentLemmas SemLemmas RefSem SemProps HookTheorems.
Import ListNotations.
Open Scope string_scope.
Open Scope list_scope.

Record dyn_ok (m : machine) : Prop := {
  do_snake : forall ev, In ev (m_events m) -> is_snake_case (e_name ev) = true;
  do_variants : NoDup (map (fun ev => to_pascal_case (e_name ev)) (m_events m));   (* event enum variants distinct *)
  do_det : forall s ev, length (filter (fun e => String.eqb (g_event e) ev) (outgoing (m_graph m) s)) <= 1;
  do_graph : m_graph m = build_graph (m_hier m) (m_states m) (m_events m);
  do_srcs : forall s e, In (s, e) (m_graph m) -> In s (m_states m) }.

Section D.
Variable m : machine.
Variable feat : bool.
Hypothesis OK : dyn_ok m.
Let g := codegen m feat.
Let gd := gen_dyn m.

Definition edges_for (s ev : ident) : list edge :=
  filter (fun e => String.eqb (g_event e) ev) (outgoing (m_graph m) s).

Lemma event_unique ev1 ev2 :
  In ev1 (m_events m) -> In ev2 (m_events m) ->
  to_pascal_case (e_name ev1) = to_pascal_case (e_name ev2) -> ev1 = ev2.
Proof.
  intros H1 H2 E. pose proof (do_variants _ OK) as ND.
  induction (m_events m) as [|x r IH]; [contradiction|].
  cbn [map] in ND. inversion ND as [|? ? Hx ND']; subst.
  destruct H1 as [<-|H1], H2 as [<-|H2]; try reflexivity.
  - exfalso. apply Hx. rewrite E. apply in_map_iff. exists ev2. split; [reflexivity|exact H2].
  - exfalso. apply Hx. rewrite <- E. apply in_map_iff. exists ev1. split; [reflexivity|exact H1].
  - apply IH; assumption.
Qed.

Lemma edge_event s e :
  In (s, e) (m_graph m) -> exists ev, In ev (m_events m) /\ g_event e = e_name ev /\ g_payload e = e_payload ev.
Proof.
  rewrite (do_graph _ OK). intros H. apply in_build_graph in H as (ev & tr & src & Hev & _ & _ & _ & ->).
  exists ev. repeat split. exact Hev.
Qed.

Lemma event_variant_spec ev :
  In ev (m_events m) ->
  event_variant gd (e_name ev) = Some (to_pascal_case (e_name ev), e_name ev, e_payload ev).
Proof.
  intros Hev. unfold event_variant, gd, gen_dyn. cbn [gd_events].
  destruct (find _ _) as [[[v l] p]|] eqn:Ef.
  - apply find_some in Ef as [Hin Heq]. apply in_map_iff in Hin as (ev1 & E & H1). inversion E; subst.
    cbn in Heq. apply String.eqb_eq in Heq.
    assert (ev1 = ev) by (apply event_unique; [exact H1|exact Hev|rewrite Heq; reflexivity]). subst. reflexivity.
  - exfalso. eapply find_none in Ef; [|apply in_map_iff; exists ev; split; [reflexivity|exact Hev]].
    cbn in Ef. rewrite String.eqb_refl in Ef. discriminate.
Qed.

Definition arm_of (s : ident) (ev : event) (e : edge) : garm :=
  Build_garm s (e_name ev) (to_pascal_case (e_name ev))
             (match e_payload ev with Some _ => true | None => false end)
             (to_snake_case (e_name ev)) (m_async m) (g_target e) s.

Lemma in_gen_arms a :
  In a (gen_arms m) <->
  exists ev s e, In ev (m_events m) /\ In s (m_states m) /\ In e (outgoing (m_graph m) s) /\
                 g_event e = e_name ev /\ a = arm_of s ev e.
Proof.
  unfold gen_arms. split.
  - intros H. apply in_flat_map in H as (ev & Hev & H). apply in_flat_map in H as (s & Hs & H).
    apply in_flat_map in H as (e & He & H).
    destruct (String.eqb (g_event e) (e_name ev)) eqn:E; [|contradiction].
    destruct H as [<-|[]]. apply String.eqb_eq in E. exists ev, s, e. repeat split; assumption.
  - intros (ev & s & e & Hev & Hs & He & E & ->).
    apply in_flat_map. exists ev. split; [exact Hev|]. apply in_flat_map. exists s. split; [exact Hs|].
    apply in_flat_map. exists e. split; [exact He|]. rewrite E, String.eqb_refl. left. reflexivity.
Qed.

Lemma edges_for_unique s ev e : In e (edges_for s ev) -> edges_for s ev = [e].
Proof.
  intros H. pose proof (do_det _ OK s ev) as L. fold (edges_for s ev) in L.
  destruct (edges_for s ev) as [|e1 [|e2 r]]; [contradiction| |cbn in L; lia].
  destruct H as [->|[]]. reflexivity.
Qed.

Lemma find_arm_some s ev a :
  In ev (m_events m) ->
  find_arm gd s (to_pascal_case (e_name ev)) = Some a ->
  exists e, edges_for s (e_name ev) = [e] /\ a = arm_of s ev e.
Proof.
  intros Hev H. unfold find_arm, gd, gen_dyn in H. cbn [gd_arms] in H.
  apply find_some in H as [Hin Heq]. apply in_gen_arms in Hin as (ev1 & s1 & e & H1 & Hs & He & Eg & ->).
  cbn in Heq. apply andb_prop in Heq as [E1 E2]. apply String.eqb_eq in E1, E2. subst s1.
  assert (ev1 = ev) by (apply event_unique; assumption). subst ev1.
  exists e. split; [|reflexivity]. apply edges_for_unique. unfold edges_for. apply filter_In.
  split; [exact He|]. rewrite Eg. apply String.eqb_refl.
Qed.

Lemma find_arm_none s ev :
  In ev (m_events m) -> In s (m_states m) ->
  find_arm gd s (to_pascal_case (e_name ev)) = None -> edges_for s (e_name ev) = [].
Proof.
  intros Hev Hs H. unfold find_arm, gd, gen_dyn in H. cbn [gd_arms] in H.
  destruct (edges_for s (e_name ev)) as [|e r] eqn:Ee; [reflexivity|exfalso].
  assert (He : In e (edges_for s (e_name ev))) by (rewrite Ee; left; reflexivity).
  unfold edges_for in He. apply filter_In in He as [He Eg]. apply String.eqb_eq in Eg.
  eapply find_none in H; [|apply in_gen_arms; exists ev, s, e; repeat split; eassumption].
  cbn in H. rewrite !String.eqb_refl in H. discriminate.
Qed.

Lemma methods_for_edge s ev e :
  In ev (m_events m) -> In s (m_states m) -> edges_for s (e_name ev) = [e] ->
  methods_of g s (to_snake_case (e_name ev)) = [gen_method m e].
Proof.
  intros Hev Hs He. unfold g. rewrite (methods_of_codegen _ _ _ _ Hs).
  rewrite (snake_id _ (do_snake _ OK _ Hev)).
  assert (G : forall l, (forall x, In x l -> In x (outgoing (m_graph m) s)) ->
              filter (fun gm => String.eqb (gm_name gm) (e_name ev)) (map (gen_method m) l)
              = map (gen_method m) (filter (fun e0 => String.eqb (g_event e0) (e_name ev)) l)).
  { induction l as [|x r IH]; intros Hsub; [reflexivity|]. cbn [map filter gen_method gm_name].
    assert (Hx : In (s, x) (m_graph m)) by (apply in_outgoing; apply Hsub; left; reflexivity).
    destruct (edge_event _ _ Hx) as (evx & Hevx & Egx & _).
    rewrite Egx, (snake_id _ (do_snake _ OK _ Hevx)).
    destruct (String.eqb (e_name evx) (e_name ev)); cbn [map]; rewrite IH; try reflexivity;
      intros y Hy; apply Hsub; right; exact Hy. }
  rewrite G; [|auto]. fold (edges_for s (e_name ev)). rewrite He. reflexivity.
Qed.

Lemma state_lit_spec s : In s (m_states m) -> state_lit gd s = s.
Proof.
  intros Hs. unfold state_lit, gd, gen_dyn. cbn [gd_states].
  induction (m_states m) as [|x r IH]; [contradiction|]. cbn [map assoc].
  destruct (String.eqb s x) eqn:E; [apply String.eqb_eq in E; congruence|].
  destruct Hs as [->|Hs]; [rewrite String.eqb_refl in E; discriminate|apply IH; exact Hs].
Qed.

(* ---------- handle(), one call ---------- *)

Definition lift_res (d : dyn) (s : ident) (ro : run_out) : handle_out :=
  match ro_res ro with
  | ROk nm => Build_handle_out (Build_dyn (Some nm)) (ro_trace ro) (ro_pend ro) HOk
  | RErr old e => Build_handle_out (Build_dyn (Some old)) (ro_trace ro) (ro_pend ro) (HErr (arm_err s e))
  | RPanicHook n => Build_handle_out (Build_dyn None) (ro_trace ro) (ro_pend ro) (HPanicHook n)
  | RPanicAfter n e => Build_handle_out (Build_dyn None) (ro_trace ro) (ro_pend ro) (HPanicAfter n e)
  | RAbandoned => Build_handle_out (Build_dyn None) (ro_trace ro) (ro_pend ro) HAbandoned
  | RStuck => Build_handle_out d (ro_trace ro) (ro_pend ro) HStuck
  end.

(* no transition of the event applies: the catch-all arm *)
Lemma handle_refused_invalid tm ev pl w b :
  In ev (m_events m) -> In (tm_state tm) (m_states m) -> edges_for (tm_state tm) (e_name ev) = [] ->
  handle g gd (Build_dyn (Some tm)) (e_name ev) pl w b =
  Build_handle_out (Build_dyn (Some tm)) [] 0 (HErr (DInvalid (tm_state tm) (e_name ev))).
Proof.
  intros Hev Hs He. unfold handle. cbn [d_inner]. rewrite (event_variant_spec _ Hev).
  destruct (find_arm gd (tm_state tm) (to_pascal_case (e_name ev))) as [a|] eqn:Ea.
  - destruct (find_arm_some _ _ _ Hev Ea) as (e & He' & _). rewrite He in He'. discriminate.
  - rewrite (state_lit_spec _ Hs). reflexivity.
Qed.

(* a transition applies: the arm is the typed call, wrapped *)
Lemma handle_dispatch tm ev e pl w :
  In ev (m_events m) -> In (tm_state tm) (m_states m) -> edges_for (tm_state tm) (e_name ev) = [e] ->
  handle g gd (Build_dyn (Some tm)) (e_name ev) pl w None =
  lift_res (Build_dyn (Some tm)) (tm_state tm) (run_method (gen_method m e) tm pl w None).
Proof.
  intros Hev Hs He. unfold handle. cbn [d_inner]. rewrite (event_variant_spec _ Hev).
  destruct (find_arm gd (tm_state tm) (to_pascal_case (e_name ev))) as [a|] eqn:Ea.
  2:{ rewrite (find_arm_none _ _ Hev Hs Ea) in He. discriminate. }
  destruct (find_arm_some _ _ _ Hev Ea) as (e' & He' & ->). rewrite He in He'. inversion He'; subst e'.
  cbn [arm_of ga_src ga_method ga_aw ga_binds_pl ga_ok ga_restore].
  rewrite (methods_for_edge _ _ _ Hev Hs He). cbn [gen_method gm_async]. rewrite eqb_reflx. cbn [negb].
  fold (gen_method m e).
  (* the payload handed on is the payload the method takes *)
  assert (Hin : In (tm_state tm, e) (m_graph m)).
  { apply in_outgoing. assert (H : In e (edges_for (tm_state tm) (e_name ev))) by (rewrite He; left; reflexivity).
    unfold edges_for in H. apply filter_In in H as [H _]. exact H. }
  assert (Hge : g_event e = e_name ev).
  { assert (H : In e (edges_for (tm_state tm) (e_name ev))) by (rewrite He; left; reflexivity).
    unfold edges_for in H. apply filter_In in H as [_ H]. apply String.eqb_eq in H. exact H. }
  destruct (edge_event _ _ Hin) as (ev1 & Hev1 & Eg1 & Ep1).
  assert (ev1 = ev) by (apply event_unique; [exact Hev1|exact Hev|congruence]). subst ev1.
  assert (Hpl : run_method (gen_method m e) tm (if match e_payload ev with Some _ => true | None => false end then pl else None) w None
                = run_method (gen_method m e) tm pl w None).
  { unfold run_method. cbn [gen_method gm_payload]. rewrite Ep1. destruct (e_payload ev); reflexivity. }
  rewrite Hpl. unfold lift_res.
  rewrite run_method_ref.
  destruct (ref_run _ _ _ _ _ _ _ _ _) as [[tr p] [r|]] eqn:Er; cbn [ro_res ro_trace ro_pend].
  - destruct r; try reflexivity.
    + (* ROk from a stop: impossible, but the variant check passes or fails consistently *)
      exfalso.
      pose proof (ok_iff_all_pass m e tm pl w) as [Hok _]. rewrite run_method_ref, Er in Hok. cbn [ro_res] in Hok.
      specialize (Hok (ex_intro _ _ eq_refl)).
      rewrite (ref_run_all_pass _ _ _ _ _ _ _ _ _ Hok) in Er. discriminate.
    + (* RErr: the machine handed back is the input *)
      pose proof (refused_intact m e tm pl w m0 e0) as R. rewrite run_method_ref, Er in R. cbn [ro_res] in R.
      destruct (R eq_refl) as (-> & _). rewrite String.eqb_refl, (state_lit_spec _ Hs). reflexivity.
  - unfold new_machine. cbn [tm_state]. rewrite String.eqb_refl. reflexivity.
Qed.

End D.
