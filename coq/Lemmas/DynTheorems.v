(* DynTheorems.v -- C01, C05 (dynamic), C09, C19 on top of DynLemmas. *)
From Coq Require Import String List Bool Arith Lia.
From SM Require Import Ident Ast Front Spec Gir Codegen Sem Dyn.
From SM.Lemmas Require Import FrontLemmas FrontTop ChainLemmas GirLemmas IdentLemmas SemLemmas RefSem SemProps HookTheorems DynLemmas.
Import ListNotations.
Open Scope string_scope.
Open Scope list_scope.

Lemma leaves_under_sub items x s : In s (leaves_under items x) -> In s (leaves_of items).
Proof.
  unfold leaves_under. destruct (find_super x items) as [b|] eqn:E.
  - intros H. eapply find_super_leaves_sub; [exact E|exact H].
  - destruct (mem x (leaves_of items)) eqn:Em; [|intros []].
    intros [<-|[]]. apply mem_In. exact Em.
Qed.

Definition variants_distinct (m : machine) : Prop :=
  NoDup (map (fun ev => to_pascal_case (e_name ev)) (m_events m)).
Definition graph_deterministic (m : machine) : Prop :=
  forall s ev, length (filter (fun e => String.eqb (g_event e) ev) (outgoing (m_graph m) s)) <= 1.

Lemma front_dyn_ok d m items ps :
  front_facts d m items ps -> variants_distinct m -> graph_deterministic m -> dyn_ok m.
Proof.
  intros F V Dt. pose proof (validate_facts _ _ _ _ F) as VF. constructor.
  - intros ev Hev. exact (ew_snake _ _ (vf_events _ _ VF ev Hev)).
  - exact V.
  - exact Dt.
  - exact (ff_graph _ _ _ _ F).
  - intros s e H. rewrite (ff_graph _ _ _ _ F) in H.
    apply in_build_graph in H as (ev & tr & src & _ & _ & _ & Hs & _).
    rewrite (ff_hier _ _ _ _ F), (ff_leaves _ _ _ _ F) in Hs.
    pose proof (ff_parse _ _ _ _ F) as Hp. rewrite <- (ps_leaves _ _ Hp), (expand_state_spec _ _ Hp) in Hs.
    rewrite (ff_leaves _ _ _ _ F). eapply leaves_under_sub. exact Hs.
Qed.

Section Th.
Variable d : defn.
Variable m : machine.
Variable items : list sitem.
Variable ps : pstate.
Variable feat : bool.
Hypothesis F : front_facts d m items ps.
Hypothesis V : variants_distinct m.
Hypothesis Dt : graph_deterministic m.

Let OK : dyn_ok m := front_dyn_ok d m items ps F V Dt.
Let g := codegen m feat.
Let gd := gen_dyn m.

Definition good (dd : dyn) : Prop := exists tm, d_inner dd = Some tm /\ In (tm_state tm) (leaves_of items).

Lemma states_leaves : m_states m = leaves_of items.
Proof. exact (ff_leaves _ _ _ _ F). Qed.

Lemma edges_delta s ev e :
  edges_for m s ev = [e] -> delta items (m_events m) s ev (g_target e).
Proof.
  intros He. apply (graph_delta _ _ _ _ F). exists e.
  assert (H : In e (edges_for m s ev)) by (rewrite He; left; reflexivity).
  unfold edges_for in H. apply filter_In in H as [H E]. apply String.eqb_eq in E.
  repeat split; [apply in_outgoing; exact H|exact E].
Qed.

Lemma no_edges_no_delta s ev : edges_for m s ev = [] -> forall t, ~ delta items (m_events m) s ev t.
Proof.
  intros He t Hd. apply (graph_delta _ _ _ _ F) in Hd as (e & Hin & E & _).
  assert (H : In e (edges_for m s ev)).
  { unfold edges_for. apply filter_In. split; [apply in_outgoing; exact Hin|]. rewrite E. apply String.eqb_refl. }
  rewrite He in H. exact H.
Qed.

Lemma delta_edges s ev t : delta items (m_events m) s ev t -> exists e, edges_for m s ev = [e] /\ g_target e = t.
Proof.
  intros Hd. apply (graph_delta _ _ _ _ F) in Hd as (e & Hin & E & Ht).
  exists e. split; [|exact Ht]. apply (edges_for_unique m OK). unfold edges_for. apply filter_In.
  split; [apply in_outgoing; exact Hin|]. rewrite E. apply String.eqb_refl.
Qed.

Lemma edge_target_leaf s ev e : edges_for m s ev = [e] -> In (g_target e) (leaves_of items).
Proof.
  intros He. pose proof (edges_delta _ _ _ He) as (evt & tr & src & Hev & _ & Htr & _ & _ & Ht).
  rewrite Ht. pose proof (validate_facts _ _ _ _ F) as VF.
  pose proof (ew_target _ _ (vf_events _ _ VF evt Hev) tr Htr) as Hdecl.
  pose proof (ff_parse _ _ _ _ F) as Hp. unfold entry_of.
  destruct (find_super (t_target tr) items) as [b|] eqn:Ef.
  - destruct (ps_super_valid _ _ Hp _ _ Ef) as [_ Hin]. eapply find_super_leaves_sub; [exact Ef|exact Hin].
  - destruct Hdecl as [Hl|Hs]; [exact Hl|].
    apply find_super_supers in Hs as [b Hb]. congruence.
Qed.

(* ---------- C01 / C05 / C19(a): one completed handle() ---------- *)

Theorem handle_follows_delta tm ev pl w :
  In (tm_state tm) (leaves_of items) -> In ev (m_events m) ->
  let ho := handle g gd (Build_dyn (Some tm)) (e_name ev) pl w None in
  (ho_res ho = HOk ->
     exists tm', ho_dyn ho = Build_dyn (Some tm') /\
                 delta items (m_events m) (tm_state tm) (e_name ev) (tm_state tm') /\
                 In (tm_state tm') (leaves_of items) /\ tm_ctx tm' = tm_ctx tm)
  /\ (forall x, ho_res ho = HErr x -> ho_dyn ho = Build_dyn (Some tm))
  /\ ((forall t, ~ delta items (m_events m) (tm_state tm) (e_name ev) t) ->
        ho = Build_handle_out (Build_dyn (Some tm)) [] 0 (HErr (DInvalid (tm_state tm) (e_name ev))))
  /\ (ho_res ho <> HStuck).
Proof.
  intros Hs Hev ho. rewrite <- states_leaves in Hs.
  destruct (edges_for m (tm_state tm) (e_name ev)) as [|e r] eqn:Ee.
  - unfold ho, g, gd. rewrite (handle_refused_invalid m feat OK tm ev pl w None Hev Hs Ee). cbn.
    repeat split; try discriminate; reflexivity.
  - assert (Ee' : edges_for m (tm_state tm) (e_name ev) = [e]).
    { apply (edges_for_unique m OK). rewrite Ee. left. reflexivity. }
    unfold ho, g, gd. rewrite (handle_dispatch m feat OK tm ev e pl w Hev Hs Ee').
    unfold lift_res. rewrite run_method_ref.
    destruct (ref_run _ _ _ _ _ _ _ _ _) as [[tr p] [res|]] eqn:Er; cbn [ro_res ro_trace ro_pend].
    + assert (Hno : forall t, res <> ROk t).
      { intros t ->. pose proof (ok_iff_all_pass m e tm pl w) as [Hok _]. rewrite run_method_ref, Er in Hok.
        specialize (Hok (ex_intro _ _ eq_refl)). rewrite (ref_run_all_pass _ _ _ _ _ _ _ _ _ Hok) in Er. discriminate. }
      assert (Hns : res <> RStuck /\ res <> RAbandoned).
      { destruct (all_pass (g_event e) w tm (hooks_of (g_hooks e)) 0) eqn:Ha.
        - rewrite (ref_run_all_pass _ _ _ _ _ _ _ _ _ Ha) in Er. discriminate.
        - destruct (first_fail _ _ _ _ _ Ha) as (l1 & k & n & l2 & EH & H1 & H2).
          rewrite EH, (ref_run_first_stop _ _ _ _ _ _ _ _ _ _ _ _ H1 H2) in Er. inversion Er; subst res.
          change (0 + length l1) with (length l1) in *.
          unfold stop_result, passb in *.
          destruct (an_val (w (length l1))) eqn:Ea; cbn [is_panic negb andb] in *;
            try (split; discriminate);
            (destruct (stop_of (g_event e) k tm n _) as [r0|] eqn:Es; [|discriminate];
             destruct k; cbn [stop_of] in Es; try discriminate;
             repeat match type of Es with
                    | context [if ?c then _ else _] => destruct c
                    end; try discriminate; inversion Es; subst r0; split; discriminate). }
      destruct res; cbn [ho_res ho_dyn]; repeat split; try discriminate; try (exfalso; eapply Hno; reflexivity);
        try (destruct Hns; congruence).
      * intros x _. pose proof (refused_intact m e tm pl w m0 e0) as R. rewrite run_method_ref, Er in R.
        destruct (R eq_refl) as (-> & _). reflexivity.
      * intros Hnd. exfalso. eapply Hnd. eapply edges_delta. exact Ee'.
      * intros Hnd. exfalso. eapply Hnd. eapply edges_delta. exact Ee'.
      * intros Hnd. exfalso. eapply Hnd. eapply edges_delta. exact Ee'.
    + cbn [ho_res ho_dyn]. repeat split; try discriminate.
      * intros _. eexists. split; [reflexivity|]. cbn [new_machine tm_state tm_ctx].
        repeat split; [eapply edges_delta; exact Ee'|eapply edge_target_leaf; exact Ee'].
      * intros Hnd. exfalso. eapply Hnd. eapply edges_delta. exact Ee'.
Qed.


(* ---------- histories (C01) ---------- *)

Definition delta_f (s ev : ident) : option ident :=
  match edges_for m s ev with [e] => Some (g_target e) | _ => None end.

Lemma delta_f_spec s ev t : delta_f s ev = Some t <-> delta items (m_events m) s ev t.
Proof.
  unfold delta_f. split.
  - destruct (edges_for m s ev) as [|e [|e2 r]] eqn:E; try discriminate.
    intros H. inversion H; subst. apply edges_delta. exact E.
  - intros H. destruct (delta_edges _ _ _ H) as (e & -> & <-). reflexivity.
Qed.

Definition step_t := (event * option nat * oracle)%type.

Fixpoint dyn_fold (dd : dyn) (steps : list step_t) : dyn * list (event * hres) :=
  match steps with
  | [] => (dd, [])
  | (ev, pl, w) :: r =>
      let ho := handle g gd dd (e_name ev) pl w None in
      let '(df, log) := dyn_fold (ho_dyn ho) r in (df, (ev, ho_res ho) :: log)
  end.

Definition returned (r : hres) : bool := match r with HOk | HErr _ => true | _ => false end.

(* the declared relation folded over the accepted events; a refused event is the identity *)
Fixpoint spec_fold (s : ident) (log : list (event * hres)) : ident :=
  match log with
  | [] => s
  | (ev, HOk) :: rest => spec_fold (match delta_f s (e_name ev) with Some t => t | None => s end) rest
  | (_, _) :: rest => spec_fold s rest
  end.

Theorem history_follows_delta : forall steps tm,
  In (tm_state tm) (leaves_of items) ->
  Forall (fun st => In (fst (fst st)) (m_events m)) steps ->
  let '(df, log) := dyn_fold (Build_dyn (Some tm)) steps in
  forallb (fun x => returned (snd x)) log = true ->
  exists tmf, df = Build_dyn (Some tmf) /\ tm_state tmf = spec_fold (tm_state tm) log
              /\ In (tm_state tmf) (leaves_of items) /\ tm_ctx tmf = tm_ctx tm.
Proof.
  induction steps as [|[[ev pl] w] r IH]; intros tm Hs Hf.
  - cbn. intros _. exists tm. repeat split. exact Hs.
  - inversion Hf as [|? ? Hev Hf']; subst. cbn [fst] in Hev. cbn [dyn_fold].
    destruct (handle_follows_delta tm ev pl w Hs Hev) as (Hok & Herr & _ & _).
    destruct (ho_res (handle g gd (Build_dyn (Some tm)) (e_name ev) pl w None)) eqn:Er.
    + destruct (Hok eq_refl) as (tm' & Ed & Hd & Hl & Hc). rewrite Ed.
      specialize (IH tm' Hl Hf').
      destruct (dyn_fold (Build_dyn (Some tm')) r) as [df log]. cbn [forallb snd returned andb spec_fold].
      intros Hret. destruct (IH Hret) as (tmf & E1 & E2 & E3 & E4).
      exists tmf. repeat split; [exact E1| |exact E3|congruence].
      apply delta_f_spec in Hd. rewrite Hd. exact E2.
    + rewrite (Herr _ eq_refl). specialize (IH tm Hs Hf').
      destruct (dyn_fold (Build_dyn (Some tm)) r) as [df log]. cbn [forallb snd returned andb spec_fold].
      exact IH.
    + destruct (dyn_fold _ r) as [df log]. cbn. discriminate.
    + destruct (dyn_fold _ r) as [df log]. cbn. discriminate.
    + destruct (dyn_fold _ r) as [df log]. cbn. discriminate.
    + destruct (dyn_fold _ r) as [df log]. cbn. discriminate.
    + destruct (dyn_fold _ r) as [df log]. cbn. discriminate.
Qed.

(* new(): the declared initial leaf *)
Lemma dyn_new_spec ctx :
  dyn_new g gd ctx = Some (Build_dyn (Some (Build_tmachine (m_initial m) ctx
      (map (fun fi => (fst fi, init_slot (snd fi))) (slot_inits m (m_initial m)))))).
Proof.
  unfold dyn_new, gd, gen_dyn. cbn [gd_initial]. unfold g.
  pose proof (vf_initial_leaf _ _ (validate_facts _ _ _ _ F)) as Hi. rewrite <- states_leaves in Hi.
  rewrite (typed_new_codegen _ _ _ _ Hi), String.eqb_refl. reflexivity.
Qed.

(* ---------- typed vs dynamic (C09) ---------- *)

Theorem typed_dynamic_equivalent tm ev pl w :
  In (tm_state tm) (leaves_of items) -> In ev (m_events m) ->
  match methods_of g (tm_state tm) (to_snake_case (e_name ev)) with
  | [gm] => handle g gd (Build_dyn (Some tm)) (e_name ev) pl w None
            = lift_res (Build_dyn (Some tm)) (tm_state tm) (run_method gm tm pl w None)
  | [] => handle g gd (Build_dyn (Some tm)) (e_name ev) pl w None
          = Build_handle_out (Build_dyn (Some tm)) [] 0 (HErr (DInvalid (tm_state tm) (e_name ev)))
  | _ => False
  end.
Proof.
  intros Hs Hev. rewrite <- states_leaves in Hs.
  destruct (edges_for m (tm_state tm) (e_name ev)) as [|e r] eqn:Ee.
  - assert (Hm : methods_of g (tm_state tm) (to_snake_case (e_name ev)) = []).
    { unfold g. rewrite (methods_of_codegen _ _ _ _ Hs), (snake_id _ (do_snake _ OK _ Hev)).
      destruct (filter _ _) as [|gm0 rr] eqn:Ef; [reflexivity|exfalso].
      assert (Hin : In gm0 (gm0 :: rr)) by (left; reflexivity). rewrite <- Ef in Hin.
      apply filter_In in Hin as [Hin Hn]. apply in_map_iff in Hin as (e0 & <- & He0).
      cbn [gen_method gm_name] in Hn. apply String.eqb_eq in Hn.
      assert (Hx : In (tm_state tm, e0) (m_graph m)) by (apply in_outgoing; exact He0).
      destruct (edge_event m OK _ _ Hx) as (evx & Hevx & Egx & _).
      rewrite Egx, (snake_id _ (do_snake _ OK _ Hevx)) in Hn.
      assert (Hin2 : In e0 (edges_for m (tm_state tm) (e_name ev))).
      { unfold edges_for. apply filter_In. split; [exact He0|]. rewrite Egx, Hn. apply String.eqb_refl. }
      rewrite Ee in Hin2. exact Hin2. }
    rewrite Hm. apply (handle_refused_invalid m feat OK); assumption.
  - assert (Ee' : edges_for m (tm_state tm) (e_name ev) = [e]).
    { apply (edges_for_unique m OK). rewrite Ee. left. reflexivity. }
    unfold g. rewrite (methods_for_edge m feat OK _ _ _ Hev Hs Ee').
    apply (handle_dispatch m feat OK); assumption.
Qed.

End Th.

(* ---------- fail-stop (C19): independent of the definition ---------- *)

Definition poisoned : dyn := Build_dyn None.

Lemma handle_outcomes g gd d ev pl w b :
  let ho := handle g gd d ev pl w b in
  match ho_res ho with
  | HOk => exists nm, ho_dyn ho = Build_dyn (Some nm)
  | HErr _ => exists old, ho_dyn ho = Build_dyn (Some old)
  | HPanicHook _ | HPanicAfter _ _ | HAbandoned => ho_dyn ho = poisoned /\ d_inner d <> None
  | HPanicInvalid => ho_dyn ho = d /\ d_inner d = None /\ ho_trace ho = []
  | HStuck => True
  end.
Proof.
  unfold handle. destruct (d_inner d) as [tm|] eqn:Ed.
  2:{ cbn. repeat split; assumption. }
  destruct (event_variant gd ev) as [[[v l] p]|]; [|exact I].
  destruct (find_arm gd (tm_state tm) v) as [a|].
  2:{ cbn. exists tm. destruct d; cbn in *; subst; reflexivity. }
  destruct (methods_of g (ga_src a) (ga_method a)) as [|gm [|gm2 r]]; try exact I.
  destruct (negb (Bool.eqb (ga_aw a) (gm_async gm))); [exact I|].
  destruct (ro_res (run_method gm tm (if ga_binds_pl a then pl else None) w b)) eqn:Er; cbn.
  - destruct (String.eqb _ _); cbn; [eexists; reflexivity|exact I].
  - destruct (String.eqb _ _); cbn; [eexists; reflexivity|exact I].
  - split; [reflexivity|discriminate].
  - split; [reflexivity|discriminate].
  - split; [reflexivity|discriminate].
  - exact I.
Qed.

Lemma poisoned_ops g gd ev pl w b a v s :
  handle g gd poisoned ev pl w b = Build_handle_out poisoned [] 0 HPanicInvalid /\
  current_state gd poisoned = None /\
  acc_read a poisoned = None /\
  acc_write a poisoned v = (poisoned, false) /\
  acc_set gd a poisoned v = (poisoned, Some (DWrongState (gc_state a) "<extracted>" (gc_set a))) /\
  into_state s poisoned = inr poisoned.
Proof. repeat split. Qed.

(* a decidable sufficient check for determinism of a concrete graph *)
Definition det_b (m : machine) : bool :=
  forallb (fun q => Nat.leb (length (filter (fun e => String.eqb (g_event e) (g_event (snd q)))
                                            (outgoing (m_graph m) (fst q)))) 1) (m_graph m).

Lemma det_b_sound m : det_b m = true -> graph_deterministic m.
Proof.
  intros H s ev. unfold det_b in H. rewrite forallb_forall in H.
  destruct (filter (fun e => String.eqb (g_event e) ev) (outgoing (m_graph m) s)) as [|e0 r] eqn:E; [cbn; lia|].
  assert (Hin : In e0 (filter (fun e => String.eqb (g_event e) ev) (outgoing (m_graph m) s))) by (rewrite E; left; reflexivity).
  apply filter_In in Hin as [Hin Heq]. apply String.eqb_eq in Heq.
  apply in_outgoing in Hin. specialize (H _ Hin). cbn [fst snd] in H. rewrite Heq in H.
  rewrite E in H. apply Nat.leb_le in H. exact H.
Qed.
