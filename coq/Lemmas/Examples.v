(* Examples.v -- a concrete, non-trivial definition used by the non-vacuity examples. *)
From Coq Require Import String List Bool Arith.
From SM Require Import Ident Ast Front Gir Codegen Sem Dyn Script Static.
Import ListNotations.
Open Scope string_scope.
Open Scope list_scope.

(* three levels, a superstate source, a superstate target with a declared initial, a self-loop,
   data on the initial state and on a nested leaf, hooks of every kind at both levels, a payload *)
Definition ex_defn : defn :=
  [MName "M"; MInitial "A"; MDynamic true;
   MStates [ILeaf "A" (Some "D0");
            ISuper "G" None [ILeaf "B" None;
                             ISuper "H" None [IInitial "D2"; ILeaf "C" None; ILeaf "D2" (Some "D1")]]];
   MEvents [Build_sevent "go" [EPayload "P"; EList KGuards ["g1"]; EList KUnless ["u1"]; EList KBefore ["b1"];
                               EList KAfter ["a1"]; EList KAround ["w1"];
                               ETransition [TFrom ["A"; "G"]; TTo "H"; TList KGuards ["g2"]; TList KAround ["w2"]]];
            Build_sevent "back" [ETransition [TFrom ["H"]; TTo "A"]];
            Build_sevent "stay" [ETransition [TFrom ["B"]; TTo "B"; TList KUnless ["u2"]]]]].

Definition ex_machine : machine :=
  Eval vm_compute in match front ex_defn with Ok m => m | Err _ => Build_machine "" "" None [] [] hier0 [] false false [] end.
Lemma ex_front : front ex_defn = Ok ex_machine.
Proof. vm_compute. reflexivity. Qed.

Definition ex_edge : edge :=
  Eval vm_compute in match outgoing (m_graph ex_machine) "A" with e :: _ => e | [] => Build_edge "" "" no_hooks None end.
Definition ex_self : tmachine := Build_tmachine "A" 7 [("__state_data_a", Some 5); ("__state_data_d2", None)].
Definition ex_gir : gir := Eval vm_compute in codegen ex_machine false.
Definition ex_gdyn : gdyn :=
  Eval vm_compute in match gr_dyn ex_gir with Some gd => gd
                     | None => Build_gdyn [] [] "" [] [] [] end.
