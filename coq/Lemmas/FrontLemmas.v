(* FrontLemmas.v -- the states parser computes the declarative forest functions of Spec.v. *)
From Coq Require Import String List Bool Arith Lia.
From SM Require Import Ident Ast Front Spec.
Import ListNotations.
Open Scope string_scope.
Open Scope list_scope.

Section ListUtil.
Context {A : Type}.
Lemma NoDup_app_intro (l1 l2 : list A) :
  NoDup l1 -> NoDup l2 -> (forall x, In x l1 -> In x l2 -> False) -> NoDup (l1 ++ l2).
Proof.
  induction l1 as [|a l1 IH]; intros N1 N2 D; [exact N2|].
  inversion N1 as [|? ? Ha N1']; subst. cbn. constructor.
  - intros Hin. apply in_app_or in Hin as [Hin|Hin]; [exact (Ha Hin)|].
    apply (D a); [left; reflexivity|exact Hin].
  - apply IH; [exact N1'|exact N2|]. intros x H1 H2. apply (D x); [right; exact H1|exact H2].
Qed.
Lemma NoDup_app_elim (l1 l2 : list A) :
  NoDup (l1 ++ l2) -> NoDup l1 /\ NoDup l2 /\ (forall x, In x l1 -> In x l2 -> False).
Proof.
  induction l1 as [|a l1 IH]; intros N.
  - repeat split; [constructor|exact N|intros x []].
  - cbn in N. inversion N as [|? ? Ha N']; subst. destruct (IH N') as (N1 & N2 & D).
    repeat split.
    + constructor; [|exact N1]. intros Hin. apply Ha. apply in_or_app. left. exact Hin.
    + exact N2.
    + intros x [->|H1] H2; [apply Ha; apply in_or_app; right; exact H2|exact (D x H1 H2)].
Qed.
End ListUtil.

Lemma mem_In x l : mem x l = true <-> In x l.
Proof.
  unfold mem. rewrite existsb_exists. split.
  - intros (y & Hy & E). apply String.eqb_eq in E. subst. exact Hy.
  - intros H. exists x. split; [exact H|apply String.eqb_refl].
Qed.
Lemma mem_false x l : mem x l = false <-> ~ In x l.
Proof. rewrite <- mem_In. destruct (mem x l); split; congruence. Qed.

Lemma fold_items_cons f x r a :
  fold_items f (x :: r) a = match f x a with Ok a' => fold_items f r a' | Err e => Err e end.
Proof. reflexivity. Qed.

Lemma parse_item_leaf anc n d acc :
  parse_item anc (ILeaf n d) acc =
  let st := b_st acc in
  if mem n (p_seen st) then Err EDuplicateState
  else Ok (Build_bacc
             (Build_pstate (p_leaves st ++ [n]) (n :: p_seen st)
                           (register_leaf n anc (p_hier st)) (push_storage n d (p_storage st)))
             (b_desc acc ++ [n]) (b_init acc)).
Proof. reflexivity. Qed.

Definition super_finish (n : ident) (acc inner : bacc) : result bacc :=
  match b_desc inner with
  | [] => Err EEmptySuper
  | first :: _ =>
      match (match b_init inner with
             | Some i => if mem i (b_desc inner) then Ok i else Err EInitNotDescendant
             | None => Ok first
             end) with
      | Err e => Err e
      | Ok i =>
          let sti := b_st inner in
          Ok (Build_bacc
                (Build_pstate (p_leaves sti) (p_seen sti)
                              (register_super n (b_desc inner) i (p_hier sti)) (p_storage sti))
                (b_desc acc ++ b_desc inner) (b_init acc))
      end
  end.

Definition super_start (n : ident) (d : option ty) (acc : bacc) : bacc :=
  let st := b_st acc in
  Build_bacc (Build_pstate (p_leaves st) (n :: p_seen st) (p_hier st) (push_storage n d (p_storage st))) [] None.

Lemma parse_item_super anc n d body acc :
  parse_item anc (ISuper n d body) acc =
  if mem n (p_seen (b_st acc)) then Err EDuplicateState
  else match fold_items (parse_item (anc ++ [n])) body (super_start n d acc) with
       | Err e => Err e
       | Ok inner => super_finish n acc inner
       end.
Proof. reflexivity. Qed.

(* ---------- leaves, descendants, seen, distinct names ---------- *)

Definition R1 (items : list sitem) (a a' : bacc) : Prop :=
  p_leaves (b_st a') = p_leaves (b_st a) ++ leaves_of items /\
  b_desc a' = b_desc a ++ leaves_of items /\
  p_seen (b_st a') = rev (names_of items) ++ p_seen (b_st a) /\
  NoDup (names_of items) /\
  (forall x, In x (names_of items) -> ~ In x (p_seen (b_st a))).

Definition P1 (it : sitem) : Prop :=
  forall anc a a', parse_item anc it a = Ok a' -> R1 [it] a a'.

Lemma R1_nil a : R1 [] a a.
Proof. unfold R1. cbn. rewrite !app_nil_r. repeat split; [constructor|intros x []]. Qed.

Lemma R1_cons x r a a1 a' : R1 [x] a a1 -> R1 r a1 a' -> R1 (x :: r) a a'.
Proof.
  intros (L1 & D1 & S1 & N1 & F1) (L2 & D2 & S2 & N2 & F2).
  unfold R1, leaves_of, names_of in *. cbn [flat_map] in *. rewrite app_nil_r in *.
  repeat split.
  - rewrite L2, L1, app_assoc. reflexivity.
  - rewrite D2, D1, app_assoc. reflexivity.
  - rewrite S2, S1, rev_app_distr, app_assoc. reflexivity.
  - apply NoDup_app_intro; [exact N1|exact N2|].
    intros y Hy1 Hy2. apply (F2 y Hy2). rewrite S1. apply in_or_app. left. apply in_rev in Hy1. exact Hy1.
  - intros y Hy. apply in_app_or in Hy as [Hy|Hy]; [apply F1; exact Hy|].
    intros Hin. apply (F2 y Hy). rewrite S1. apply in_or_app. right. exact Hin.
Qed.

Lemma fold_R1 items :
  Forall P1 items ->
  forall anc a a', fold_items (parse_item anc) items a = Ok a' -> R1 items a a'.
Proof.
  induction 1 as [|x r Hx Hr IH]; intros anc a a' H.
  - cbn in H. inversion H; subst. apply R1_nil.
  - rewrite fold_items_cons in H.
    destruct (parse_item anc x a) as [a1|] eqn:E; [|discriminate].
    eapply R1_cons; [eapply Hx; exact E|eapply IH; exact H].
Qed.

Lemma item_R1 : forall it, P1 it.
Proof.
  induction it as [n d|n d body IHb|n|k] using sitem_ind2; intros anc a a' H.
  - rewrite parse_item_leaf in H. cbv zeta in H.
    destruct (mem n (p_seen (b_st a))) eqn:Em; [discriminate|].
    inversion H; subst; clear H. unfold R1, leaves_of, names_of. cbn.
    apply mem_false in Em.
    repeat split; [constructor; [intros []|constructor]|].
    intros x [<-|[]]. exact Em.
  - rewrite parse_item_super in H.
    destruct (mem n (p_seen (b_st a))) eqn:Em; [discriminate|]. apply mem_false in Em.
    destruct (fold_items (parse_item (anc ++ [n])) body (super_start n d a)) as [inner|] eqn:Ef; [|discriminate].
    pose proof (fold_R1 body IHb _ _ _ Ef) as (L & D & S & N & F).
    unfold super_finish in H.
    destruct (b_desc inner) as [|first rest] eqn:Ed; [discriminate|].
    destruct (match b_init inner with
              | Some i => if mem i (first :: rest) then Ok i else Err EInitNotDescendant
              | None => Ok first end) as [i|]; [|discriminate].
    inversion H; subst; clear H.
    unfold super_start in *. cbn [b_st b_desc p_leaves p_seen] in *.
    unfold R1, leaves_of, names_of. cbn [flat_map leaves_of_item names_of_item b_st b_desc p_leaves p_seen].
    rewrite !app_nil_r. fold (leaves_of body) (names_of body).
    cbn [app] in D.
    repeat split.
    + exact L.
    + rewrite D. reflexivity.
    + rewrite S. cbn [rev]. rewrite <- app_assoc. reflexivity.
    + constructor; [|exact N]. intros Hin. apply (F n Hin). left. reflexivity.
    + intros x [<-|Hx]; [exact Em|]. intros Hin. apply (F x Hx). right. exact Hin.
  - cbn in H. destruct (is_nil anc); [discriminate|]. inversion H; subst. cbn.
    unfold R1, leaves_of, names_of. cbn. rewrite !app_nil_r. repeat split; [constructor|intros x []].
  - cbn in H. destruct (is_nil anc); discriminate.
Qed.

Lemma parse_R1 items anc a a' :
  fold_items (parse_item anc) items a = Ok a' -> R1 items a a'.
Proof. apply fold_R1. apply Forall_forall. intros x _. apply item_R1. Qed.

(* ---------- superstate lookup and initial children ---------- *)

Lemma find_super_item_super g n d body :
  find_super_item g (ISuper n d body) = if String.eqb g n then Some body else find_super g body.
Proof.
  cbn [find_super_item]. destruct (String.eqb g n); [reflexivity|].
  induction body as [|x r IH]; [reflexivity|]. cbn [find_super]. rewrite IH. reflexivity.
Qed.

Lemma find_super_names : forall items g b, find_super g items = Some b -> In g (names_of items).
Proof.
  assert (Hi : forall it, (fun it => forall g b, find_super_item g it = Some b -> In g (names_of_item it)) it).
  { induction it as [n d|n d body IHb|n|k] using sitem_ind2; intros g b H; try discriminate.
    rewrite find_super_item_super in H. cbn [names_of_item].
    destruct (String.eqb g n) eqn:E; [apply String.eqb_eq in E; left; congruence|].
    right. induction IHb as [|x r Hx Hr IH]; [discriminate|].
    cbn [find_super] in H. cbn [flat_map]. apply in_or_app.
    destruct (find_super_item g x) eqn:Ex; [left; eapply Hx; exact Ex|right; apply IH; exact H]. }
  induction items as [|x r IH]; intros g b H; [discriminate|].
  cbn [find_super] in H. unfold names_of. cbn [flat_map]. apply in_or_app.
  destruct (find_super_item g x) eqn:Ex; [left; eapply Hi; exact Ex|right; eapply IH; exact H].
Qed.

Definition R2 (items : list sitem) (a a' : bacc) : Prop :=
  (forall g, assoc g (h_lookup (p_hier (b_st a'))) =
             match find_super g items with
             | Some b => Some (leaves_of b)
             | None => assoc g (h_lookup (p_hier (b_st a)))
             end) /\
  (forall g, assoc g (h_initch (p_hier (b_st a'))) =
             match find_super g items with
             | Some b => Some (entry_leaf b)
             | None => assoc g (h_initch (p_hier (b_st a)))
             end) /\
  (forall g b, find_super g items = Some b -> leaves_of b <> [] /\ In (entry_leaf b) (leaves_of b)) /\
  b_init a' = match last_init items with Some i => Some i | None => b_init a end.

Definition P2 (it : sitem) : Prop :=
  forall anc a a', parse_item anc it a = Ok a' -> R2 [it] a a'.

Lemma R2_nil a : R2 [] a a.
Proof. unfold R2. cbn. repeat split; intros; discriminate. Qed.

Lemma find_super_single g x : find_super g [x] = find_super_item g x.
Proof. cbn. destruct (find_super_item g x); reflexivity. Qed.

Lemma last_init_cons x r :
  last_init (x :: r) = match last_init r with
                       | Some y => Some y
                       | None => last_init [x]
                       end.
Proof. destruct x; cbn; destruct (last_init r); reflexivity. Qed.

Lemma R2_cons x r a a1 a' :
  NoDup (names_of (x :: r)) ->
  R2 [x] a a1 -> R2 r a1 a' -> R2 (x :: r) a a'.
Proof.
  intros ND (K1 & I1 & V1 & B1) (K2 & I2 & V2 & B2).
  unfold names_of in ND. cbn [flat_map] in ND. apply NoDup_app_elim in ND as (_ & _ & Dj).
  assert (Hex : forall g b, find_super_item g x = Some b -> find_super g r = None).
  { intros g b Hx. destruct (find_super g r) as [b2|] eqn:Er; [|reflexivity]. exfalso.
    apply (Dj g).
    - rewrite <- find_super_single in Hx. apply find_super_names in Hx.
      unfold names_of in Hx. cbn in Hx. rewrite app_nil_r in Hx. exact Hx.
    - eapply find_super_names. exact Er. }
  repeat split.
  - intros g. rewrite K2, K1, find_super_single. cbn [find_super].
    destruct (find_super_item g x) as [b|] eqn:Ex; [rewrite (Hex _ _ Ex); reflexivity|reflexivity].
  - intros g. rewrite I2, I1, find_super_single. cbn [find_super].
    destruct (find_super_item g x) as [b|] eqn:Ex; [rewrite (Hex _ _ Ex); reflexivity|reflexivity].
  - cbn [find_super] in H. destruct (find_super_item g x) as [b1|] eqn:Ex.
    + inversion H; subst. rewrite <- find_super_single in Ex. apply (V1 _ _ Ex).
    + apply (V2 _ _ H).
  - cbn [find_super] in H. destruct (find_super_item g x) as [b1|] eqn:Ex.
    + inversion H; subst. rewrite <- find_super_single in Ex. apply (V1 _ _ Ex).
    + apply (V2 _ _ H).
  - rewrite B2, B1, (last_init_cons x r). destruct (last_init r); [reflexivity|].
    destruct (last_init [x]); reflexivity.
Qed.

Lemma fold_R2 items :
  Forall P2 items ->
  forall anc a a', fold_items (parse_item anc) items a = Ok a' -> R2 items a a'.
Proof.
  induction 1 as [|x r Hx Hr IH]; intros anc a a' H.
  - cbn in H. inversion H; subst. apply R2_nil.
  - pose proof (parse_R1 _ _ _ _ H) as (_ & _ & _ & ND & _).
    rewrite fold_items_cons in H.
    destruct (parse_item anc x a) as [a1|] eqn:E; [|discriminate].
    eapply R2_cons; [exact ND|eapply Hx; exact E|eapply IH; exact H].
Qed.

Lemma item_R2 : forall it, P2 it.
Proof.
  induction it as [n d|n d body IHb|n|k] using sitem_ind2; intros anc a a' H.
  - rewrite parse_item_leaf in H. cbv zeta in H.
    destruct (mem n (p_seen (b_st a))); [discriminate|].
    inversion H; subst; clear H. unfold R2. cbn [b_st p_hier b_init find_super find_super_item last_init].
    unfold register_leaf. destruct (is_nil anc); cbn [h_lookup h_initch];
      repeat split; intros; discriminate.
  - rewrite parse_item_super in H.
    destruct (mem n (p_seen (b_st a))) eqn:Em; [discriminate|].
    destruct (fold_items (parse_item (anc ++ [n])) body (super_start n d a)) as [inner|] eqn:Ef; [|discriminate].
    pose proof (parse_R1 _ _ _ _ Ef) as (L & D & S & N & F).
    pose proof (fold_R2 body IHb _ _ _ Ef) as (K & I & V & B).
    unfold super_finish in H.
    unfold super_start in D, K, I, B. cbn [b_st b_desc b_init p_hier app] in D, K, I, B.
    destruct (b_desc inner) as [|first rest] eqn:Ed; [discriminate|].
    rewrite B in H.
    assert (Hini : exists i, (match (match last_init body with Some i => Some i | None => @None ident end) with
              | Some i => if mem i (first :: rest) then Ok i else Err EInitNotDescendant
              | None => Ok first end) = Ok i /\ i = entry_leaf body /\ In i (leaves_of body)).
    { unfold entry_leaf. destruct (last_init body) as [i0|] eqn:El; rewrite ?El in H.
      - destruct (mem i0 (first :: rest)) eqn:Emi; [|discriminate].
        exists i0. repeat split. apply mem_In in Emi. rewrite <- D. exact Emi.
      - exists first. repeat split; [rewrite <- D; reflexivity|rewrite <- D; left; reflexivity]. }
    destruct Hini as (i & Ei & Hie & Hil). rewrite Ei in H.
    inversion H; subst a'; clear H.
    unfold R2. cbn [b_st p_hier b_init register_super h_lookup h_initch assoc].
    repeat split.
    + intros g. rewrite find_super_single, find_super_item_super.
      destruct (String.eqb g n); [rewrite D; reflexivity|apply K].
    + intros g. rewrite find_super_single, find_super_item_super.
      destruct (String.eqb g n); [rewrite Hie; reflexivity|apply I].
    + rewrite find_super_single, find_super_item_super in H.
      destruct (String.eqb g n); [inversion H; subst b; rewrite <- D; discriminate|apply (V _ _ H)].
    + rewrite find_super_single, find_super_item_super in H.
      destruct (String.eqb g n); [inversion H; subst b; rewrite <- Hie; exact Hil|apply (V _ _ H)].
  - cbn in H. destruct (is_nil anc); [discriminate|]. inversion H; subst.
    unfold R2. cbn. repeat split; intros; discriminate.
  - cbn in H. destruct (is_nil anc); discriminate.
Qed.

Lemma parse_R2 items anc a a' :
  fold_items (parse_item anc) items a = Ok a' -> R2 items a a'.
Proof. apply fold_R2. apply Forall_forall. intros x _. apply item_R2. Qed.

(* ---------- ancestor chains and storage ---------- *)

Lemma chain_item_super l n d body :
  chain_item l (ISuper n d body) = match chain_of l body with Some c => Some (n :: c) | None => None end.
Proof.
  cbn [chain_item].
  assert (E : (fix go (b : list sitem) : option (list ident) :=
                 match b with
                 | [] => None
                 | x :: r => match chain_item l x with Some c => Some c | None => go r end
                 end) body = chain_of l body).
  { induction body as [|x r IH]; [reflexivity|]. cbn [chain_of]. rewrite IH. reflexivity. }
  rewrite E. reflexivity.
Qed.

Lemma chain_of_leaf : forall items l c, chain_of l items = Some c -> In l (leaves_of items).
Proof.
  assert (Hi : forall it, (fun it => forall l c, chain_item l it = Some c -> In l (leaves_of_item it)) it).
  { induction it as [n d|n d body IHb|n|k] using sitem_ind2; intros l c H; try discriminate.
    - cbn in H. destruct (String.eqb l n) eqn:E; [|discriminate]. apply String.eqb_eq in E. left. congruence.
    - rewrite chain_item_super in H. destruct (chain_of l body) as [c0|] eqn:Ec; [|discriminate].
      cbn [leaves_of_item]. clear H. revert c0 Ec.
      induction IHb as [|x r Hx Hr IH]; intros c0 Ec; [discriminate|].
      cbn [chain_of] in Ec. cbn [flat_map]. apply in_or_app.
      destruct (chain_item l x) eqn:Ex; [left; eapply Hx; exact Ex|right; eapply IH; exact Ec]. }
  induction items as [|x r IH]; intros l c H; [discriminate|].
  cbn [chain_of] in H. unfold leaves_of. cbn [flat_map]. apply in_or_app.
  destruct (chain_item l x) eqn:Ex; [left; eapply Hi; exact Ex|right; eapply IH; exact H].
Qed.

Lemma leaves_in_names : forall items l, In l (leaves_of items) -> In l (names_of items).
Proof.
  assert (Hi : forall it, (fun it => forall l, In l (leaves_of_item it) -> In l (names_of_item it)) it).
  { induction it as [n d|n d body IHb|n|k] using sitem_ind2; intros l H; try (cbn in H; contradiction).
    - exact H.
    - cbn [leaves_of_item names_of_item] in *. right.
      induction IHb as [|x r Hx Hr IH]; [exact H|].
      cbn [flat_map] in *. apply in_app_or in H. apply in_or_app.
      destruct H as [H|H]; [left; apply Hx; exact H|right; apply IH; exact H]. }
  induction items as [|x r IH]; intros l H; [exact H|].
  unfold leaves_of, names_of in *. cbn [flat_map] in *. apply in_app_or in H. apply in_or_app.
  destruct H as [H|H]; [left; apply Hi; exact H|right; apply IH; exact H].
Qed.

Definition R3 (anc : list ident) (items : list sitem) (a a' : bacc) : Prop :=
  (forall l, assoc l (h_anc (p_hier (b_st a'))) =
             match chain_of l items with
             | Some c => if is_nil (anc ++ c) then assoc l (h_anc (p_hier (b_st a))) else Some (anc ++ c)
             | None => assoc l (h_anc (p_hier (b_st a)))
             end) /\
  p_storage (b_st a') = p_storage (b_st a)
                        ++ map (fun p => Build_storage_spec (fst p) (storage_field (fst p)) (snd p)) (data_of items).

Definition P3 (it : sitem) : Prop :=
  forall anc a a', parse_item anc it a = Ok a' -> R3 anc [it] a a'.

Lemma R3_nil anc a : R3 anc [] a a.
Proof. unfold R3. cbn. rewrite app_nil_r. split; reflexivity. Qed.

Lemma chain_of_single l x : chain_of l [x] = chain_item l x.
Proof. cbn. destruct (chain_item l x); reflexivity. Qed.

Lemma R3_cons anc x r a a1 a' :
  NoDup (names_of (x :: r)) ->
  R3 anc [x] a a1 -> R3 anc r a1 a' -> R3 anc (x :: r) a a'.
Proof.
  intros ND (A1 & S1) (A2 & S2).
  unfold names_of in ND. cbn [flat_map] in ND. apply NoDup_app_elim in ND as (_ & _ & Dj).
  split.
  - intros l. rewrite A2, A1, chain_of_single. cbn [chain_of].
    destruct (chain_item l x) as [c|] eqn:Ex; [|reflexivity].
    assert (Er : chain_of l r = None).
    { destruct (chain_of l r) as [c2|] eqn:Er; [|reflexivity]. exfalso. apply (Dj l).
      - rewrite <- chain_of_single in Ex. apply chain_of_leaf, leaves_in_names in Ex.
        unfold names_of in Ex. cbn in Ex. rewrite app_nil_r in Ex. exact Ex.
      - apply chain_of_leaf, leaves_in_names in Er. exact Er. }
    rewrite Er. reflexivity.
  - rewrite S2, S1. unfold data_of. cbn [flat_map]. rewrite app_nil_r, map_app, app_assoc. reflexivity.
Qed.

Lemma fold_R3 items :
  Forall P3 items ->
  forall anc a a', fold_items (parse_item anc) items a = Ok a' -> R3 anc items a a'.
Proof.
  induction 1 as [|x r Hx Hr IH]; intros anc a a' H.
  - cbn in H. inversion H; subst. apply R3_nil.
  - pose proof (parse_R1 _ _ _ _ H) as (_ & _ & _ & ND & _).
    rewrite fold_items_cons in H.
    destruct (parse_item anc x a) as [a1|] eqn:E; [|discriminate].
    eapply R3_cons; [exact ND|eapply Hx; exact E|eapply IH; exact H].
Qed.

Lemma is_nil_app_cons {A} (l : list A) x r : is_nil (l ++ x :: r) = false.
Proof. destruct l; reflexivity. Qed.

Lemma item_R3 : forall it, P3 it.
Proof.
  induction it as [n d|n d body IHb|n|k] using sitem_ind2; intros anc a a' H.
  - rewrite parse_item_leaf in H. cbv zeta in H.
    destruct (mem n (p_seen (b_st a))); [discriminate|].
    inversion H; subst; clear H. unfold R3. cbn [b_st p_hier p_storage].
    split.
    + intros l. rewrite chain_of_single. cbn [chain_item]. unfold register_leaf.
      destruct (is_nil anc) eqn:En.
      * destruct (String.eqb l n); [rewrite app_nil_r, En|]; reflexivity.
      * cbn [h_anc assoc]. destruct (String.eqb l n); [rewrite app_nil_r, En|]; reflexivity.
    + unfold push_storage, data_of. cbn. destruct d; cbn; [reflexivity|rewrite app_nil_r; reflexivity].
  - rewrite parse_item_super in H.
    destruct (mem n (p_seen (b_st a))) eqn:Em; [discriminate|].
    destruct (fold_items (parse_item (anc ++ [n])) body (super_start n d a)) as [inner|] eqn:Ef; [|discriminate].
    pose proof (fold_R3 body IHb _ _ _ Ef) as (A & S).
    unfold super_finish in H.
    destruct (b_desc inner) as [|first rest]; [discriminate|].
    destruct (match b_init inner with
              | Some i => if mem i (first :: rest) then Ok i else Err EInitNotDescendant
              | None => Ok first end) as [i|]; [|discriminate].
    inversion H; subst a'; clear H.
    unfold super_start in A, S. cbn [b_st p_hier p_storage] in A, S.
    unfold R3. cbn [b_st p_hier p_storage register_super h_anc].
    split.
    + intros l. rewrite A, chain_of_single, chain_item_super.
      destruct (chain_of l body) as [c|]; [|reflexivity].
      rewrite <- app_assoc. cbn [app]. rewrite !is_nil_app_cons. reflexivity.
    + rewrite S. unfold push_storage, data_of. cbn [flat_map data_of_item]. rewrite app_nil_r.
      destruct d; cbn [app map fst snd]; rewrite <- ?app_assoc; reflexivity.
  - cbn in H. destruct (is_nil anc); [discriminate|]. inversion H; subst.
    unfold R3. cbn. rewrite app_nil_r. split; reflexivity.
  - cbn in H. destruct (is_nil anc); discriminate.
Qed.

Lemma parse_R3 items anc a a' :
  fold_items (parse_item anc) items a = Ok a' -> R3 anc items a a'.
Proof. apply fold_R3. apply Forall_forall. intros x _. apply item_R3. Qed.

Lemma leaves_item_in_names x l : In l (leaves_of_item x) -> In l (names_of_item x).
Proof.
  intros H. pose proof (leaves_in_names [x] l) as G. unfold leaves_of, names_of in G. cbn in G.
  rewrite !app_nil_r in G. apply G. exact H.
Qed.
Lemma find_super_item_names x g b : find_super_item g x = Some b -> In g (names_of_item x).
Proof.
  intros H. rewrite <- find_super_single in H. apply find_super_names in H.
  unfold names_of in H. cbn in H. rewrite app_nil_r in H. exact H.
Qed.
