(* FrontRename.v -- the front end (parser, hierarchy, graph construction, validation) is natural in the
   identifiers of the definition: renaming every state, superstate, event, hook and the machine by an
   injective function that keeps event names snake_case (or not) turns the front end's result into the
   renamed result -- the same verdict, the same error, and on acceptance the renamed machine IR (with the
   data fields re-derived from the new state names).  The front end compares identifiers only for
   equality, and inspects the spelling of event names only through is_snake_case. *)
From Coq Require Import String Ascii List Bool Arith Lia.
From SM Require Import Ident Ast Front Gir Codegen Sem Dyn.
From SM.Lemmas Require Import RenameLemmas.
Import ListNotations.
Open Scope string_scope.
Open Scope list_scope.

Section FrontRename.
Variable f : ident -> ident.

(* ---------- the renaming, on definitions ---------- *)

Fixpoint rn_sitem (it : sitem) : sitem :=
  match it with
  | ILeaf n d => ILeaf (f n) d
  | ISuper n d body => ISuper (f n) d (map rn_sitem body)
  | IInitial n => IInitial (f n)
  | IUnknown k => IUnknown k
  end.
Definition rn_tentry (t : tentry) : tentry :=
  match t with
  | TFrom l => TFrom (map f l)
  | TTo t => TTo (f t)
  | TList k l => TList k (map f l)
  | TUnknownT k => TUnknownT k
  end.
Definition rn_eentry (e : eentry) : eentry :=
  match e with
  | EPayload t => EPayload t
  | EList k l => EList k (map f l)
  | ETransition es => ETransition (map rn_tentry es)
  | EUnknownE k => EUnknownE k
  end.
Definition rn_sevent (se : sevent) : sevent := Build_sevent (f (se_name se)) (map rn_eentry (se_entries se)).
Definition rn_mentry (e : mentry) : mentry :=
  match e with
  | MName n => MName (f n)
  | MInitial n => MInitial (f n)
  | MStates items => MStates (map rn_sitem items)
  | MEvents evs => MEvents (map rn_sevent evs)
  | other => other
  end.
Definition rn_defn (d : defn) : defn := map rn_mentry d.

(* ---------- the renaming, on the machine IR ---------- *)

Definition rn_hooks (h : hooks) : hooks :=
  Build_hooks (map f (h_guards h)) (map f (h_unless h)) (map f (h_before h)) (map f (h_after h)) (map f (h_around h)).
Definition rn_transition (t : transition) : transition :=
  Build_transition (map f (t_sources t)) (f (t_target t)) (rn_hooks (t_hooks t)).
Definition rn_event (ev : event) : event :=
  Build_event (f (e_name ev)) (e_payload ev) (map rn_transition (e_transitions ev)) (rn_hooks (e_hooks ev)).
(* the data field of a state is derived from its name: the renamed machine has the re-derived field *)
Definition rn_spec (sp : storage_spec) : storage_spec :=
  Build_storage_spec (f (ss_state sp)) (storage_field (f (ss_state sp))) (ss_ty sp).
Definition rn_kl (p : ident * list ident) : ident * list ident := (f (fst p), map f (snd p)).
Definition rn_kk (p : ident * ident) : ident * ident := (f (fst p), f (snd p)).
Definition rn_hier (h : hier) : hier :=
  Build_hier (map rn_kl (h_lookup h)) (map rn_kk (h_initch h)) (map rn_kl (h_anc h)).
Definition rn_pstate (ps : pstate) : pstate :=
  Build_pstate (map f (p_leaves ps)) (map f (p_seen ps)) (rn_hier (p_hier ps)) (map rn_spec (p_storage ps)).
Definition rn_bacc (a : bacc) : bacc := Build_bacc (rn_pstate (b_st a)) (map f (b_desc a)) (option_map f (b_init a)).
Definition rn_edge (e : edge) : edge := Build_edge (f (g_target e)) (f (g_event e)) (rn_hooks (g_hooks e)) (g_payload e).
Definition rn_ke (p : ident * edge) : ident * edge := (f (fst p), rn_edge (snd p)).
Definition rn_machine (m : machine) : machine :=
  Build_machine (f (m_name m)) (f (m_initial m)) (m_context m) (map f (m_states m)) (map rn_spec (m_storage m))
                (rn_hier (m_hier m)) (map rn_event (m_events m)) (m_async m) (m_dynamic m) (map rn_ke (m_graph m)).
Definition rn_result {A} (h : A -> A) (r : result A) : result A :=
  match r with Ok a => Ok (h a) | Err e => Err e end.

Hypothesis f_inj : injective f.
Hypothesis f_snake : forall x, is_snake_case (f x) = is_snake_case x.

Local Notation eqb_f := (eqb_inj f f_inj).
Local Notation mem_f := (mem_inj f f_inj).

Lemma is_nil_map {A B} (h : A -> B) (l : list A) : is_nil (map h l) = is_nil l.
Proof. destruct l; reflexivity. Qed.

Lemma assoc_gen {A B} (h : A -> B) (k : ident) (l : list (ident * A)) :
  assoc (f k) (map (fun p => (f (fst p), h (snd p))) l) = option_map h (assoc k l).
Proof.
  induction l as [|[a b] l IH]; [reflexivity|]. cbn [map assoc fst snd]. rewrite eqb_f.
  destruct (String.eqb k a); [reflexivity|exact IH].
Qed.

Lemma has_dup_map l : has_dup (map f l) = has_dup l.
Proof. induction l as [|x l IH]; [reflexivity|]. cbn [map has_dup]. rewrite mem_f, IH. reflexivity. Qed.

Lemma dedup_map l : dedup (map f l) = map f (dedup l).
Proof.
  induction l as [|x l IH]; [reflexivity|]. cbn [map dedup]. rewrite mem_f.
  destruct (mem x l); cbn [map]; rewrite IH; reflexivity.
Qed.

(* ---------- states section ---------- *)

Lemma push_storage_rn n d s : map rn_spec (push_storage n d s) = push_storage (f n) d (map rn_spec s).
Proof. destruct d as [t|]; [|reflexivity]. cbn [push_storage]. rewrite map_app. reflexivity. Qed.

Lemma register_leaf_rn n anc h : rn_hier (register_leaf n anc h) = register_leaf (f n) (map f anc) (rn_hier h).
Proof. unfold register_leaf. rewrite is_nil_map. destruct (is_nil anc); reflexivity. Qed.

Lemma register_super_rn n desc i h :
  rn_hier (register_super n desc i h) = register_super (f n) (map f desc) (f i) (rn_hier h).
Proof. reflexivity. Qed.

Lemma fold_items_rn (anc : list ident) (body : list sitem) :
  Forall (fun it => forall anc acc, parse_item (map f anc) (rn_sitem it) (rn_bacc acc)
                                    = rn_result rn_bacc (parse_item anc it acc)) body ->
  forall acc, fold_items (parse_item (map f anc)) (map rn_sitem body) (rn_bacc acc)
              = rn_result rn_bacc (fold_items (parse_item anc) body acc).
Proof.
  induction 1 as [|it body Hit _ IH]; intros acc; [reflexivity|].
  cbn [map fold_items]. rewrite Hit. destruct (parse_item anc it acc) as [a'|e]; cbn [rn_result]; [apply IH|reflexivity].
Qed.

Lemma parse_item_rn it : forall anc acc,
  parse_item (map f anc) (rn_sitem it) (rn_bacc acc) = rn_result rn_bacc (parse_item anc it acc).
Proof.
  induction it as [n d|n d body IHb|n|k] using sitem_ind2; intros anc [[lv sn hr stg] desc ini].
  - cbn [rn_sitem parse_item rn_bacc b_st b_desc b_init rn_pstate p_leaves p_seen p_hier p_storage]. rewrite mem_f.
    destruct (mem n sn); [reflexivity|]. unfold rn_result, rn_bacc, rn_pstate. cbn [b_st b_desc b_init p_leaves p_seen p_hier p_storage].
    rewrite !map_app, register_leaf_rn, push_storage_rn. reflexivity.
  - cbn [rn_sitem parse_item rn_bacc b_st b_desc b_init rn_pstate p_leaves p_seen p_hier p_storage]. rewrite mem_f.
    destruct (mem n sn); [reflexivity|].
    change (map f anc ++ [f n]) with (map f anc ++ map f [n]). rewrite <- map_app.
    match goal with |- context [fold_items _ _ ?a0] =>
      replace a0 with (rn_bacc (Build_bacc (Build_pstate lv (n :: sn) hr (push_storage n d stg)) [] None))
    end.
    2:{ unfold rn_bacc, rn_pstate. cbn. rewrite push_storage_rn. reflexivity. }
    rewrite (fold_items_rn (anc ++ [n]) body IHb).
    destruct (fold_items (parse_item (anc ++ [n])) body _) as [[[lv' sn' hr' stg'] desc' ini']|e]; cbn [rn_result]; [|reflexivity].
    cbn [rn_bacc b_desc b_init b_st rn_pstate p_leaves p_seen p_hier p_storage].
    destruct desc' as [|first rest]; cbn [map]; [reflexivity|].
    destruct ini' as [i|]; cbn [option_map].
    + change (f first :: map f rest) with (map f (first :: rest)). rewrite mem_f.
      destruct (mem i (first :: rest)); [|reflexivity].
      unfold rn_result, rn_bacc, rn_pstate. cbn [b_st b_desc b_init p_leaves p_seen p_hier p_storage].
      rewrite register_super_rn, map_app. reflexivity.
    + unfold rn_result, rn_bacc, rn_pstate. cbn [b_st b_desc b_init p_leaves p_seen p_hier p_storage].
      rewrite register_super_rn, map_app. reflexivity.
  - cbn [rn_sitem parse_item]. rewrite is_nil_map. destruct (is_nil anc); reflexivity.
  - cbn [rn_sitem parse_item]. rewrite is_nil_map. destruct (is_nil anc); reflexivity.
Qed.

Lemma parse_states_rn items : parse_states (map rn_sitem items) = rn_result rn_pstate (parse_states items).
Proof.
  unfold parse_states.
  change (Build_bacc pstate0 [] None) with (rn_bacc (Build_bacc pstate0 [] None)) at 1.
  change (@nil ident) with (map f []) at 1.
  rewrite (fold_items_rn [] items).
  - destruct (fold_items (parse_item []) items _); reflexivity.
  - apply Forall_forall. intros it _. apply parse_item_rn.
Qed.

(* ---------- hierarchy queries ---------- *)

Lemma is_superstate_rn h x : is_superstate (rn_hier h) (f x) = is_superstate h x.
Proof.
  unfold is_superstate. cbn [rn_hier h_lookup]. unfold rn_kl. rewrite (assoc_gen (map f)).
  destruct (assoc x (h_lookup h)); reflexivity.
Qed.

Lemma expand_state_rn h leaves x : expand_state (rn_hier h) (map f leaves) (f x) = map f (expand_state h leaves x).
Proof.
  unfold expand_state. cbn [rn_hier h_lookup]. unfold rn_kl. rewrite (assoc_gen (map f)).
  destruct (assoc x (h_lookup h)); cbn [option_map]; [reflexivity|]. rewrite mem_f.
  destruct (mem x leaves); reflexivity.
Qed.

Lemma initial_child_rn h x : initial_child (rn_hier h) (f x) = option_map f (initial_child h x).
Proof.
  unfold initial_child. cbn [rn_hier h_lookup h_initch]. unfold rn_kl, rn_kk.
  rewrite (assoc_gen f), (assoc_gen (map f)).
  destruct (assoc x (h_initch h)); cbn [option_map]; [reflexivity|].
  destruct (assoc x (h_lookup h)) as [[|a l]|]; reflexivity.
Qed.

Lemma resolve_target_rn h x : resolve_target (rn_hier h) (f x) = option_map f (resolve_target h x).
Proof.
  unfold resolve_target. rewrite is_superstate_rn. destruct (is_superstate h x); [apply initial_child_rn|reflexivity].
Qed.

Lemma all_superstates_rn h : all_superstates (rn_hier h) = map f (all_superstates h).
Proof.
  unfold all_superstates. cbn [rn_hier h_lookup]. rewrite map_map. cbn [rn_kl fst].
  rewrite <- (map_map fst f). apply dedup_map.
Qed.

(* ---------- events section ---------- *)

Lemma set_hook_rn k l h : rn_hooks (set_hook k l h) = set_hook k (map f l) (rn_hooks h).
Proof. destruct k; reflexivity. Qed.

Lemma merge_hooks_rn a b : rn_hooks (merge_hooks a b) = merge_hooks (rn_hooks a) (rn_hooks b).
Proof. unfold merge_hooks, rn_hooks. cbn. rewrite !map_app. reflexivity. Qed.

Definition rn_tacc (a : tacc) : tacc :=
  Build_tacc (option_map (map f) (ta_from a)) (option_map f (ta_to a)) (rn_hooks (ta_hooks a)).

Lemma parse_tentries_rn es : forall a,
  parse_tentries (map rn_tentry es) (rn_tacc a) = rn_result rn_tacc (parse_tentries es a).
Proof.
  induction es as [|e es IH]; intros a; [reflexivity|].
  destruct e as [l|t|k l|k]; cbn [map rn_tentry parse_tentries]; try reflexivity.
  - rewrite <- IH. reflexivity.
  - rewrite <- IH. reflexivity.
  - rewrite <- IH. unfold rn_tacc. cbn [ta_from ta_to ta_hooks]. rewrite set_hook_rn. reflexivity.
Qed.

Lemma parse_transition_rn es : parse_transition (map rn_tentry es) = rn_result rn_transition (parse_transition es).
Proof.
  unfold parse_transition.
  change (Build_tacc None None no_hooks) with (rn_tacc (Build_tacc None None no_hooks)) at 1.
  rewrite parse_tentries_rn. destruct (parse_tentries es _) as [a|e]; cbn [rn_result]; [|reflexivity].
  cbn [rn_tacc ta_from ta_to ta_hooks].
  destruct (ta_from a); cbn [option_map]; [|reflexivity].
  destruct (ta_to a); reflexivity.
Qed.

Lemma parse_eentries_rn es : forall ev,
  parse_eentries (map rn_eentry es) (rn_event ev) = rn_result rn_event (parse_eentries es ev).
Proof.
  induction es as [|e es IH]; intros ev; [reflexivity|].
  destruct e as [t|k l|ts|k]; cbn [map rn_eentry parse_eentries]; try reflexivity.
  - rewrite <- IH. reflexivity.
  - rewrite <- IH. unfold rn_event. cbn [e_name e_payload e_transitions e_hooks]. rewrite set_hook_rn. reflexivity.
  - rewrite parse_transition_rn. destruct (parse_transition ts) as [t|e]; cbn [rn_result]; [|reflexivity].
    rewrite <- IH. unfold rn_event. cbn [e_name e_payload e_transitions e_hooks]. rewrite map_app. reflexivity.
Qed.

Lemma parse_event_rn se : parse_event (rn_sevent se) = rn_result rn_event (parse_event se).
Proof.
  unfold parse_event. cbn [rn_sevent se_name se_entries].
  change (Build_event (f (se_name se)) None [] no_hooks) with (rn_event (Build_event (se_name se) None [] no_hooks)).
  apply parse_eentries_rn.
Qed.

Lemma parse_events_rn l : parse_events (map rn_sevent l) = rn_result (map rn_event) (parse_events l).
Proof.
  induction l as [|se l IH]; [reflexivity|]. cbn [map parse_events]. rewrite parse_event_rn, IH.
  destruct (parse_event se); cbn [rn_result]; [|reflexivity].
  destruct (parse_events l); reflexivity.
Qed.

(* ---------- graph ---------- *)

Lemma flat_map_map {A B C} (g : A -> B) (h : B -> list C) (l : list A) :
  flat_map h (map g l) = flat_map (fun x => h (g x)) l.
Proof. induction l as [|x l IH]; [reflexivity|]. cbn [map flat_map]. rewrite IH. reflexivity. Qed.

Lemma map_flat_map {A B C} (g : B -> C) (h : A -> list B) (l : list A) :
  map g (flat_map h l) = flat_map (fun x => map g (h x)) l.
Proof. induction l as [|x l IH]; [reflexivity|]. cbn [flat_map]. rewrite map_app, IH. reflexivity. Qed.

Lemma flat_map_ext' {A B} (g h : A -> list B) (l : list A) :
  (forall x, g x = h x) -> flat_map g l = flat_map h l.
Proof. intros E. induction l as [|x l IH]; [reflexivity|]. cbn [flat_map]. rewrite E, IH. reflexivity. Qed.

Lemma edges_of_transition_rn h leaves ev t :
  edges_of_transition (rn_hier h) (map f leaves) (rn_event ev) (rn_transition t)
  = map rn_ke (edges_of_transition h leaves ev t).
Proof.
  unfold edges_of_transition. cbn [rn_transition t_sources t_target t_hooks rn_event e_name e_hooks e_payload].
  rewrite flat_map_map, map_flat_map. apply flat_map_ext'. intros src.
  rewrite expand_state_rn, !map_map. apply map_ext. intros s.
  unfold rn_ke, rn_edge. cbn [fst snd g_target g_event g_hooks g_payload].
  rewrite resolve_target_rn, merge_hooks_rn.
  destruct (resolve_target h (t_target t)); reflexivity.
Qed.

Lemma build_graph_rn h leaves evs :
  build_graph (rn_hier h) (map f leaves) (map rn_event evs) = map rn_ke (build_graph h leaves evs).
Proof.
  unfold build_graph. rewrite flat_map_map, map_flat_map. apply flat_map_ext'. intros ev.
  cbn [rn_event e_transitions]. rewrite flat_map_map, map_flat_map. apply flat_map_ext'. intros t.
  apply (edges_of_transition_rn h leaves ev t).
Qed.

(* ---------- top level ---------- *)

Definition rn_macc (a : macc) : macc :=
  Build_macc (option_map f (a_name a)) (option_map f (a_initial a)) (a_context a)
             (option_map rn_pstate (a_states a)) (option_map (map rn_event) (a_events a)) (a_async a) (a_dynamic a).

Lemma parse_entries_rn es : forall a,
  parse_entries (map rn_mentry es) (rn_macc a) = rn_result rn_macc (parse_entries es a).
Proof.
  induction es as [|e es IH]; intros a; [reflexivity|].
  destruct e as [n|n|t|b|b|items|evs|k|k]; cbn [map rn_mentry parse_entries]; try (rewrite <- IH; reflexivity); try reflexivity.
  - rewrite parse_states_rn. destruct (parse_states items); cbn [rn_result]; [rewrite <- IH|]; reflexivity.
  - rewrite parse_events_rn. destruct (parse_events evs); cbn [rn_result]; [rewrite <- IH|]; reflexivity.
Qed.

Lemma parse_machine_rn d : parse_machine (rn_defn d) = rn_result rn_machine (parse_machine d).
Proof.
  unfold parse_machine, rn_defn.
  change macc0 with (rn_macc macc0) at 1. rewrite parse_entries_rn.
  destruct (parse_entries d macc0) as [a|e]; cbn [rn_result]; [|reflexivity].
  cbn [rn_macc a_name a_initial a_states a_events a_context a_async a_dynamic].
  destruct (a_name a); cbn [option_map]; [|reflexivity].
  destruct (a_initial a); cbn [option_map]; [|reflexivity].
  destruct (a_states a) as [ps|]; cbn [option_map]; [|reflexivity].
  cbn [rn_result]. f_equal. unfold rn_machine.
  cbn [m_name m_initial m_context m_states m_storage m_hier m_events m_async m_dynamic m_graph
       rn_pstate p_leaves p_storage p_hier].
  destruct (a_events a) as [l|]; cbn [option_map]; rewrite <- build_graph_rn; reflexivity.
Qed.

Lemma validate_all_rn {A} (h : A -> A) (g g' : A -> result unit) (l : list A) :
  (forall x, g' (h x) = g x) -> validate_all g' (map h l) = validate_all g l.
Proof.
  intros E. induction l as [|x l IH]; [reflexivity|]. cbn [map validate_all]. rewrite E, IH. reflexivity.
Qed.

Lemma validate_source_rn m src : validate_source (rn_machine m) (f src) = validate_source m src.
Proof.
  unfold validate_source. cbn [rn_machine m_states m_hier]. rewrite mem_f, is_superstate_rn, expand_state_rn, is_nil_map.
  reflexivity.
Qed.

Lemma validate_transition_rn m t : validate_transition (rn_machine m) (rn_transition t) = validate_transition m t.
Proof.
  unfold validate_transition. cbn [rn_transition t_sources t_target]. rewrite is_nil_map.
  destruct (is_nil (t_sources t)); [reflexivity|].
  change (m_hier (rn_machine m)) with (rn_hier (m_hier m)). rewrite is_superstate_rn, resolve_target_rn.
  change (m_states (rn_machine m)) with (map f (m_states m)).
  destruct (is_superstate (m_hier m) (t_target t)).
  - destruct (resolve_target (m_hier m) (t_target t)) as [r|]; cbn [option_map]; [|reflexivity].
    rewrite mem_f. destruct (negb (mem r (m_states m))); [reflexivity|].
    apply validate_all_rn. intros x. apply validate_source_rn.
  - rewrite mem_f. destruct (negb (mem (t_target t) (m_states m))); [reflexivity|].
    apply validate_all_rn. intros x. apply validate_source_rn.
Qed.

Lemma validate_event_rn m ev : validate_event (rn_machine m) (rn_event ev) = validate_event m ev.
Proof.
  unfold validate_event. cbn [rn_event e_name e_transitions]. rewrite f_snake, is_nil_map.
  destruct (negb (is_snake_case (e_name ev))); [reflexivity|].
  destruct (is_nil (e_transitions ev)); [reflexivity|].
  apply validate_all_rn. intros t. apply validate_transition_rn.
Qed.

Lemma validate_rn m : validate (rn_machine m) = validate m.
Proof.
  unfold validate. change (m_hier (rn_machine m)) with (rn_hier (m_hier m)).
  change (m_initial (rn_machine m)) with (f (m_initial m)). change (m_states (rn_machine m)) with (map f (m_states m)).
  change (m_events (rn_machine m)) with (map rn_event (m_events m)).
  rewrite is_superstate_rn, mem_f, has_dup_map.
  destruct (is_superstate (m_hier m) (m_initial m)); [reflexivity|].
  destruct (negb (mem (m_initial m) (m_states m))); [reflexivity|].
  destruct (has_dup (m_states m)); [reflexivity|].
  apply validate_all_rn. intros ev. apply validate_event_rn.
Qed.

Theorem front_rn d : front (rn_defn d) = rn_result rn_machine (front d).
Proof.
  unfold front. rewrite parse_machine_rn. destruct (parse_machine d) as [m|e]; cbn [rn_result]; [|reflexivity].
  rewrite validate_rn. destruct (validate m); reflexivity.
Qed.

End FrontRename.

(* a renaming that meets the hypotheses and moves identifiers: a finite permutation *)
Definition swap2 (a b c d : ident) (x : ident) : ident :=
  if String.eqb x a then b else if String.eqb x b then a else
  if String.eqb x c then d else if String.eqb x d then c else x.
