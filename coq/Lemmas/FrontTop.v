(* FrontTop.v -- what an accepted states section means: hierarchy queries and the graph compute the
   declarative functions of Spec.v. *)
From Coq Require Import String List Bool Arith Lia.
From SM Require Import Ident Ast Front Spec.
From SM.Lemmas Require Import FrontLemmas.
Import ListNotations.
Open Scope string_scope.
Open Scope list_scope.

Section States.
Variable items : list sitem.
Variable ps : pstate.
Hypothesis Hparse : parse_states items = Ok ps.

Lemma parse_states_fold :
  exists a', fold_items (parse_item []) items (Build_bacc pstate0 [] None) = Ok a' /\ ps = b_st a'.
Proof.
  unfold parse_states in Hparse.
  destruct (fold_items (parse_item []) items (Build_bacc pstate0 [] None)) as [a'|] eqn:E; [|discriminate].
  exists a'. split; [reflexivity|]. inversion Hparse. reflexivity.
Qed.

Lemma ps_leaves : p_leaves ps = leaves_of items.
Proof.
  destruct parse_states_fold as (a' & Hf & ->).
  pose proof (parse_R1 _ _ _ _ Hf) as (L & _). exact L.
Qed.

Lemma ps_names_nodup : NoDup (names_of items).
Proof.
  destruct parse_states_fold as (a' & Hf & ->).
  pose proof (parse_R1 _ _ _ _ Hf) as (_ & _ & _ & N & _). exact N.
Qed.

Lemma ps_lookup g :
  assoc g (h_lookup (p_hier ps)) = match find_super g items with Some b => Some (leaves_of b) | None => None end.
Proof.
  destruct parse_states_fold as (a' & Hf & ->).
  pose proof (parse_R2 _ _ _ _ Hf) as (K & _). rewrite K. reflexivity.
Qed.

Lemma ps_initch g :
  assoc g (h_initch (p_hier ps)) = match find_super g items with Some b => Some (entry_leaf b) | None => None end.
Proof.
  destruct parse_states_fold as (a' & Hf & ->).
  pose proof (parse_R2 _ _ _ _ Hf) as (_ & I & _). rewrite I. reflexivity.
Qed.

Lemma ps_super_valid g b :
  find_super g items = Some b -> leaves_of b <> [] /\ In (entry_leaf b) (leaves_of b).
Proof.
  destruct parse_states_fold as (a' & Hf & ->).
  pose proof (parse_R2 _ _ _ _ Hf) as (_ & _ & V & _). apply V.
Qed.

Lemma ps_anc l :
  assoc l (h_anc (p_hier ps)) =
  match chain_of l items with
  | Some c => if is_nil c then None else Some c
  | None => None
  end.
Proof.
  destruct parse_states_fold as (a' & Hf & ->).
  pose proof (parse_R3 _ _ _ _ Hf) as (A & _). rewrite A. reflexivity.
Qed.

Lemma ps_storage :
  p_storage ps = map (fun p => Build_storage_spec (fst p) (storage_field (fst p)) (snd p)) (data_of items).
Proof.
  destruct parse_states_fold as (a' & Hf & ->).
  pose proof (parse_R3 _ _ _ _ Hf) as (_ & S). rewrite S. reflexivity.
Qed.

(* ---------- Hierarchy queries ---------- *)

Lemma is_superstate_spec x :
  is_superstate (p_hier ps) x = match find_super x items with Some _ => true | None => false end.
Proof. unfold is_superstate. rewrite ps_lookup. destruct (find_super x items); reflexivity. Qed.

(* a transition source stands for: all nested leaves of a superstate, in declaration order; the leaf
   itself; nothing for an undeclared name *)
Lemma expand_state_spec x :
  expand_state (p_hier ps) (p_leaves ps) x = leaves_under items x.
Proof.
  unfold expand_state, leaves_under. rewrite ps_lookup, ps_leaves.
  destruct (find_super x items); reflexivity.
Qed.

(* a transition target stands for: the declared initial leaf of a superstate, else its first leaf;
   the name itself otherwise *)
Lemma resolve_target_spec x :
  resolve_target (p_hier ps) x = Some (entry_of items x).
Proof.
  unfold resolve_target, entry_of, initial_child. rewrite is_superstate_spec, ps_initch.
  destruct (find_super x items); reflexivity.
Qed.

(* a leaf is never a superstate name *)
Lemma leaf_not_super l : In l (leaves_of items) -> find_super l items = None.
Proof.
  intros Hl. destruct (find_super l items) as [b|] eqn:E; [|reflexivity]. exfalso.
  (* l would occur twice among the names: once as the superstate, once as a leaf *)
  revert Hl E. generalize ps_names_nodup. clear Hparse.
  assert (Hi : forall it, (fun it => forall l b, NoDup (names_of_item it) -> In l (leaves_of_item it) ->
                                     find_super_item l it = Some b -> False) it).
  { induction it as [n d|n d body IHb|n|k] using sitem_ind2; intros l0 b0 ND Hl E; try discriminate.
    rewrite find_super_item_super in E. cbn [names_of_item leaves_of_item] in *.
    inversion ND as [|? ? Hn ND']; subst.
    destruct (String.eqb l0 n) eqn:En.
    - apply String.eqb_eq in En. subst l0. apply Hn. apply (leaves_in_names body). exact Hl.
    - clear En Hn ND. revert Hl E ND'. fold (leaves_of body) (names_of body).
      induction IHb as [|x r Hx Hr IH]; intros Hl E ND'; [discriminate|].
      unfold leaves_of, names_of in *. cbn [flat_map find_super] in *.
      apply NoDup_app_elim in ND' as (N1 & N2 & Dj).
      apply in_app_or in Hl.
      destruct (find_super_item l0 x) as [bb|] eqn:Ex.
      + destruct Hl as [Hl|Hl]; [exact (Hx _ _ N1 Hl Ex)|].
        apply (Dj l0); [eapply find_super_item_names; exact Ex|apply (leaves_in_names r); exact Hl].
      + destruct Hl as [Hl|Hl]; [|exact (IH Hl E N2)].
        apply (Dj l0); [apply leaves_item_in_names; exact Hl|eapply find_super_names; exact E]. }
  induction items as [|x r IH]; intros ND Hl E; [discriminate|].
  unfold leaves_of, names_of in *. cbn [flat_map find_super] in *.
  apply NoDup_app_elim in ND as (N1 & N2 & Dj). apply in_app_or in Hl.
  destruct (find_super_item l x) as [bb|] eqn:Ex.
  - destruct Hl as [Hl|Hl]; [exact (Hi _ _ _ N1 Hl Ex)|].
    apply (Dj l); [eapply find_super_item_names; exact Ex|apply (leaves_in_names r); exact Hl].
  - destruct Hl as [Hl|Hl]; [|exact (IH N2 Hl E)].
    apply (Dj l); [apply leaves_item_in_names; exact Hl|eapply find_super_names; exact E].
Qed.

Lemma expand_leaf l : In l (leaves_of items) -> expand_state (p_hier ps) (p_leaves ps) l = [l].
Proof.
  intros Hl. rewrite expand_state_spec. unfold leaves_under. rewrite (leaf_not_super _ Hl).
  apply mem_In in Hl. rewrite Hl. reflexivity.
Qed.

Lemma resolve_leaf l : In l (leaves_of items) -> resolve_target (p_hier ps) l = Some l.
Proof.
  intros Hl. rewrite resolve_target_spec. unfold entry_of. rewrite (leaf_not_super _ Hl). reflexivity.
Qed.

End States.

(* ---------- top level ---------- *)

Definition orelse {A} (x y : option A) : option A := match x with Some _ => x | None => y end.

Lemma parse_entries_spec d : forall a0 a,
  parse_entries d a0 = Ok a ->
  a_name a = orelse (d_name d) (a_name a0) /\
  a_initial a = orelse (d_initial d) (a_initial a0) /\
  a_context a = orelse (d_context d) (a_context a0) /\
  a_async a = match d_async_opt d with Some b => b | None => a_async a0 end /\
  a_dynamic a = match d_dynamic_opt d with Some b => b | None => a_dynamic a0 end /\
  match d_states d with
  | Some items => exists ps, parse_states items = Ok ps /\ a_states a = Some ps
  | None => a_states a = a_states a0
  end /\
  match d_sevents d with
  | Some sevs => exists evs, parse_events sevs = Ok evs /\ a_events a = Some evs
  | None => a_events a = a_events a0
  end /\
  (forall k, ~ In (MUnknown k) d) /\
  (forall items, In (MStates items) d -> exists ps, parse_states items = Ok ps) /\
  (forall sevs, In (MEvents sevs) d -> exists evs, parse_events sevs = Ok evs).
Proof.
  induction d as [|en r IH]; intros a0 a H.
  - cbn in H. inversion H; subst. cbn. repeat split; try (intros ? []); intros; contradiction.
  - cbn [parse_entries] in H.
    unfold d_name, d_initial, d_context, d_async_opt, d_dynamic_opt, d_states, d_sevents. cbn [d_get].
    fold (d_name r) (d_initial r) (d_context r) (d_async_opt r) (d_dynamic_opt r) (d_states r) (d_sevents r).
    destruct en as [n|n|t|b|b|items|sevs|k|k]; try discriminate;
      try (destruct (parse_states items) as [ps0|] eqn:Eps; [|discriminate]);
      try (destruct (parse_events sevs) as [evs0|] eqn:Eev; [|discriminate]);
      destruct (IH _ _ H) as (N & I & C & A & Dy & S & E & U & AS & AE);
      cbn [a_name a_initial a_context a_async a_dynamic a_states a_events] in *;
      (split; [rewrite N; destruct (d_name r); reflexivity|]);
      (split; [rewrite I; destruct (d_initial r); reflexivity|]);
      (split; [rewrite C; destruct (d_context r); reflexivity|]);
      (split; [rewrite A; destruct (d_async_opt r); reflexivity|]);
      (split; [rewrite Dy; destruct (d_dynamic_opt r); reflexivity|]);
      (split; [destruct (d_states r); [exact S|]; first [exact S | eexists; split; [exact Eps|exact S]]|]);
      (split; [destruct (d_sevents r); [exact E|]; first [exact E | eexists; split; [exact Eev|exact E]]|]);
      (split; [intros k0 [Hk|Hk]; [discriminate|exact (U _ Hk)]|]);
      (split; [intros it [Hk|Hk]; [first [discriminate | inversion Hk; subst; eexists; exact Eps]|exact (AS _ Hk)]
              |intros se [Hk|Hk]; [first [discriminate | inversion Hk; subst; eexists; exact Eev]|exact (AE _ Hk)]]).
Qed.

Record front_facts (d : defn) (m : machine) (ff_items : list sitem) (ff_ps : pstate) : Prop := {
  ff_states : d_states d = Some ff_items;
  ff_parse : parse_states ff_items = Ok ff_ps;
  ff_name : d_name d = Some (m_name m);
  ff_initial : d_initial d = Some (m_initial m);
  ff_context : m_context m = d_context d;
  ff_async : m_async m = d_async d;
  ff_dynamic : m_dynamic m = d_dynamic d;
  ff_leaves : m_states m = leaves_of ff_items;
  ff_hier : m_hier m = p_hier ff_ps;
  ff_storage : m_storage m = p_storage ff_ps;
  ff_events : match d_sevents d with
              | Some sevs => parse_events sevs = Ok (m_events m)
              | None => m_events m = []
              end;
  ff_graph : m_graph m = build_graph (m_hier m) (m_states m) (m_events m);
  ff_valid : validate m = Ok tt;
  ff_no_unknown : forall k, ~ In (MUnknown k) d;
  ff_all_states : forall items, In (MStates items) d -> exists ps, parse_states items = Ok ps;
  ff_all_events : forall sevs, In (MEvents sevs) d -> exists evs, parse_events sevs = Ok evs }.

Lemma front_spec d m : front d = Ok m -> exists items ps, front_facts d m items ps.
Proof.
  unfold front, parse_machine. intros H.
  destruct (parse_entries d macc0) as [a|] eqn:Ea; [|discriminate].
  destruct (parse_entries_spec _ _ _ Ea) as (N & I & C & A & Dy & S & E & U & AS & AE).
  cbn [macc0 a_name a_initial a_context a_async a_dynamic a_states a_events orelse] in *.
  destruct (a_name a) as [nm|] eqn:En; [|discriminate].
  destruct (a_initial a) as [ini|] eqn:Ei; [|discriminate].
  destruct (a_states a) as [ps|] eqn:Es; [|discriminate].
  cbn iota beta in H.
  match type of H with context [validate ?mm] => destruct (validate mm) as [[]|] eqn:Ev end; [|discriminate].
  inversion H; subst m; clear H.
  destruct (d_states d) as [items|] eqn:Eds; [|discriminate].
  destruct S as (ps' & Hps & Eps). inversion Eps; subst ps'.
  exists items, ps.
  refine (Build_front_facts d _ items ps Eds Hps _ _ _ _ _ _ _ _ _ _ Ev U AS AE); cbn.
  - destruct (d_name d); cbn in N; [congruence|discriminate].
  - destruct (d_initial d); cbn in I; [congruence|discriminate].
  - destruct (d_context d); cbn in C; exact C.
  - unfold d_async. exact A.
  - unfold d_dynamic. exact Dy.
  - apply ps_leaves. exact Hps.
  - reflexivity.
  - reflexivity.
  - destruct (d_sevents d) as [sevs|].
    + destruct E as (evs & Hev & Eev). rewrite Eev. exact Hev.
    + rewrite E. reflexivity.
  - reflexivity.
Qed.

(* ---------- the graph is the declared transition relation ---------- *)

Lemma in_build_graph h leaves evs s e :
  In (s, e) (build_graph h leaves evs) <->
  exists ev tr src, In ev evs /\ In tr (e_transitions ev) /\ In src (t_sources tr) /\
    In s (expand_state h leaves src) /\
    e = Build_edge (match resolve_target h (t_target tr) with Some x => x | None => t_target tr end)
                   (e_name ev) (merge_hooks (e_hooks ev) (t_hooks tr)) (e_payload ev).
Proof.
  unfold build_graph, edges_of_transition. split.
  - intros H. apply in_flat_map in H as (ev & Hev & H). apply in_flat_map in H as (tr & Htr & H).
    apply in_flat_map in H as (src & Hsrc & H). apply in_map_iff in H as (s' & E & Hs).
    inversion E; subst. exists ev, tr, src. repeat split; assumption.
  - intros (ev & tr & src & Hev & Htr & Hsrc & Hs & ->).
    apply in_flat_map. exists ev. split; [exact Hev|]. apply in_flat_map. exists tr. split; [exact Htr|].
    apply in_flat_map. exists src. split; [exact Hsrc|]. apply in_map_iff. exists s. split; [reflexivity|exact Hs].
Qed.

Lemma graph_delta d m items ps :
  front_facts d m items ps ->
  forall s e t,
    (exists edge, In (s, edge) (m_graph m) /\ g_event edge = e /\ g_target edge = t)
    <-> delta items (m_events m) s e t.
Proof.
  intros F s e t. rewrite (ff_graph _ _ _ _ F), (ff_hier _ _ _ _ F), (ff_leaves _ _ _ _ F).
  pose proof (ff_parse _ _ _ _ F) as Hp. rewrite <- (ps_leaves _ _ Hp).
  unfold delta. split.
  - intros (edge & Hin & He & Ht). apply in_build_graph in Hin as (ev & tr & src & Hev & Htr & Hsrc & Hs & ->).
    cbn in He, Ht. exists ev, tr, src. rewrite (expand_state_spec _ _ Hp) in Hs.
    rewrite (resolve_target_spec _ _ Hp) in Ht. repeat split; auto.
  - intros (ev & tr & src & Hev & Hn & Htr & Hsrc & Hs & Ht).
    eexists. split; [apply in_build_graph; exists ev, tr, src; repeat split; try eassumption|].
    + rewrite (expand_state_spec _ _ Hp). exact Hs.
    + cbn. rewrite (resolve_target_spec _ _ Hp). auto.
Qed.

(* ---------- validation ---------- *)

Lemma validate_all_ok {A} (f : A -> result unit) l :
  validate_all f l = Ok tt <-> forall x, In x l -> f x = Ok tt.
Proof.
  induction l as [|x r IH]; cbn.
  - split; [intros _ y []|reflexivity].
  - destruct (f x) as [[]|e] eqn:E.
    + rewrite IH. split; [intros H y [<-|Hy]; [exact E|apply H; exact Hy]|intros H y Hy; apply H; right; exact Hy].
    + split; [discriminate|]. intros H. rewrite (H x (or_introl eq_refl)) in E. discriminate.
Qed.

Lemma find_super_supers : forall items g, (exists b, find_super g items = Some b) <-> In g (supers_of items).
Proof.
  assert (Hi : forall it, (fun it => forall g, (exists b, find_super_item g it = Some b) <-> In g (supers_of_item it)) it).
  { induction it as [n d|n d body IHb|n|k] using sitem_ind2; intros g;
      try (cbn; split; [intros [b H]; discriminate|intros []]).
    rewrite find_super_item_super. cbn [supers_of_item].
    destruct (String.eqb g n) eqn:E.
    - apply String.eqb_eq in E. subst. split; [left; reflexivity|eexists; reflexivity].
    - assert (Hne : n <> g) by (intros ->; rewrite String.eqb_refl in E; discriminate).
      induction IHb as [|x r Hx Hr IH].
      + cbn. split; [intros [b H]; discriminate|intros [H|[]]; contradiction].
      + cbn [find_super flat_map]. destruct (find_super_item g x) as [bx|] eqn:Ex.
        * split; [|eexists; reflexivity]. intros _. right. apply in_or_app. left. apply Hx. eexists. exact Ex.
        * rewrite IH. split.
          -- intros [H|H]; [left; exact H|right; apply in_or_app; right; exact H].
          -- intros [H|H]; [left; exact H|]. apply in_app_or in H as [H|H]; [|right; exact H].
             apply Hx in H as [b Hb]. congruence. }
  induction items as [|x r IH]; intros g.
  - cbn. split; [intros [b H]; discriminate|intros []].
  - unfold supers_of. cbn [find_super flat_map]. fold (supers_of r).
    destruct (find_super_item g x) as [bx|] eqn:Ex.
    + split; [|eexists; reflexivity]. intros _. apply in_or_app. left. apply Hi. eexists. exact Ex.
    + rewrite IH. split; [intros H; apply in_or_app; right; exact H|].
      intros H. apply in_app_or in H as [H|H]; [|exact H]. apply Hi in H as [b Hb]. congruence.
Qed.

Record valid_facts (items : list sitem) (m : machine) : Prop := {
  vf_initial_leaf : In (m_initial m) (leaves_of items);
  vf_initial_not_super : ~ In (m_initial m) (supers_of items);
  vf_events : forall ev, In ev (m_events m) -> event_wf items ev }.

Lemma validate_facts d m items ps :
  front_facts d m items ps -> valid_facts items m.
Proof.
  intros F. pose proof (ff_valid _ _ _ _ F) as V. pose proof (ff_parse _ _ _ _ F) as Hp.
  unfold validate in V. rewrite (ff_hier _ _ _ _ F), (ff_leaves _ _ _ _ F) in V.
  rewrite (is_superstate_spec _ _ Hp) in V.
  destruct (find_super (m_initial m) items) as [b|] eqn:Efs; [discriminate|].
  destruct (mem (m_initial m) (leaves_of items)) eqn:Emi; [|discriminate]. cbn [negb] in V.
  destruct (has_dup (leaves_of items)); [discriminate|].
  rewrite validate_all_ok in V.
  constructor.
  - apply mem_In. exact Emi.
  - intros Hin. apply find_super_supers in Hin as [b Hb]. congruence.
  - intros ev Hev. specialize (V ev Hev). unfold validate_event in V.
    destruct (is_snake_case (e_name ev)) eqn:Esn; [|discriminate]. cbn [negb] in V.
    destruct (e_transitions ev) as [|t0 ts] eqn:Et; [discriminate|]. cbn [is_nil] in V.
    rewrite validate_all_ok in V.
    constructor.
    + exact Esn.
    + rewrite Et. discriminate.
    + intros t Ht. rewrite Et in Ht. specialize (V t Ht). unfold validate_transition in V.
      destruct (t_sources t) as [|s0 ss] eqn:Es; [discriminate|]. cbn [is_nil] in V.
      split; [discriminate|].
      destruct (if is_superstate (m_hier m) (t_target t) then _ else _) as [r|]; [|discriminate].
      destruct (negb (mem r (m_states m))); [discriminate|].
      rewrite validate_all_ok in V. intros s Hs. specialize (V s Hs). unfold validate_source in V.
      rewrite (ff_hier _ _ _ _ F), (ff_leaves _ _ _ _ F), (is_superstate_spec _ _ Hp) in V.
      destruct (mem s (leaves_of items)) eqn:Ems.
      * left. apply mem_In. exact Ems.
      * destruct (find_super s items) as [b|] eqn:Ef; [|discriminate].
        right. apply find_super_supers. eexists. exact Ef.
    + intros t Ht. rewrite Et in Ht. specialize (V t Ht). unfold validate_transition in V.
      destruct (is_nil (t_sources t)); [discriminate|].
      rewrite (ff_hier _ _ _ _ F), (ff_leaves _ _ _ _ F), (is_superstate_spec _ _ Hp) in V.
      destruct (find_super (t_target t) items) as [b|] eqn:Ef.
      * right. apply find_super_supers. eexists. exact Ef.
      * destruct (mem (t_target t) (leaves_of items)) eqn:Emt; [|discriminate].
        left. apply mem_In. exact Emt.
Qed.
