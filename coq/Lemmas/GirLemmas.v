(* GirLemmas.v -- structure of the generated program (Codegen) in terms of the machine IR. *)
From Coq Require Import String List Bool Arith Lia.
From SM Require Import Ident Ast Front Spec Gir Codegen Sem.
From SM.Lemmas Require Import FrontLemmas FrontTop ChainLemmas.
Import ListNotations.
Open Scope string_scope.
Open Scope list_scope.

Lemma impl_of_codegen m feat s :
  In s (m_states m) -> impl_of (codegen m feat) s = Some (gen_impl m s).
Proof.
  unfold impl_of, codegen. cbn [gr_impls]. intros H.
  induction (m_states m) as [|x r IH]; [contradiction|].
  cbn [map find gen_impl gi_state]. destruct (String.eqb x s) eqn:E.
  - apply String.eqb_eq in E. subst. reflexivity.
  - destruct H as [->|H]; [rewrite String.eqb_refl in E; discriminate|apply IH; exact H].
Qed.

Lemma impl_of_codegen_none m feat s :
  ~ In s (m_states m) -> impl_of (codegen m feat) s = None.
Proof.
  unfold impl_of, codegen. cbn [gr_impls]. intros H.
  induction (m_states m) as [|x r IH]; [reflexivity|].
  cbn [map find gen_impl gi_state]. destruct (String.eqb x s) eqn:E.
  - apply String.eqb_eq in E. subst. exfalso. apply H. left. reflexivity.
  - apply IH. intros Hin. apply H. right. exact Hin.
Qed.

Lemma methods_of_codegen m feat s name :
  In s (m_states m) ->
  methods_of (codegen m feat) s name =
  filter (fun gm => String.eqb (gm_name gm) name) (map (gen_method m) (outgoing (m_graph m) s)).
Proof. intros H. unfold methods_of. rewrite (impl_of_codegen _ _ _ H). reflexivity. Qed.

Lemma methods_of_in m feat s name gm :
  In gm (methods_of (codegen m feat) s name) ->
  exists e, gm = gen_method m e /\ In e (outgoing (m_graph m) s) /\ to_snake_case (g_event e) = name.
Proof.
  unfold methods_of. destruct (impl_of (codegen m feat) s) as [gi|] eqn:Ei; [|intros []].
  unfold impl_of, codegen in Ei. cbn [gr_impls] in Ei. apply find_some in Ei as [Hin Heq].
  apply in_map_iff in Hin as (s' & <- & Hs'). cbn [gen_impl gi_state] in Heq.
  apply String.eqb_eq in Heq. subst s'. cbn [gen_impl gi_methods].
  intros H. apply filter_In in H as [H Hn]. apply in_map_iff in H as (e & <- & He).
  exists e. repeat split; [exact He|]. cbn in Hn. apply String.eqb_eq in Hn. exact Hn.
Qed.

Lemma typed_new_codegen m feat s ctx :
  In s (m_states m) ->
  typed_new (codegen m feat) s ctx =
  if String.eqb s (m_initial m)
  then Some (Build_tmachine s ctx (map (fun fi => (fst fi, init_slot (snd fi))) (slot_inits m s)))
  else None.
Proof.
  intros H. unfold typed_new. rewrite (impl_of_codegen _ _ _ H). cbn [gen_impl gi_new].
  destruct (String.eqb s (m_initial m)); reflexivity.
Qed.

Lemma in_outgoing g s e : In e (outgoing g s) <-> In (s, e) g.
Proof.
  unfold outgoing. rewrite in_map_iff. split.
  - intros ([s' e'] & <- & H). apply filter_In in H as [H E]. cbn in E. apply String.eqb_eq in E. subst. exact H.
  - intros H. exists (s, e). split; [reflexivity|]. apply filter_In. split; [exact H|]. cbn. apply String.eqb_refl.
Qed.

(* SubstateOf impls *)
Lemma substate_spec d m items ps feat :
  front_facts d m items ps ->
  forall l p, In (l, p) (gr_substate (codegen m feat)) <-> (In l (leaves_of items) /\ contains_spec items l p).
Proof.
  intros F l p. pose proof (ff_parse _ _ _ _ F) as Hp.
  unfold codegen. cbn [gr_substate]. unfold gen_substate.
  rewrite (ff_leaves _ _ _ _ F), (ff_hier _ _ _ _ F).
  rewrite <- (chain_contains items (ps_names_nodup _ _ Hp)). unfold chain_spec.
  rewrite in_flat_map. split.
  - intros (leaf & Hl & H). rewrite (ps_anc _ _ Hp) in H.
    destruct (chain_of leaf items) as [c|] eqn:Ec; [|contradiction].
    destruct (is_nil c); [contradiction|].
    apply in_map_iff in H as (a & E & Ha). inversion E; subst.
    split; [exact Hl|]. exists c. split; [exact Ec|exact Ha].
  - intros (Hl & c & Hc & Hpc). exists l. split; [exact Hl|].
    rewrite (ps_anc _ _ Hp), Hc. destruct c as [|c0 cr]; [contradiction|]. cbn [is_nil].
    apply in_map_iff. exists p. split; [reflexivity|exact Hpc].
Qed.
