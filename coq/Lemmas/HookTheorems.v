(* HookTheorems.v -- C03, C04, C05 (typed part), C06 for every generated transition method. *)
From Coq Require Import String List Bool Arith Lia.
From SM Require Import Ident Ast Front Gir Codegen Sem.
From SM.Lemmas Require Import SemLemmas RefSem SemProps.
Import ListNotations.
Open Scope list_scope.

Section T.
Variable m : machine.
Variable e : edge.
Variable self : tmachine.
Variable pl : option nat.
Variable w : oracle.

Let am := m_async m.
Let plb := has_pl e.
Let ev := g_event e.
Let p' := eff_pl e pl.
Let nm := new_machine m e self.
Let h := g_hooks e.
Let H := hooks_of h.

Notation APASS := (all_pass ev w self).
Notation CALLS := (full_calls am plb p' w self nm).
Notation PEND := (full_pend am w).

(* ---------- success (C04) ---------- *)

Lemma success_run :
  APASS H 0 = true ->
  run_method (gen_method m e) self pl w None = Build_run_out (CALLS H 0) (PEND H 0) (ROk nm).
Proof.
  intros Hp. rewrite run_method_ref. fold am plb ev p' nm h H.
  rewrite (ref_run_all_pass _ _ _ _ _ _ _ _ _ Hp). reflexivity.
Qed.

Lemma ok_iff_all_pass :
  (exists t, ro_res (run_method (gen_method m e) self pl w None) = ROk t) <-> APASS H 0 = true.
Proof.
  rewrite run_method_ref. fold am plb ev p' nm h H.
  split.
  - intros [t Ht]. apply (ref_run_none_iff am plb ev p' w self nm).
    destruct (ref_run am plb ev p' w self nm H 0) as [[tr p] [r|]] eqn:E; [|reflexivity].
    cbn [ro_res] in Ht. cbn [snd]. exfalso.
    (* a stop never yields ROk *)
    destruct (all_pass ev w self H 0) eqn:Ha.
    + rewrite (ref_run_all_pass _ _ _ _ _ _ _ _ _ Ha) in E. discriminate.
    + destruct (first_fail _ _ _ _ _ Ha) as (l1 & k & n & l2 & EH & H1 & H2).
      rewrite EH, (ref_run_first_stop am plb ev p' w self nm _ _ _ _ _ H1 H2) in E.
      inversion E as [[E1 E2 E3]]. subst r. clear E.
      change (0 + length l1) with (length l1) in *.
      unfold stop_result, passb in *.
      destruct (an_val (w (length l1))) eqn:Ea; cbn [is_panic negb andb] in *; try discriminate;
        destruct k; cbn [stop_of] in *; try discriminate;
        repeat match goal with
               | _ : context [if ?c then _ else _] |- _ => destruct c
               | _ : context [match ?k0 with AKGuard _ => _ | _ => _ end] |- _ => destruct k0
               end; try discriminate.
  - intros Ha. rewrite (ref_run_all_pass _ _ _ _ _ _ _ _ _ Ha). eexists. reflexivity.
Qed.

(* the documented order, spelled out on the definition's lists *)
Lemma success_order :
  APASS H 0 = true ->
  map (fun c => (c_kind c, c_name c, c_state c)) (ro_trace (run_method (gen_method m e) self pl w None)) =
     map (fun n => (HAroundBefore, n, tm_state self)) (h_around h)
  ++ map (fun n => (HGuard, n, tm_state self)) (h_guards h)
  ++ map (fun n => (HUnless, n, tm_state self)) (h_unless h)
  ++ map (fun n => (HBefore, n, tm_state self)) (h_before h)
  ++ map (fun n => (HAfter, n, g_target e)) (h_after h)
  ++ map (fun n => (HAroundAfter, n, g_target e)) (h_around h).
Proof.
  intros Hp. rewrite (success_run Hp). cbn [ro_trace].
  assert (G : forall hs i, map (fun c => (c_kind c, c_name c, c_state c)) (CALLS hs i)
                           = map (fun x => (hkind_of (fst x), snd x, tm_state (recv_of self nm (fst x)))) hs).
  { induction hs as [|[k n] hs IH]; intros i; [reflexivity|]. cbn [full_calls map]. rewrite IH. reflexivity. }
  rewrite G. unfold H, hooks_of. rewrite !map_app, !map_map. reflexivity.
Qed.

(* every hook of a successful run sees the machine's own context, guards and callbacks of a
   payload event see the caller's payload, and hooks before the state change see the source data *)
Lemma success_views :
  APASS H 0 = true ->
  Forall (fun c =>
      c_ctx c = tm_ctx self
   /\ c_done c = true
   /\ (match c_kind c with
       | HAroundBefore | HAroundAfter => c_pl c = None
       | _ => c_pl c = p'
       end)
   /\ (match c_kind c with
       | HAfter | HAroundAfter => c_state c = g_target e /\ c_slots c = map snd (tm_slots nm)
       | _ => c_state c = tm_state self /\ c_slots c = map snd (tm_slots self)
       end))
    (ro_trace (run_method (gen_method m e) self pl w None)).
Proof.
  intros Hp. rewrite (success_run Hp). cbn [ro_trace].
  generalize 0 as i. generalize H as hs.
  induction hs as [|[k n] hs IH]; intros i; constructor; [|apply IH].
  unfold p', plb, eff_pl. destruct k; cbn; repeat split; destruct (has_pl e); reflexivity.
Qed.

(* ---------- the run stops at the first hook that does not pass ---------- *)

Lemma stop_run l1 k n l2 :
  H = l1 ++ (k, n) :: l2 -> APASS l1 0 = true -> passb ev w self k n (length l1) = false ->
  run_method (gen_method m e) self pl w None =
  Build_run_out (CALLS l1 0 ++ [call_at am plb p' w self nm k (length l1) n (negb (is_panic (an_val (w (length l1)))))])
                (PEND l1 0 + susp_at am w (length l1))
                (stop_result ev self k n (an_val (w (length l1)))).
Proof.
  intros EH H1 H2. rewrite run_method_ref. fold am plb ev p' nm h H. rewrite EH.
  rewrite (ref_run_first_stop am plb ev p' w self nm l1 k n l2 0 H1 H2). reflexivity.
Qed.


(* ---------- guards and unless (C03) ---------- *)

Definition blocks (k : segk) (a : answer) : bool :=
  match k with KG => negb (guard_ans a) | KU => unless_ans a | _ => false end.

Definition conds : list (segk * ident) := map (pair KG) (h_guards h) ++ map (pair KU) (h_unless h).
Definition arounds_b : list (segk * ident) := map (pair KAB) (h_around h).

Lemma H_split : H = arounds_b ++ conds ++ map (pair KB) (h_before h) ++ map (pair KA) (h_after h) ++ map (pair KAA) (h_around h).
Proof. unfold H, hooks_of, arounds_b, conds. rewrite <- !app_assoc. reflexivity. Qed.

Lemma blocked_run c1 k g c2 :
  (k = KG \/ k = KU) ->
  conds = c1 ++ (k, g) :: c2 ->
  APASS (arounds_b ++ c1) 0 = true ->
  is_panic (an_val (w (length (arounds_b ++ c1)))) = false ->
  blocks k (an_val (w (length (arounds_b ++ c1)))) = true ->
  run_method (gen_method m e) self pl w None =
  Build_run_out (CALLS (arounds_b ++ c1) 0 ++ [call_at am plb p' w self nm k (length (arounds_b ++ c1)) g true])
                (PEND (arounds_b ++ c1) 0 + susp_at am w (length (arounds_b ++ c1)))
                (RErr self (Build_gerr g ev (AKGuard g))).
Proof.
  intros Hk Ec Hp Hnp Hb.
  assert (EH : H = (arounds_b ++ c1) ++ (k, g) ::
                   (c2 ++ map (pair KB) (h_before h) ++ map (pair KA) (h_after h) ++ map (pair KAA) (h_around h))).
  { rewrite H_split, Ec. rewrite <- !app_assoc. reflexivity. }
  assert (Hfail : passb ev w self k g (length (arounds_b ++ c1)) = false).
  { unfold passb. rewrite Hnp. cbn [negb andb].
    destruct Hk; subst k; cbn [stop_of blocks] in *.
    - destruct (guard_ans _); [discriminate|reflexivity].
    - rewrite Hb. reflexivity. }
  rewrite (stop_run _ _ _ _ EH Hp Hfail). rewrite Hnp. cbn [negb].
  f_equal. unfold stop_result.
  destruct (an_val (w (length (arounds_b ++ c1)))) eqn:Ea; try discriminate;
    destruct Hk; subst k; cbn [stop_of blocks guard_ans unless_ans negb] in *;
    repeat match goal with
           | |- context [if ?c then _ else _] => destruct c eqn:?
           end; try discriminate; reflexivity.
Qed.

(* with well-behaved arounds and callbacks, the transition fires iff no condition blocks *)
Fixpoint none_blocks (cs : list (segk * ident)) (i : nat) : bool :=
  match cs with [] => true | (k, _) :: r => negb (blocks k (an_val (w i))) && none_blocks r (S i) end.

Definition benign (k : segk) (a : answer) : bool :=
  negb (is_panic a) && match k, a with KAB, AAbort _ | KAA, AAbort _ => false | _, _ => true end.
Fixpoint all_benign (hs : list (segk * ident)) (i : nat) : bool :=
  match hs with [] => true | (k, _) :: r => benign k (an_val (w i)) && all_benign r (S i) end.

Lemma passb_benign k n i :
  passb ev w self k n i = benign k (an_val (w i)) && negb (blocks k (an_val (w i))).
Proof.
  unfold passb, benign, blocks.
  destruct (an_val (w i)) as [|b|kd|] eqn:Ea; destruct k; cbn; try reflexivity;
    try (destruct b; reflexivity);
    repeat match goal with |- context [if ?c then _ else _] => destruct c end; reflexivity.
Qed.

Lemma all_pass_benign hs i :
  all_benign hs i = true ->
  APASS hs i = (fix nb (cs : list (segk * ident)) (i : nat) : bool :=
                  match cs with [] => true | (k, _) :: r => negb (blocks k (an_val (w i))) && nb r (S i) end) hs i.
Proof.
  revert i. induction hs as [|[k n] hs IH]; intros i Hb; [reflexivity|].
  cbn [all_benign] in Hb. apply andb_prop in Hb as [Hb1 Hb2].
  cbn [all_pass]. rewrite passb_benign, Hb1, (IH _ Hb2). reflexivity.
Qed.

Lemma none_blocks_noncond hs i :
  Forall (fun x => fst x <> KG /\ fst x <> KU) hs -> none_blocks hs i = true.
Proof.
  revert i. induction hs as [|[k n] hs IH]; intros i Hf; [reflexivity|].
  inversion Hf as [|? ? [Hg Hu] Hf']; subst. cbn [none_blocks fst] in *.
  rewrite (IH _ Hf'). destruct k; try reflexivity; congruence.
Qed.

Lemma none_blocks_app l1 l2 i :
  none_blocks (l1 ++ l2) i = none_blocks l1 i && none_blocks l2 (i + length l1).
Proof.
  revert i. induction l1 as [|[k n] l1 IH]; intros i; cbn [app none_blocks length].
  - rewrite Nat.add_0_r. reflexivity.
  - rewrite IH. replace (S i + length l1) with (i + S (length l1)) by lia. rewrite andb_assoc. reflexivity.
Qed.

Lemma fires_iff :
  all_benign H 0 = true ->
  ((exists t, ro_res (run_method (gen_method m e) self pl w None) = ROk t)
   <-> none_blocks conds (length (h_around h)) = true).
Proof.
  intros Hb. rewrite ok_iff_all_pass. fold H. rewrite (all_pass_benign _ _ Hb).
  change ((fix nb (cs : list (segk * ident)) (i : nat) : bool :=
             match cs with [] => true | (k, _) :: r => negb (blocks k (an_val (w i))) && nb r (S i) end) H 0)
    with (none_blocks H 0).
  rewrite H_split, !none_blocks_app.
  assert (N1 : none_blocks arounds_b 0 = true).
  { apply none_blocks_noncond. unfold arounds_b. apply Forall_forall. intros x Hx.
    apply in_map_iff in Hx as (n & <- & _). cbn. split; discriminate. }
  rewrite N1. cbn [andb].
  assert (La : length arounds_b = length (h_around h)) by (unfold arounds_b; apply map_length).
  rewrite La. cbn [Nat.add].
  match goal with |- context [none_blocks conds ?i && ?rest] => assert (N2 : rest = true) end.
  { rewrite <- !none_blocks_app. apply none_blocks_noncond. apply Forall_forall. intros x Hx.
    rewrite !in_app_iff, !in_map_iff in Hx.
    destruct Hx as [(n & <- & _)|[(n & <- & _)|(n & <- & _)]]; cbn; split; discriminate. }
  rewrite N2, andb_true_r. reflexivity.
Qed.

(* ---------- refusal (C05, typed part) ---------- *)

Definition low (k : segk) : Prop := k = KAB \/ k = KG \/ k = KU.

Lemma low_calls hs i :
  Forall (fun x => low (fst x)) hs ->
  Forall (fun c => (c_kind c = HAroundBefore \/ c_kind c = HGuard \/ c_kind c = HUnless)
                   /\ c_state c = tm_state self /\ c_slots c = map snd (tm_slots self) /\ c_ctx c = tm_ctx self)
         (CALLS hs i).
Proof.
  revert i. induction hs as [|[k0 n0] hs IH]; intros i Hf; [constructor|].
  inversion Hf as [|? ? Hk0 Hf']; subst. cbn [full_calls]. constructor; [|apply IH; exact Hf'].
  cbn [fst] in Hk0. destruct Hk0 as [->|[->| ->]]; cbn; repeat split; auto.
Qed.

Lemma refused_intact m' ge :
  ro_res (run_method (gen_method m e) self pl w None) = RErr m' ge ->
  m' = self
  /\ ge_event ge = ev
  /\ Forall (fun c => (c_kind c = HAroundBefore \/ c_kind c = HGuard \/ c_kind c = HUnless)
                      /\ c_state c = tm_state self /\ c_slots c = map snd (tm_slots self) /\ c_ctx c = tm_ctx self)
            (ro_trace (run_method (gen_method m e) self pl w None)).
Proof.
  intros Hr.
  set (pre3 := arounds_b ++ conds).
  set (rest := map (pair KB) (h_before h) ++ map (pair KA) (h_after h) ++ map (pair KAA) (h_around h)).
  assert (EHH : H = pre3 ++ rest) by (rewrite H_split; unfold pre3, rest; rewrite <- !app_assoc; reflexivity).
  assert (Hlow : Forall (fun x => low (fst x)) pre3).
  { unfold pre3, arounds_b, conds, low. apply Forall_forall. intros x Hx.
    rewrite !in_app_iff, !in_map_iff in Hx.
    destruct Hx as [(? & <- & _)|[(? & <- & _)|(? & <- & _)]]; cbn; auto. }
  destruct (all_pass ev w self pre3 0) eqn:Ha3.
  - (* everything up to the last condition passed: whatever stops the run is not a refusal *)
    exfalso.
    destruct (all_pass ev w self rest (0 + length pre3)) eqn:Har.
    + assert (Ha : all_pass ev w self H 0 = true) by (rewrite EHH, all_pass_app, Ha3, Har; reflexivity).
      rewrite (success_run Ha) in Hr. discriminate.
    + destruct (first_fail _ _ _ _ _ Har) as (r1 & k & n & r2 & Er & H1 & H2).
      assert (EH : H = (pre3 ++ r1) ++ (k, n) :: r2) by (rewrite EHH, Er, <- app_assoc; reflexivity).
      assert (Hp : all_pass ev w self (pre3 ++ r1) 0 = true) by (rewrite all_pass_app, Ha3, H1; reflexivity).
      assert (Hl : 0 + length pre3 + length r1 = length (pre3 ++ r1)) by (rewrite app_length; lia).
      rewrite Hl in H2.
      rewrite (stop_run _ _ _ _ EH Hp H2) in Hr. cbn [ro_res] in Hr.
      assert (Hk : k = KB \/ k = KA \/ k = KAA).
      { assert (Hin : In (k, n) rest) by (rewrite Er; apply in_or_app; right; left; reflexivity).
        unfold rest in Hin. rewrite !in_app_iff, !in_map_iff in Hin.
        destruct Hin as [(? & E & _)|[(? & E & _)|(? & E & _)]]; inversion E; auto. }
      unfold stop_result in Hr.
      destruct (an_val (w (length (pre3 ++ r1)))); try discriminate;
        destruct Hk as [->|[->| ->]]; cbn [stop_of] in Hr; discriminate.
  - destruct (first_fail _ _ _ _ _ Ha3) as (l1 & k & n & l2 & E3 & H1 & H2).
    change (0 + length l1) with (length l1) in H2.
    assert (EH : H = l1 ++ (k, n) :: (l2 ++ rest)) by (rewrite EHH, E3, <- app_assoc; reflexivity).
    rewrite (stop_run _ _ _ _ EH H1 H2) in *. cbn [ro_res ro_trace] in *.
    rewrite E3 in Hlow. apply Forall_app in Hlow as [Hl1 Hl2].
    inversion Hl2 as [|? ? Hk _]; subst. cbn [fst] in Hk.
    assert (Hm : m' = self /\ ge_event ge = ev).
    { unfold stop_result in Hr.
      destruct (an_val (w (length l1))); try discriminate;
        destruct Hk as [->|[->| ->]]; cbn [stop_of] in Hr;
        repeat match type of Hr with
               | context [if ?c then _ else _] => destruct c
               end; try discriminate; inversion Hr; subst; cbn; split; reflexivity. }
    destruct Hm as [-> Hev]. repeat split; [exact Hev|].
    apply Forall_app. split; [apply low_calls; exact Hl1|].
    constructor; [|constructor].
    destruct Hk as [->|[->| ->]]; cbn; repeat split; auto.
Qed.

(* ---------- around callbacks (C06) ---------- *)

Lemma abort_before_run a1 cb a2 kd :
  h_around h = a1 ++ cb :: a2 ->
  APASS (map (pair KAB) a1) 0 = true ->
  an_val (w (length a1)) = AAbort kd ->
  run_method (gen_method m e) self pl w None =
  Build_run_out (CALLS (map (pair KAB) a1) 0 ++ [call_at am plb p' w self nm KAB (length a1) cb true])
                (PEND (map (pair KAB) a1) 0 + susp_at am w (length a1))
                (RErr self (Build_gerr (abort_name kd cb) ev kd)).
Proof.
  intros Ea Hp Hab.
  assert (EH : H = map (pair KAB) a1 ++ (KAB, cb) ::
                   (map (pair KAB) a2 ++ conds ++ map (pair KB) (h_before h) ++ map (pair KA) (h_after h) ++ map (pair KAA) (h_around h))).
  { rewrite H_split. unfold arounds_b. rewrite Ea at 1. rewrite map_app. cbn [map]. rewrite <- !app_assoc. reflexivity. }
  assert (Hl : length (map (pair KAB) a1) = length a1) by apply map_length.
  assert (Hfail : passb ev w self KAB cb (length (map (pair KAB) a1)) = false).
  { unfold passb. rewrite Hl, Hab. reflexivity. }
  rewrite (stop_run _ _ _ _ EH Hp Hfail). rewrite Hl, Hab. reflexivity.
Qed.

Lemma abort_after_run a1 cb a2 kd :
  h_around h = a1 ++ cb :: a2 ->
  let pre := arounds_b ++ conds ++ map (pair KB) (h_before h) ++ map (pair KA) (h_after h) ++ map (pair KAA) a1 in
  APASS pre 0 = true ->
  an_val (w (length pre)) = AAbort kd ->
  run_method (gen_method m e) self pl w None =
  Build_run_out (CALLS pre 0 ++ [call_at am plb p' w self nm KAA (length pre) cb true])
                (PEND pre 0 + susp_at am w (length pre))
                (RPanicAfter (abort_name kd cb) ev).
Proof.
  intros Ea pre Hp Hab.
  assert (EH : H = pre ++ (KAA, cb) :: map (pair KAA) a2).
  { rewrite H_split. unfold pre. rewrite Ea. rewrite map_app. cbn [map]. rewrite <- !app_assoc. reflexivity. }
  assert (Hfail : passb ev w self KAA cb (length pre) = false).
  { unfold passb. rewrite Hab. reflexivity. }
  rewrite (stop_run _ _ _ _ EH Hp Hfail). rewrite Hab. reflexivity.
Qed.

(* AfterSuccess stages run only in runs whose every earlier hook let the transition through *)
Lemma after_stage_only_after_success c :
  In c (ro_trace (run_method (gen_method m e) self pl w None)) -> c_kind c = HAroundAfter ->
  APASS (arounds_b ++ conds ++ map (pair KB) (h_before h) ++ map (pair KA) (h_after h)) 0 = true.
Proof.
  intros Hin Hk.
  set (pre4 := arounds_b ++ conds ++ map (pair KB) (h_before h) ++ map (pair KA) (h_after h)).
  destruct (all_pass ev w self pre4 0) eqn:Ha; [reflexivity|exfalso].
  destruct (first_fail _ _ _ _ _ Ha) as (l1 & k & n & l2 & E4 & H1 & H2).
  change (0 + length l1) with (length l1) in H2.
  assert (EH : H = l1 ++ (k, n) :: (l2 ++ map (pair KAA) (h_around h))).
  { rewrite H_split. fold pre4.
    replace (arounds_b ++ conds ++ map (pair KB) (h_before h) ++ map (pair KA) (h_after h) ++ map (pair KAA) (h_around h))
      with (pre4 ++ map (pair KAA) (h_around h)) by (unfold pre4; rewrite <- !app_assoc; reflexivity).
    rewrite E4, <- app_assoc. reflexivity. }
  rewrite (stop_run _ _ _ _ EH H1 H2) in Hin. cbn [ro_trace] in Hin.
  assert (Hno : Forall (fun x => fst x <> KAA) pre4).
  { unfold pre4, arounds_b, conds. apply Forall_forall. intros x Hx.
    rewrite !in_app_iff, !in_map_iff in Hx.
    destruct Hx as [(? & <- & _)|[[(? & <- & _)|(? & <- & _)]|[(? & <- & _)|(? & <- & _)]]]; cbn; discriminate. }
  rewrite E4 in Hno. apply Forall_app in Hno as [Hno1 Hno2]. inversion Hno2 as [|? ? Hnk _]; subst. cbn in Hnk.
  apply in_app_or in Hin as [Hin|[Hin|[]]].
  - assert (G : forall hs i, Forall (fun x => fst x <> KAA) hs -> Forall (fun c => c_kind c <> HAroundAfter) (CALLS hs i)).
    { induction hs as [|[k0 n0] hs IH]; intros i Hf; [constructor|].
      inversion Hf as [|? ? Hk0 Hf']; subst. constructor; [|apply IH; exact Hf'].
      cbn in *. destruct k0; cbn; try discriminate. congruence. }
    pose proof (G l1 0 Hno1) as Gf. rewrite Forall_forall in Gf. exact (Gf _ Hin Hk).
  - subst c. cbn in Hk. destruct k; cbn in Hk; try discriminate. congruence.
Qed.

End T.
