(* IdentLemmas.v -- facts about the name functions. *)
From Coq Require Import String Ascii List Bool Arith Lia.
From SM Require Import Ident.
Import ListNotations.
Open Scope list_scope.

Lemma upper_not_snake_char c :
  is_upper c = true -> (is_lower c || is_digit c || is_us c) = false.
Proof.
  destruct c as [[] [] [] [] [] [] [] []]; vm_compute; intros H; try reflexivity; discriminate.
Qed.

Lemma snake_chars_no_upper prev cs :
  snake_chars_ok prev cs = true -> forallb (fun c => negb (is_upper c)) cs = true.
Proof.
  revert prev. induction cs as [|c r IH]; intros prev H; [reflexivity|].
  cbn [snake_chars_ok] in H. cbn [forallb].
  destruct (is_upper c) eqn:Eu.
  - apply upper_not_snake_char in Eu.
    apply orb_false_iff in Eu as [Eu Eus]. apply orb_false_iff in Eu as [El Ed].
    rewrite El, Ed, Eus in H. cbn in H. discriminate.
  - cbn [negb andb].
    destruct (negb (is_lower c) && negb (is_digit c) && negb (is_us c)); [discriminate|].
    destruct (is_us c); [destruct prev; [discriminate|eapply IH; exact H]|eapply IH; exact H].
Qed.

Lemma snake_aux_no_upper prev cs :
  forallb (fun c => negb (is_upper c)) cs = true -> snake_aux prev cs = cs.
Proof.
  revert prev. induction cs as [|c r IH]; intros prev H; [reflexivity|].
  cbn [forallb] in H. apply andb_prop in H as [Hc Hr].
  cbn [snake_aux]. destruct (is_upper c); [discriminate|]. rewrite IH; [reflexivity|exact Hr].
Qed.

(* `#` is not a snake_case character, so a snake_case name is not a raw identifier *)
Lemma strip_raw_snake cs : snake_chars_ok false cs = true -> strip_raw cs = cs.
Proof.
  intros H. destruct cs as [|a [|b rest]]; try reflexivity. unfold strip_raw.
  destruct (Ascii.eqb_spec a "r"%char) as [->|_]; [|reflexivity].
  destruct (Ascii.eqb_spec b "#"%char) as [->|_]; [|reflexivity].
  cbn in H. discriminate.
Qed.

(* a snake_case event name is its own method name *)
Lemma snake_id s : is_snake_case s = true -> to_snake_case s = s.
Proof.
  unfold is_snake_case, to_snake_case. intros H.
  destruct (list_ascii_of_string s) as [|c r] eqn:E; [discriminate|].
  destruct (is_us c || opt_test is_us (hd_error (rev (c :: r)))); [discriminate|].
  rewrite (strip_raw_snake _ H).
  apply snake_chars_no_upper in H. rewrite (snake_aux_no_upper _ _ H), <- E.
  apply string_of_list_ascii_of_string.
Qed.
