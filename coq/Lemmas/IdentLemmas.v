(* IdentLemmas.v -- facts about the name functions. *)
From Coq Require Import String Ascii List Bool Arith Lia.
From SM Require Import Ident.
Import ListNotations.
Open Scope list_scope.

Lemma upper_not_snake_char u :
  u_is_upper u = true -> (u_is_lower u || u_is_digit u || u_is_us u) = false.
Proof.
  destruct u as [c|b].
  - destruct c as [[] [] [] [] [] [] [] []]; vm_compute; intros H; try reflexivity; discriminate.
  - destruct b as [[] [] [] [] [] [] [] []]; vm_compute; intros H; try reflexivity; discriminate.
Qed.

Lemma snake_chars_no_upper prev cs :
  snake_chars_ok prev cs = true -> forallb (fun c => negb (u_is_upper c)) cs = true.
Proof.
  revert prev. induction cs as [|c r IH]; intros prev H; [reflexivity|].
  cbn [snake_chars_ok] in H. cbn [forallb].
  destruct (u_is_upper c) eqn:Eu.
  - apply upper_not_snake_char in Eu.
    apply orb_false_iff in Eu as [Eu Eus]. apply orb_false_iff in Eu as [El Ed].
    rewrite El, Ed, Eus in H. cbn in H. discriminate.
  - cbn [negb andb].
    destruct (negb (u_is_lower c) && negb (u_is_digit c) && negb (u_is_us c)); [discriminate|].
    destruct (u_is_us c); [destruct prev; [discriminate|eapply IH; exact H]|eapply IH; exact H].
Qed.

Lemma snake_aux_no_upper prev cs :
  forallb (fun c => negb (u_is_upper c)) cs = true -> snake_aux prev cs = cs.
Proof.
  revert prev. induction cs as [|c r IH]; intros prev H; [reflexivity|].
  cbn [forallb] in H. apply andb_prop in H as [Hc Hr].
  cbn [snake_aux]. destruct (u_is_upper c); [discriminate|]. rewrite IH; [reflexivity|exact Hr].
Qed.

(* decoding groups the two bytes of a Latin-1 letter; encoding gives the bytes back *)
Lemma decode_cons c rest :
  decode (c :: rest) =
  match rest with
  | b :: rest' => if Ascii.eqb c "195"%char && is_cont b then UL b :: decode rest' else UA c :: decode rest
  | [] => [UA c]
  end.
Proof. destruct rest; reflexivity. Qed.

Lemma encode_decode_bounded n : forall cs, length cs <= n -> encode (decode cs) = cs.
Proof.
  induction n as [|n IH]; intros cs Hl.
  - destruct cs; [reflexivity|cbn in Hl; lia].
  - destruct cs as [|c [|b rest]]; [reflexivity|reflexivity|].
    rewrite decode_cons.
    destruct (Ascii.eqb_spec c "195"%char) as [->|N]; cbn [andb].
    + destruct (is_cont b).
      * unfold encode. cbn [flat_map enc1 app]. fold (encode (decode rest)). rewrite IH; [reflexivity|cbn in Hl; lia].
      * unfold encode. cbn [flat_map enc1 app]. fold (encode (decode (b :: rest))). rewrite IH; [reflexivity|cbn in Hl |- *; lia].
    + unfold encode. cbn [flat_map enc1 app]. fold (encode (decode (b :: rest))). rewrite IH; [reflexivity|cbn in Hl |- *; lia].
Qed.

Lemma encode_decode cs : encode (decode cs) = cs.
Proof. apply (encode_decode_bounded (length cs)). apply le_n. Qed.

Lemma decode_cons_plain c rest : Ascii.eqb c "195"%char = false -> decode (c :: rest) = UA c :: decode rest.
Proof. intros E. rewrite decode_cons. destruct rest; [reflexivity|]. rewrite E. reflexivity. Qed.

(* `#` is not a snake_case character, so a snake_case name is not a raw identifier *)
Lemma strip_raw_snake cs : snake_chars_ok false (decode cs) = true -> strip_raw cs = cs.
Proof.
  intros H. destruct cs as [|a [|b rest]]; try reflexivity. unfold strip_raw.
  destruct (Ascii.eqb_spec a "r"%char) as [->|_]; [|reflexivity].
  destruct (Ascii.eqb_spec b "#"%char) as [->|_]; [|reflexivity].
  exfalso. rewrite (decode_cons_plain "r"%char) in H by reflexivity.
  rewrite (decode_cons_plain "#"%char) in H by reflexivity.
  vm_compute in H. discriminate.
Qed.

(* a snake_case event name is its own method name *)
Lemma snake_id s : is_snake_case s = true -> to_snake_case s = s.
Proof.
  unfold is_snake_case, to_snake_case. intros H.
  destruct (decode (list_ascii_of_string s)) as [|c r] eqn:E; [discriminate|].
  destruct (u_is_us c || opt_test u_is_us (hd_error (rev (c :: r)))); [discriminate|].
  rewrite <- E in H. rewrite (strip_raw_snake _ H).
  apply snake_chars_no_upper in H. rewrite (snake_aux_no_upper _ _ H), encode_decode.
  apply string_of_list_ascii_of_string.
Qed.
