(* NameLemmas.v -- names in errors, event enum, methods (C12), the typed method matrix (C02),
   naming convention and configuration (C14), footprint (C17), hygiene (C18). *)
From Coq Require Import String List Bool Arith Lia.
From SM Require Import Ident Ast Front Spec Gir Codegen Sem Dyn Core Script Static.
From SM.Lemmas Require Import FrontLemmas FrontTop ChainLemmas GirLemmas IdentLemmas SemLemmas RefSem SemProps
     HookTheorems CasesLemmas AcceptLemmas.
Import ListNotations.
Open Scope string_scope.
Open Scope list_scope.

(* ---------- C12 ---------- *)

(* where the names of a GuardError come from *)
Lemma ref_run_err_names am plb ev pl w self newm hs : forall i tr p m' ge,
  ref_run am plb ev pl w self newm hs i = (tr, p, Some (RErr m' ge)) ->
  ge_event ge = ev /\
  exists k n, In (k, n) hs /\
    ((k = KG \/ k = KU) /\ ge = Build_gerr n ev (AKGuard n)
     \/ k = KAB /\ exists kd, ge = Build_gerr (abort_name kd n) ev kd).
Proof.
  induction hs as [|[k n] hs IH]; intros i tr p m' ge H; [discriminate|].
  cbn [ref_run] in H.
  assert (Hstop : forall a res, stop_of ev k self n a = Some res -> res = RErr m' ge ->
            ge_event ge = ev /\ ((k = KG \/ k = KU) /\ ge = Build_gerr n ev (AKGuard n)
                                 \/ k = KAB /\ exists kd, ge = Build_gerr (abort_name kd n) ev kd)).
  { intros a res Hs ->. destruct k, a; cbn in Hs; try discriminate;
      repeat match type of Hs with context [if ?c then _ else _] => destruct c end;
      try discriminate; inversion Hs; subst; cbn; split; auto;
      right; split; auto; eexists; reflexivity. }
  destruct (an_val (w i)) eqn:Ea; try (inversion H; fail);
    (destruct (stop_of ev k self n _) as [res|] eqn:Es;
     [ inversion H; subst; destruct (Hstop _ _ Es eq_refl) as [He Hk]; split; [exact He|];
       exists k, n; split; [left; reflexivity|exact Hk]
     | destruct (ref_run am plb ev pl w self newm hs (S i)) as [[tr' p'] r'] eqn:Er; inversion H; subst;
       destruct (IH _ _ _ _ _ Er) as (He & k' & n' & Hin & Hk); split; [exact He|];
       exists k', n'; split; [right; exact Hin|exact Hk] ]).
Qed.

(* every GuardError a generated method returns carries the declared event name, and the declared name
   of the guard or unless-condition that blocked, or the name derived from an around callback's abort *)
Theorem guard_error_names m e self pl w m' ge :
  ro_res (run_method (gen_method m e) self pl w None) = RErr m' ge ->
  ge_event ge = g_event e /\
  ((exists g, In g (h_guards (g_hooks e) ++ h_unless (g_hooks e)) /\ ge = Build_gerr g (g_event e) (AKGuard g))
   \/ (exists cb kd, In cb (h_around (g_hooks e)) /\ ge = Build_gerr (abort_name kd cb) (g_event e) kd)).
Proof.
  rewrite run_method_ref.
  destruct (ref_run _ _ _ _ _ _ _ _ _) as [[tr p] [r|]] eqn:Er; cbn [ro_res]; [|discriminate].
  intros ->. destruct (ref_run_err_names _ _ _ _ _ _ _ _ _ _ _ _ _ Er) as (He & k & n & Hin & Hk).
  split; [exact He|]. unfold hooks_of in Hin. rewrite !in_app_iff, !in_map_iff in Hin.
  destruct Hk as [[Hk ->]|[-> [kd ->]]].
  - left. exists n. split; [|reflexivity]. apply in_or_app.
    destruct Hin as [(x & E & Hx)|[(x & E & Hx)|[(x & E & Hx)|[(x & E & Hx)|[(x & E & Hx)|(x & E & Hx)]]]]];
      inversion E; subst; destruct Hk; try discriminate; auto.
  - right. exists n, kd. split; [|reflexivity].
    destruct Hin as [(x & E & Hx)|[(x & E & Hx)|[(x & E & Hx)|[(x & E & Hx)|[(x & E & Hx)|(x & E & Hx)]]]]];
      inversion E; subst; auto.
Qed.

(* each event variant's name() is the declared name, and the variant is its PascalCase form *)
Theorem event_enum_names m :
  gd_events (gen_dyn m) = map (fun ev => (to_pascal_case (e_name ev), e_name ev, e_payload ev)) (m_events m).
Proof. reflexivity. Qed.

(* the method of a snake_case event is called what was declared *)
Theorem method_name_is_event_name m e :
  is_snake_case (g_event e) = true -> gm_name (gen_method m e) = g_event e.
Proof. intros H. cbn. apply snake_id. exact H. Qed.

(* core: constructors store their arguments, the conversion keeps kind and names, the macros build
   Abort { from, event, kind } from their arguments *)
Theorem core_algebra (a b c : ident) (k : akind) :
  te_invalid_transition a b = Build_terr a b AKInvalid /\
  te_guard_failed a b c = Build_terr a b (AKGuard c) /\
  ge_new a b = Build_gerr a b (AKGuard a) /\
  ge_with_kind a b k = Build_gerr a b k /\
  from_guard_error (ge_with_kind a b (AKGuard c)) = DGuardFailed c b /\
  from_guard_error (ge_with_kind a b (AKAction c)) = DActionFailed c b /\
  (exists f, from_guard_error (ge_with_kind a b AKInvalid) = DInvalid f b) /\
  abort_guard (Build_tctx a c b) c = Abort (Build_terr a b (AKGuard c)) /\
  abort_with (Build_tctx a c b) k = Abort (Build_terr a b k).
Proof. repeat split. eexists. reflexivity. Qed.

(* ---------- C02 ---------- *)

Section M.
Variable d : defn.
Variable m : machine.
Variable items : list sitem.
Variable ps : pstate.
Variable feat : bool.
Hypothesis F : front_facts d m items ps.
Let g := codegen m feat.

Definition edges_of (s ev : ident) : list edge :=
  filter (fun e => String.eqb (g_event e) ev) (outgoing (m_graph m) s).

Lemma event_snake ev : In ev (m_events m) -> is_snake_case (e_name ev) = true.
Proof. intros H. exact (ew_snake _ _ (vf_events _ _ (validate_facts _ _ _ _ F) ev H)). Qed.

Lemma edge_event_name s e : In (s, e) (m_graph m) -> exists ev, In ev (m_events m) /\ g_event e = e_name ev.
Proof.
  rewrite (ff_graph _ _ _ _ F). intros H. apply in_build_graph in H as (ev & tr & src & Hev & _ & _ & _ & ->).
  exists ev. split; [exact Hev|reflexivity].
Qed.

(* the methods named after an event on the type of leaf s are exactly its edges for that event *)
Theorem method_table s ev :
  In s (m_states m) -> In ev (m_events m) ->
  methods_of g s (to_snake_case (e_name ev)) = map (gen_method m) (edges_of s (e_name ev)).
Proof.
  intros Hs Hev. unfold g. rewrite (methods_of_codegen _ _ _ _ Hs), (snake_id _ (event_snake _ Hev)).
  unfold edges_of.
  assert (G : forall l, (forall x, In x l -> In x (outgoing (m_graph m) s)) ->
              filter (fun gm => String.eqb (gm_name gm) (e_name ev)) (map (gen_method m) l)
              = map (gen_method m) (filter (fun e0 => String.eqb (g_event e0) (e_name ev)) l)).
  { induction l as [|x r IH]; intros Hsub; [reflexivity|]. cbn [map filter gen_method gm_name].
    assert (Hx : In (s, x) (m_graph m)) by (apply in_outgoing; apply Hsub; left; reflexivity).
    destruct (edge_event_name _ _ Hx) as (evx & Hevx & Egx).
    rewrite Egx, (snake_id _ (event_snake _ Hevx)).
    destruct (String.eqb (e_name evx) (e_name ev)); cbn [map]; rewrite IH; try reflexivity;
      intros y Hy; apply Hsub; right; exact Hy. }
  apply G. auto.
Qed.

(* M<s>::e exists iff delta(s, e) is defined; its Ok type is the declared, resolved target *)
Theorem method_exists_iff_delta s ev :
  In s (leaves_of items) -> In ev (m_events m) ->
  ((exists gm, In gm (methods_of g s (to_snake_case (e_name ev))))
     <-> (exists t, delta items (m_events m) s (e_name ev) t))
  /\ (forall gm, In gm (methods_of g s (to_snake_case (e_name ev))) ->
        delta items (m_events m) s (e_name ev) (gm_target gm)).
Proof.
  intros Hs Hev. rewrite <- (ff_leaves _ _ _ _ F) in Hs. rewrite (method_table _ _ Hs Hev).
  assert (Hin : forall e, In e (edges_of s (e_name ev)) -> delta items (m_events m) s (e_name ev) (g_target e)).
  { intros e He. unfold edges_of in He. apply filter_In in He as [He Eq]. apply String.eqb_eq in Eq.
    apply (graph_delta _ _ _ _ F). exists e. repeat split; [apply in_outgoing; exact He|exact Eq]. }
  split; [split|].
  - intros (gm & Hgm). apply in_map_iff in Hgm as (e & <- & He). exists (g_target e). apply Hin. exact He.
  - intros (t & Hd). apply (graph_delta _ _ _ _ F) in Hd as (e & He & Eq & _).
    exists (gen_method m e). apply in_map. unfold edges_of. apply filter_In.
    split; [apply in_outgoing; exact He|]. rewrite Eq. apply String.eqb_refl.
  - intros gm Hgm. apply in_map_iff in Hgm as (e & <- & He). cbn [gen_method gm_target]. apply Hin. exact He.
Qed.

(* `new` exists on the type of the declared initial state only *)
Theorem new_only_on_initial s ctx :
  In s (m_states m) -> (typed_new g s ctx <> None <-> s = m_initial m).
Proof.
  intros Hs. unfold g. rewrite (typed_new_codegen _ _ _ _ Hs).
  destruct (String.eqb s (m_initial m)) eqn:E.
  - apply String.eqb_eq in E. split; [intros _; exact E|discriminate].
  - split; [intros H; contradiction|]. intros ->. rewrite String.eqb_refl in E. discriminate.
Qed.

(* the infallible accessors of a data state are generated on the type of that state only *)
Theorem state_accessors_on_own_state :
  gr_state_accs g = map (fun sp => (ss_state sp, to_snake_case (ss_state sp) +++ "_data", ss_field sp)) (m_storage m)
  /\ forall s x a f, state_acc g s = Some (x, a, f) -> x = s.
Proof.
  split; [reflexivity|]. intros s x a f H. unfold state_acc in H. apply find_some in H as [_ H].
  cbn in H. apply String.eqb_eq in H. exact H.
Qed.

End M.

(* ---------- C14 (configuration and naming) ---------- *)

Theorem dynamic_iff_requested m feat :
  (exists gd, gr_dyn (codegen m feat) = Some gd) <-> m_dynamic m || feat = true.
Proof.
  unfold codegen. cbn [gr_dyn]. destruct (m_dynamic m || feat); split; try discriminate; try (intros [gd H]; discriminate).
  - reflexivity.
  - intros _. eexists. reflexivity.
Qed.

Theorem item_names_convention m feat :
  type_items (codegen m feat) =
    (m_states m ++ all_superstates (m_hier m)) ++ [m_name m]
    ++ (if m_dynamic m || feat then [m_name m +++ "Event"; "Any" +++ m_name m +++ "State"; "Dynamic" +++ m_name m] else [])
  /\ (forall e, gm_name (gen_method m e) = to_snake_case (g_event e))
  /\ gd_events (gen_dyn m) = map (fun ev => (to_pascal_case (e_name ev), e_name ev, e_payload ev)) (m_events m)
  /\ gd_into (gen_dyn m) = map (fun s => ("into_" +++ to_snake_case s, s)) (m_states m)
  /\ (forall a, In a (gen_accs m) -> exists sp, In sp (m_storage m) /\
        gc_read a = to_snake_case (ss_state sp) +++ "_data" /\
        gc_write a = to_snake_case (ss_state sp) +++ "_data_mut" /\
        gc_set a = "set_" +++ to_snake_case (ss_state sp) +++ "_data").
Proof.
  split; [|split; [|split; [|split]]]; try reflexivity.
  - unfold type_items, codegen. cbn. destruct (m_dynamic m || feat); reflexivity.
  - intros a Ha. unfold gen_accs in Ha. apply in_flat_map in Ha as (sp & Hsp & Ha).
    destruct (expand_state _ _ _); [contradiction|]. destruct Ha as [<-|[]]. exists sp. repeat split. exact Hsp.
Qed.

(* ---------- C17 (footprint, model level) ---------- *)

(* the machine struct is { ctx, _state: PhantomData<S>, one Option<T> per data state }: without state
   data its only sized field is the context *)
Definition machine_size (ctx_size : nat) (opt_size : ty -> nat) (g : gir) : nat :=
  ctx_size + 0 + fold_right (fun fd acc => opt_size (snd fd) + acc) 0 (gr_fields g).

Theorem no_data_machine_is_its_context d m items ps feat ctx_size opt_size :
  front_facts d m items ps ->
  (gr_fields (codegen m feat) = [] <-> data_of items = []) /\
  (data_of items = [] -> machine_size ctx_size opt_size (codegen m feat) = ctx_size).
Proof.
  intros F. pose proof (ff_parse _ _ _ _ F) as Hp.
  assert (E : gr_fields (codegen m feat) = map (fun p => (storage_field (fst p), snd p)) (data_of items)).
  { unfold codegen. cbn [gr_fields]. rewrite (ff_storage _ _ _ _ F), (ps_storage _ _ Hp), map_map. reflexivity. }
  split.
  - rewrite E. destruct (data_of items); cbn; split; congruence.
  - intros H. unfold machine_size. rewrite E, H. cbn. lia.
Qed.

(* markers: one unit struct per leaf and per superstate, nothing else *)
Theorem markers_are_leaves_and_superstates d m items ps feat :
  front_facts d m items ps ->
  forall x, In x (gr_markers (codegen m feat)) <-> (In x (leaves_of items) \/ In x (supers_of items)).
Proof.
  intros F x. pose proof (ff_parse _ _ _ _ F) as Hp. unfold codegen. cbn [gr_markers].
  rewrite in_app_iff, (ff_leaves _ _ _ _ F), (ff_hier _ _ _ _ F).
  assert (Hs : In x (all_superstates (p_hier ps)) <-> In x (supers_of items)).
  { unfold all_superstates. rewrite <- find_super_supers.
    assert (Hd : forall l y, In y (dedup l) <-> In y l).
    { induction l as [|z r IH]; intros y; [reflexivity|]. cbn [dedup].
      destruct (mem z r) eqn:Em.
      - rewrite IH. split; [intros H; right; exact H|]. intros [<-|H]; [apply mem_In; exact Em|exact H].
      - cbn. rewrite IH. reflexivity. }
    rewrite Hd. split.
    - intros Hin. apply in_map_iff in Hin as ([k v] & <- & Hkv). cbn.
      assert (Ha : exists v', assoc k (h_lookup (p_hier ps)) = Some v').
      { clear - Hkv. induction (h_lookup (p_hier ps)) as [|[k0 v0] r IH]; [contradiction|]. cbn.
        destruct (String.eqb k k0) eqn:E; [eexists; reflexivity|].
        destruct Hkv as [Hk|Hk]; [inversion Hk; subst; rewrite String.eqb_refl in E; discriminate|apply IH; exact Hk]. }
      destruct Ha as [v' Ha]. rewrite (ps_lookup _ _ Hp) in Ha.
      destruct (find_super k items) as [b|]; [eexists; reflexivity|discriminate].
    - intros [b Hb]. pose proof (ps_lookup _ _ Hp x) as Hl. rewrite Hb in Hl.
      clear - Hl. induction (h_lookup (p_hier ps)) as [|[k0 v0] r IH]; [discriminate|]. cbn in *.
      destruct (String.eqb x k0) eqn:E; [apply String.eqb_eq in E; left; congruence|right; apply IH; exact Hl]. }
  rewrite Hs. reflexivity.
Qed.
