(* NoBlanket.v -- the blanket `impl<C, S: SubstateOf<G>> M<C, S>` blocks of typestate.rs
   (generate_superstate_transition_method) are never emitted for an accepted definition: the transition
   graph is keyed by leaves only, and a superstate name is never a leaf name.  Hence the inherent methods
   of a state type are exactly the methods of its own impl (no method reaches a state type through a
   superstate bound). *)
From Coq Require Import String List Bool Arith Lia.
From SM Require Import Ident Ast Front Spec Gir Codegen Sem Dyn.
From SM.Lemmas Require Import FrontLemmas FrontTop GirLemmas DynTheorems.
Import ListNotations.
Open Scope string_scope.
Open Scope list_scope.

Lemma in_dedup x l : In x (dedup l) -> In x l.
Proof.
  induction l as [|y l IH]; [intros []|]. cbn [dedup]. destruct (mem y l).
  - intros H. right. apply IH. exact H.
  - intros [->|H]; [left; reflexivity|right; apply IH; exact H].
Qed.

Lemma assoc_of_key {A} g (l : list (ident * A)) : In g (map fst l) -> exists v, assoc g l = Some v.
Proof.
  induction l as [|[k v] l IH]; [intros []|]. cbn [map fst assoc]. intros [->|H].
  - rewrite String.eqb_refl. eexists. reflexivity.
  - destruct (String.eqb g k); [eexists; reflexivity|apply IH; exact H].
Qed.

Lemma graph_keys_are_leaves d m items ps s e :
  front_facts d m items ps -> In (s, e) (m_graph m) -> In s (leaves_of items).
Proof.
  intros F H. rewrite (ff_graph _ _ _ _ F), (ff_hier _ _ _ _ F), (ff_leaves _ _ _ _ F) in H.
  pose proof (ff_parse _ _ _ _ F) as Hp. rewrite <- (ps_leaves _ _ Hp) in H.
  apply in_build_graph in H as (ev & tr & src & _ & _ & _ & Hs & _).
  rewrite (expand_state_spec _ _ Hp) in Hs. eapply leaves_under_sub. exact Hs.
Qed.

Theorem no_blanket_impls d m items ps :
  front_facts d m items ps -> gen_superimpls m = [].
Proof.
  intros F. unfold gen_superimpls.
  assert (H : forall g, In g (all_superstates (m_hier m)) -> outgoing (m_graph m) g = []).
  { intros g Hg. destruct (outgoing (m_graph m) g) as [|e es] eqn:Eo; [reflexivity|exfalso].
    assert (He : In (g, e) (m_graph m)) by (apply in_outgoing; rewrite Eo; left; reflexivity).
    pose proof (graph_keys_are_leaves _ _ _ _ _ _ F He) as Hl.
    pose proof (ff_parse _ _ _ _ F) as Hp.
    pose proof (leaf_not_super _ _ Hp g Hl) as Hn.
    unfold all_superstates in Hg. apply in_dedup in Hg. rewrite (ff_hier _ _ _ _ F) in Hg.
    apply assoc_of_key in Hg as [v Hv]. rewrite (ps_lookup _ _ Hp) in Hv. rewrite Hn in Hv. discriminate. }
  induction (all_superstates (m_hier m)) as [|g gs IH]; [reflexivity|].
  cbn [flat_map]. rewrite (H g (or_introl eq_refl)). cbn [app]. apply IH. intros g' Hg'. apply H. right. exact Hg'.
Qed.
