(* RefSem.v -- reference semantics of a whole generated body as one flat hook list. *)
From Coq Require Import String List Bool Arith Lia.
From SM Require Import Ident Ast Front Gir Codegen Sem.
From SM.Lemmas Require Import SemLemmas.
Import ListNotations.
Open Scope list_scope.

(* ------------------------------------------------------------------------------------------
   Reference semantics of a whole body: the flat hook list, run to completion (no abandonment). *)
Section Ref.
Variable am : bool.
Variable plb : bool.
Variable ev : ident.
Variable pl : option nat.
Variable w : oracle.
Variable self newm : tmachine.

Definition recv_of (k : segk) : tmachine := if on_new k then newm else self.
Definition susp_at (i : nat) : nat := if am then an_susp (w i) else 0.
Definition call_at (k : segk) (i : nat) (n : ident) (done : bool) : call :=
  mk_call (hkind_of k) n (recv_of k) (plarg plb pl k) (susp_at i) done.

Fixpoint ref_run (hs : list (segk * ident)) (i : nat) : list call * nat * option tres :=
  match hs with
  | [] => ([], 0, None)
  | (k, n) :: r =>
      match an_val (w i) with
      | APanic => ([call_at k i n false], susp_at i, Some (RPanicHook n))
      | v =>
          match stop_of ev k self n v with
          | Some res => ([call_at k i n true], susp_at i, Some res)
          | None => let '(tr, p, res) := ref_run r (S i) in (call_at k i n true :: tr, susp_at i + p, res)
          end
      end
  end.

Lemma ref_run_app l1 l2 i :
  ref_run (l1 ++ l2) i =
  match ref_run l1 i with
  | (tr, p, Some r) => (tr, p, Some r)
  | (tr, p, None) => let '(tr2, p2, r2) := ref_run l2 (i + length l1) in (tr ++ tr2, p + p2, r2)
  end.
Proof.
  revert i. induction l1 as [|[k n] l1 IH]; intros i.
  - cbn. rewrite Nat.add_0_r. destruct (ref_run l2 i) as [[tr p] r]. reflexivity.
  - cbn [app ref_run length].
    destruct (an_val (w i)) eqn:Ea; try reflexivity;
      (destruct (stop_of ev k self n _); [reflexivity|];
       rewrite IH; destruct (ref_run l1 (S i)) as [[tr p] [r|]]; [reflexivity|];
       replace (i + S (length l1)) with (S i + length l1) by lia;
       destruct (ref_run l2 (S i + length l1)) as [[tr2 p2] r2]; cbn [app]; f_equal; f_equal; lia).
Qed.

Lemma ref_run_none_len hs i tr p : ref_run hs i = (tr, p, None) -> length tr = length hs.
Proof.
  revert i tr p. induction hs as [|[k n] hs IH]; intros i tr p H.
  - cbn in H. inversion H. reflexivity.
  - cbn [ref_run] in H.
    destruct (an_val (w i)); try discriminate;
      (destruct (stop_of ev k self n _); [discriminate|];
       destruct (ref_run hs (S i)) as [[tr' p'] r'] eqn:E; inversion H; subst;
       cbn [length]; f_equal; eapply IH; eassumption).
Qed.

Lemma ref_run_len_le hs i : length (fst (fst (ref_run hs i))) <= length hs.
Proof.
  revert i. induction hs as [|[k n] hs IH]; intros i; cbn [ref_run]; [cbn; lia|].
  destruct (an_val (w i)); cbn [fst length]; try lia;
    (destruct (stop_of ev k self n _); cbn [fst length]; [lia|];
     specialize (IH (S i)); destruct (ref_run hs (S i)) as [[tr p] r]; cbn [fst length] in *; lia).
Qed.

(* one segment of the real exec, against the reference *)
Lemma run_seg_ref k names x :
  x_budget x = None -> x_self x = self -> recv k x = Some (recv_of k) ->
  run_seg am plb ev pl w k names x =
  let '(tr, p, res) := ref_run (map (pair k) names) (x_i x) in
  (Build_xst self (x_new x) (x_i x + length tr) (x_tr x ++ tr) (x_pend x + p) None, res).
Proof.
  revert x. induction names as [|n names IH]; intros x Hb Hs Hr.
  - cbn. rewrite Nat.add_0_r, app_nil_r, Nat.add_0_r. destruct x; cbn in *; subst; reflexivity.
  - cbn [map run_seg ref_run]. rewrite Hr.
    unfold invoke. rewrite eqb_refl_b. cbn [negb]. rewrite Hb.
    fold (susp_at (x_i x)).
    assert (Hc : forall d, mk_call (hkind_of k) n (recv_of k) (plarg plb pl k) (susp_at (x_i x)) d
                           = call_at k (x_i x) n d) by reflexivity.
    destruct (an_val (w (x_i x))) eqn:Ea; rewrite ?Hc, ?Hs;
      try (destruct (stop_of ev k self n _) eqn:Es; cbv beta iota;
           [ cbn [length app]; rewrite Nat.add_1_r; reflexivity
           | rewrite IH; [ cbn [x_i x_tr x_pend x_new];
                           destruct (ref_run (map (pair k) names) (S (x_i x))) as [[tr p] r];
                           cbn [length]; rewrite <- app_assoc; cbn [app];
                           replace (S (x_i x) + length tr) with (x_i x + S (length tr)) by lia;
                           rewrite Nat.add_assoc; reflexivity
                         | reflexivity | reflexivity
                         | unfold recv in *; cbn [x_new x_self]; rewrite Hs in Hr; exact Hr ] ]).
    cbv beta iota. cbn [length app]. rewrite Nat.add_1_r. reflexivity.
Qed.

End Ref.

(* ------------------------------------------------------------------------------------------ *)
Section Body.
Variable am : bool.
Variable plb : bool.
Variable ev : ident.
Variable pl : option nat.
Variable w : oracle.
Variable self newm : tmachine.

Definition seg_stmts (segs : list (segk * list ident)) : list stmt :=
  flat_map (fun s => map (stmt_of am plb ev (fst s)) (snd s)) segs.
Definition seg_hooks (segs : list (segk * list ident)) : list (segk * ident) :=
  flat_map (fun s => map (pair (fst s)) (snd s)) segs.

Definition adv (x : xst) (tr : list call) (p : nat) : xst :=
  Build_xst self (x_new x) (x_i x + length tr) (x_tr x ++ tr) (x_pend x + p) None.

Lemma exec_segs segs rest x :
  x_budget x = None -> x_self x = self ->
  Forall (fun s => recv (fst s) x = Some (recv_of self newm (fst s))) segs ->
  exec am pl w (seg_stmts segs ++ rest) x =
  match ref_run am plb ev pl w self newm (seg_hooks segs) (x_i x) with
  | (tr, p, Some r) => (adv x tr p, r)
  | (tr, p, None) => exec am pl w rest (adv x tr p)
  end.
Proof.
  revert x. induction segs as [|[k names] segs IH]; intros x Hb Hs Hf.
  - cbn. unfold adv. cbn. rewrite Nat.add_0_r, app_nil_r, Nat.add_0_r.
    destruct x; cbn in *; subst; reflexivity.
  - inversion Hf as [|? ? Hk Hf']; subst.
    unfold seg_stmts, seg_hooks. cbn [flat_map fst snd]. rewrite <- app_assoc.
    rewrite exec_seg. rewrite (run_seg_ref am plb ev pl w self newm k names x Hb Hs Hk).
    rewrite ref_run_app.
    destruct (ref_run am plb ev pl w self newm (map (pair k) names) (x_i x)) as [[tr p] [r|]] eqn:E.
    + reflexivity.
    + fold (seg_stmts segs). fold (seg_hooks segs).
      pose proof (ref_run_none_len _ _ _ _ _ _ _ _ _ _ _ E) as Hl. rewrite map_length in Hl.
      rewrite IH; cbn [x_i x_budget x_self x_new x_tr x_pend].
      * rewrite map_length, Hl.
        destruct (ref_run am plb ev pl w self newm (seg_hooks segs) (x_i x + length names)) as [[tr2 p2] [r2|]];
          unfold adv; cbn [x_i x_budget x_self x_new x_tr x_pend];
          rewrite app_length, <- app_assoc, !Nat.add_assoc, ?Hl; reflexivity.
      * reflexivity.
      * reflexivity.
      * eapply Forall_impl; [|exact Hf']. intros s Hrs. unfold recv in *. cbn [x_new x_self].
        rewrite Hs in Hrs. exact Hrs.
Qed.

End Body.

Definition hooks_of (h : hooks) : list (segk * ident) :=
  map (pair KAB) (h_around h) ++ map (pair KG) (h_guards h) ++ map (pair KU) (h_unless h)
  ++ map (pair KB) (h_before h) ++ map (pair KA) (h_after h) ++ map (pair KAA) (h_around h).

Definition new_machine (m : machine) (e : edge) (self : tmachine) : tmachine :=
  Build_tmachine (g_target e) (tm_ctx self)
                 (map (fun fi => (fst fi, init_slot (snd fi))) (slot_inits m (g_target e))).

Definition eff_pl (e : edge) (pl : option nat) : option nat := if has_pl e then pl else None.

(* the run of a generated method, in closed form over the flat hook list *)
Theorem run_method_ref m e self pl w :
  run_method (gen_method m e) self pl w None =
  let '(tr, p, res) := ref_run (m_async m) (has_pl e) (g_event e) (eff_pl e pl) w self (new_machine m e self)
                               (hooks_of (g_hooks e)) 0 in
  Build_run_out tr p (match res with Some r => r | None => ROk (new_machine m e self) end).
Proof.
  unfold run_method, gen_method. cbn [gm_payload gm_async gm_body].
  assert (Hpl : match g_payload e with Some _ => pl | None => None end = eff_pl e pl).
  { unfold eff_pl, has_pl. destruct (g_payload e); reflexivity. }
  rewrite Hpl.
  assert (Hbud : (if m_async m then @None nat else None) = None) by (destruct (m_async m); reflexivity).
  rewrite Hbud.
  set (am := m_async m). set (plb := has_pl e). set (ev := g_event e). set (p' := eff_pl e pl).
  set (nm := new_machine m e self). set (h := g_hooks e).
  set (x0 := Build_xst self None 0 [] 0 None).
  set (pre := [(KAB, h_around h); (KG, h_guards h); (KU, h_unless h); (KB, h_before h)]).
  set (post := [(KA, h_after h); (KAA, h_around h)]).
  assert (Hbody : gen_body m e = seg_stmts am plb ev pre ++ (SConstruct (g_target e) true (slot_inits m (g_target e))
                                   :: (seg_stmts am plb ev post ++ [SRetOk]))).
  { unfold gen_body, seg_stmts, pre, post. cbn [flat_map fst snd stmt_of].
    rewrite !app_nil_r. fold am plb ev h. rewrite <- !app_assoc. reflexivity. }
  assert (Hhooks : hooks_of h = seg_hooks pre ++ seg_hooks post).
  { unfold hooks_of, seg_hooks, pre, post. cbn [flat_map fst snd]. rewrite !app_nil_r, <- !app_assoc. reflexivity. }
  rewrite Hbody, Hhooks.
  rewrite (exec_segs am plb ev p' w self nm pre _ x0); [| reflexivity | reflexivity |].
  2:{ unfold pre. repeat constructor. }
  rewrite ref_run_app. cbn [x_i x0].
  destruct (ref_run am plb ev p' w self nm (seg_hooks pre) 0) as [[tr1 p1] [r1|]] eqn:E1.
  - unfold adv. cbn. reflexivity.
  - pose proof (ref_run_none_len _ _ _ _ _ _ _ _ _ _ _ E1) as Hl1.
    cbn [exec]. unfold set_new. cbn [x_self x_new x_i x_tr x_pend x_budget adv x0 tm_ctx].
    change (Build_tmachine (g_target e) (tm_ctx self) _) with nm.
    rewrite (exec_segs am plb ev p' w self nm post _ _); cbn [x_self x_new x_i x_tr x_pend x_budget];
      [| reflexivity | reflexivity | unfold post; repeat constructor ].
    cbn [Nat.add app]. rewrite Hl1.
    destruct (ref_run am plb ev p' w self nm (seg_hooks post) (length (seg_hooks pre))) as [[tr2 p2] [r2|]] eqn:E2.
    + unfold adv. cbn. reflexivity.
    + unfold adv. cbn. reflexivity.
Qed.
