(* RenameLemmas.v -- the run-time semantics of a generated program is natural in its identifiers:
   relabelling every identifier of the program, of the machine value and of the names the user's hooks
   carry in their aborts relabels the outcome and changes nothing else.  The relabelling may differ per
   namespace (states, events, hooks, enum variants, method names, data fields, accessor names), because
   the generated names of a renamed definition are re-derived from the new names, not images of the old
   ones under one function.  A method run never compares identifiers (any relabelling, even a
   non-injective one); dispatch through the dynamic wrapper compares states, event literals, variants,
   method names and fields within their namespaces, so it needs those relabellings to be injective, and
   the state relabelling to fix the two literals of the generated code that are not identifiers
   ("" and "<extracted>"). *)
From Coq Require Import String Ascii List Bool Arith Lia.
From SM Require Import Ident Ast Front Gir Codegen Sem Dyn.
Import ListNotations.
Open Scope string_scope.
Open Scope list_scope.

(* one relabelling per namespace of the generated program *)
Record roles := {
  r_st : ident -> ident;     (* states, superstates, the machine: markers, AnyState variants, state literals *)
  r_ev : ident -> ident;     (* declared event names (the literals in errors and in Event::name()) *)
  r_hk : ident -> ident;     (* hook names, and the guard/action names carried by aborts *)
  r_var : ident -> ident;    (* Event enum variants *)
  r_mth : ident -> ident;    (* event method names *)
  r_fld : ident -> ident;    (* data storage fields *)
  r_acc : ident -> ident }.  (* accessor, setter and conversion method names *)
Definition uniform (f : ident -> ident) : roles := Build_roles f f f f f f f.

Definition injective (h : ident -> ident) : Prop := forall a b, h a = h b -> a = b.

Section Rename.
Variable R : roles.
Local Notation fst_ := (r_st R).
Local Notation fev := (r_ev R).
Local Notation fhk := (r_hk R).
Local Notation fvar := (r_var R).
Local Notation fmth := (r_mth R).
Local Notation ffld := (r_fld R).
Local Notation facc := (r_acc R).

Definition rn_pairs {A} (l : list (ident * A)) : list (ident * A) := map (fun p => (ffld (fst p), snd p)) l.
Definition rn_tm (t : tmachine) : tmachine := Build_tmachine (fst_ (tm_state t)) (tm_ctx t) (rn_pairs (tm_slots t)).
Definition rn_akind (k : akind) : akind :=
  match k with AKGuard n => AKGuard (fhk n) | AKAction n => AKAction (fhk n) | AKInvalid => AKInvalid end.
Definition rn_answer (a : answer) : answer := match a with AAbort k => AAbort (rn_akind k) | x => x end.
Definition rn_ans (a : ans) : ans := Build_ans (rn_answer (an_val a)) (an_susp a).
Definition rn_oracle (w : oracle) : oracle := fun i => rn_ans (w i).
Definition rn_call (c : call) : call :=
  Build_call (c_kind c) (fhk (c_name c)) (fst_ (c_state c)) (c_slots c) (c_ctx c) (c_pl c) (c_susp c) (c_done c).
Definition rn_gerr (e : gerr) : gerr := Build_gerr (fhk (ge_guard e)) (fev (ge_event e)) (rn_akind (ge_kind e)).
Definition rn_tres (r : tres) : tres :=
  match r with
  | ROk m => ROk (rn_tm m)
  | RErr m e => RErr (rn_tm m) (rn_gerr e)
  | RPanicHook n => RPanicHook (fhk n)
  | RPanicAfter n e => RPanicAfter (fhk n) (fev e)
  | RAbandoned => RAbandoned
  | RStuck => RStuck
  end.
Definition rn_stmt (s : stmt) : stmt :=
  match s with
  | SAroundBefore cb aw ev => SAroundBefore (fhk cb) aw (fev ev)
  | SCond neg g wpl aw gl el => SCond neg (fhk g) wpl aw (fhk gl) (fev el)
  | SBefore cb wpl aw => SBefore (fhk cb) wpl aw
  | SConstruct tgt moved inits => SConstruct (fst_ tgt) moved (rn_pairs inits)
  | SAfter cb wpl aw => SAfter (fhk cb) wpl aw
  | SAroundAfter cb aw ev => SAroundAfter (fhk cb) aw (fev ev)
  | SRetOk => SRetOk
  end.
Definition rn_method (gm : gmethod) : gmethod :=
  Build_gmethod (fmth (gm_name gm)) (gm_async gm) (gm_payload gm) (fst_ (gm_target gm)) (map rn_stmt (gm_body gm)).
Definition rn_xst (x : xst) : xst :=
  Build_xst (rn_tm (x_self x)) (option_map rn_tm (x_new x)) (x_i x) (map rn_call (x_tr x)) (x_pend x) (x_budget x).
Definition rn_cres (c : cres) : cres := match c with CAns a => CAns (rn_answer a) | x => x end.
Definition rn_out (o : run_out) : run_out := Build_run_out (map rn_call (ro_trace o)) (ro_pend o) (rn_tres (ro_res o)).

Lemma rn_pairs_snd {A} (l : list (ident * A)) : map snd (rn_pairs l) = map snd l.
Proof. unfold rn_pairs. rewrite map_map. reflexivity. Qed.

Lemma mk_call_rn k name on pl susp dn :
  mk_call k (fhk name) (rn_tm on) pl susp dn = rn_call (mk_call k name on pl susp dn).
Proof. unfold mk_call, rn_call, rn_tm. cbn. rewrite rn_pairs_snd. reflexivity. Qed.

Lemma abort_name_rn k cb : abort_name (rn_akind k) (fhk cb) = fhk (abort_name k cb).
Proof. destruct k; reflexivity. Qed.

Lemma invoke_rn am aw must w x k name on pl :
  invoke am aw must (rn_oracle w) (rn_xst x) k (fhk name) (rn_tm on) pl =
  (rn_xst (fst (invoke am aw must w x k name on pl)), rn_cres (snd (invoke am aw must w x k name on pl))).
Proof.
  unfold invoke, rn_oracle.
  destruct (negb (Bool.eqb am aw)); [destruct (must || aw); reflexivity|].
  cbn [x_i x_budget rn_xst an_susp rn_ans an_val].
  destruct (x_budget x) as [b|]; [destruct (b <=? (if am then an_susp (w (x_i x)) else 0))%nat|];
    try (destruct (an_val (w (x_i x))) as [|bb|kd|]);
    cbn [rn_answer fst snd rn_cres]; unfold rn_xst; cbn [x_self x_new x_i x_tr x_pend x_budget];
    rewrite map_app; cbn [map]; rewrite mk_call_rn; reflexivity.
Qed.

Lemma guard_ans_rn a : guard_ans (rn_answer a) = guard_ans a.
Proof. destruct a; reflexivity. Qed.
Lemma unless_ans_rn a : unless_ans (rn_answer a) = unless_ans a.
Proof. destruct a; reflexivity. Qed.

Lemma set_new_rn x nm : set_new (rn_xst x) (rn_tm nm) = rn_xst (set_new x nm).
Proof. reflexivity. Qed.

Lemma exec_rn am pl w ss : forall x,
  exec am pl (rn_oracle w) (map rn_stmt ss) (rn_xst x) =
  (rn_xst (fst (exec am pl w ss x)), rn_tres (snd (exec am pl w ss x))).
Proof.
  induction ss as [|s rest IH]; intros x; [reflexivity|].
  destruct s as [cb aw ev|neg g wpl aw gl el|cb wpl aw|tgt moved inits|cb wpl aw|cb aw ev|];
    cbn [map rn_stmt exec].
  - change (x_self (rn_xst x)) with (rn_tm (x_self x)). rewrite invoke_rn.
    destruct (invoke am aw true w x HAroundBefore cb (x_self x) None) as [x' c]. cbn [fst snd].
    destruct c as [a| | | |]; cbn [rn_cres]; try reflexivity.
    destruct a as [|b|k|]; cbn [rn_answer]; try apply IH.
    cbn [fst snd rn_tres]. unfold rn_gerr. cbn. rewrite abort_name_rn. reflexivity.
  - change (x_self (rn_xst x)) with (rn_tm (x_self x)). rewrite invoke_rn.
    destruct (invoke am aw true w x (if neg then HGuard else HUnless) g (x_self x) (pl_if pl wpl)) as [x' c].
    cbn [fst snd]. destruct c as [a| | | |]; cbn [rn_cres]; try reflexivity.
    rewrite guard_ans_rn, unless_ans_rn.
    destruct (if neg then negb (guard_ans a) else unless_ans a); [reflexivity|apply IH].
  - change (x_self (rn_xst x)) with (rn_tm (x_self x)). rewrite invoke_rn.
    destruct (invoke am aw false w x HBefore cb (x_self x) (pl_if pl wpl)) as [x' c].
    cbn [fst snd]. destruct c as [a| | | |]; cbn [rn_cres]; try reflexivity; apply IH.
  - change (x_self (rn_xst x)) with (rn_tm (x_self x)).
    replace (Build_tmachine (fst_ tgt) (if moved then tm_ctx (rn_tm (x_self x)) else 0)
               (map (fun fi => (fst fi, init_slot (snd fi))) (rn_pairs inits)))
      with (rn_tm (Build_tmachine tgt (if moved then tm_ctx (x_self x) else 0)
                                  (map (fun fi => (fst fi, init_slot (snd fi))) inits))).
    + rewrite set_new_rn. apply IH.
    + unfold rn_tm, rn_pairs. cbn. rewrite !map_map. reflexivity.
  - change (x_new (rn_xst x)) with (option_map rn_tm (x_new x)).
    destruct (x_new x) as [nm|]; cbn [option_map]; [|reflexivity].
    rewrite invoke_rn.
    destruct (invoke am aw false w x HAfter cb nm (pl_if pl wpl)) as [x' c].
    cbn [fst snd]. destruct c as [a| | | |]; cbn [rn_cres]; try reflexivity; apply IH.
  - change (x_new (rn_xst x)) with (option_map rn_tm (x_new x)).
    destruct (x_new x) as [nm|]; cbn [option_map]; [|reflexivity].
    rewrite invoke_rn.
    destruct (invoke am aw true w x HAroundAfter cb nm None) as [x' c]. cbn [fst snd].
    destruct c as [a| | | |]; cbn [rn_cres]; try reflexivity.
    destruct a as [|b|k|]; cbn [rn_answer]; try apply IH.
    cbn [fst snd rn_tres]. rewrite abort_name_rn. reflexivity.
  - change (x_new (rn_xst x)) with (option_map rn_tm (x_new x)).
    destruct (x_new x) as [nm|]; reflexivity.
Qed.

Lemma run_method_rn gm self pl w b :
  run_method (rn_method gm) (rn_tm self) pl (rn_oracle w) b = rn_out (run_method gm self pl w b).
Proof.
  unfold run_method. cbn [rn_method gm_payload gm_async gm_body].
  change (Build_xst (rn_tm self) None 0 [] 0 (if gm_async gm then b else None))
    with (rn_xst (Build_xst self None 0 [] 0 (if gm_async gm then b else None))).
  rewrite exec_rn.
  destruct (exec (gm_async gm) match gm_payload gm with Some _ => pl | None => None end w (gm_body gm)
                 (Build_xst self None 0 [] 0 (if gm_async gm then b else None))) as [x r].
  reflexivity.
Qed.

(* ---------------------------------------------------------------- dispatch *)

Definition rn_derr (e : derr) : derr :=
  match e with
  | DInvalid a b => DInvalid (fst_ a) (fev b)
  | DGuardFailed a b => DGuardFailed (fhk a) (fev b)
  | DActionFailed a b => DActionFailed (fhk a) (fev b)
  | DWrongState a b c => DWrongState (fst_ a) (fst_ b) (facc c)
  end.
Definition rn_hres (r : hres) : hres :=
  match r with
  | HErr e => HErr (rn_derr e)
  | HPanicHook n => HPanicHook (fhk n)
  | HPanicAfter n e => HPanicAfter (fhk n) (fev e)
  | x => x
  end.
Definition rn_dyn (d : dyn) : dyn := Build_dyn (option_map rn_tm (d_inner d)).
Definition rn_hout (o : handle_out) : handle_out :=
  Build_handle_out (rn_dyn (ho_dyn o)) (map rn_call (ho_trace o)) (ho_pend o) (rn_hres (ho_res o)).
Definition rn_arm (a : garm) : garm :=
  Build_garm (fst_ (ga_src a)) (fev (ga_event a)) (fvar (ga_variant a)) (ga_binds_pl a) (fmth (ga_method a)) (ga_aw a)
             (fst_ (ga_ok a)) (fst_ (ga_restore a)).
Definition rn_acc (a : gacc) : gacc :=
  Build_gacc (fst_ (gc_state a)) (ffld (gc_field a)) (facc (gc_read a)) (facc (gc_write a)) (facc (gc_set a))
             (map fst_ (gc_variants a)).
Definition rn_gdyn (gd : gdyn) : gdyn :=
  Build_gdyn (map (fun v => (fvar (fst (fst v)), fev (snd (fst v)), snd v)) (gd_events gd))
             (map (fun v => (fst_ (fst v), fst_ (snd v))) (gd_states gd))
             (fst_ (gd_initial gd)) (map rn_arm (gd_arms gd)) (map rn_acc (gd_accs gd))
             (map (fun v => (facc (fst v), fst_ (snd v))) (gd_into gd)).
Definition rn_impl (gi : gimpl) : gimpl :=
  Build_gimpl (fst_ (gi_state gi)) (option_map rn_pairs (gi_new gi)) (map rn_method (gi_methods gi)).
Definition rn_super (gs : gsuperimpl) : gsuperimpl := Build_gsuperimpl (fst_ (gs_super gs)) (map rn_method (gs_methods gs)).
Definition rn_gir (g : gir) : gir :=
  Build_gir (fst_ (gr_name g)) (gr_ctx g) (map fst_ (gr_markers g)) (rn_pairs (gr_fields g)) (map rn_impl (gr_impls g))
            (map (fun v => (facc (fst v), ffld (snd v))) (gr_storage_accs g))
            (map (fun v => (fst_ (fst (fst v)), facc (snd (fst v)), ffld (snd v))) (gr_state_accs g))
            (map (fun v => (fst_ (fst v), fst_ (snd v))) (gr_substate g))
            (map rn_super (gr_superimpls g)) (option_map rn_gdyn (gr_dyn g)).

Hypothesis st_inj : injective fst_.
Hypothesis ev_inj : injective fev.
Hypothesis var_inj : injective fvar.
Hypothesis mth_inj : injective fmth.
Hypothesis fld_inj : injective ffld.
Hypothesis st_empty : fst_ "" = "".
Hypothesis st_extracted : fst_ "<extracted>" = "<extracted>".

Lemma eqb_inj (h : ident -> ident) (Hh : injective h) a b : String.eqb (h a) (h b) = String.eqb a b.
Proof.
  destruct (String.eqb_spec a b) as [->|N]; [apply String.eqb_refl|].
  destruct (String.eqb_spec (h a) (h b)) as [E|_]; [|reflexivity]. elim N. apply Hh. exact E.
Qed.

Lemma find_map_rn {A B} (h : A -> B) (p : A -> bool) (q : B -> bool) (l : list A) :
  (forall x, q (h x) = p x) -> find q (map h l) = option_map h (find p l).
Proof.
  intros H. induction l as [|x l IH]; [reflexivity|]. cbn [map find]. rewrite H.
  destruct (p x); [reflexivity|exact IH].
Qed.

Lemma filter_map_rn {A B} (h : A -> B) (p : A -> bool) (q : B -> bool) (l : list A) :
  (forall x, q (h x) = p x) -> filter q (map h l) = map h (filter p l).
Proof.
  intros H. induction l as [|x l IH]; [reflexivity|]. cbn [map filter]. rewrite H.
  destruct (p x); cbn [map]; rewrite IH; reflexivity.
Qed.

Lemma mem_inj (h : ident -> ident) (Hh : injective h) k l : mem (h k) (map h l) = mem k l.
Proof.
  unfold mem. induction l as [|x l IH]; [reflexivity|]. cbn [map existsb]. rewrite (eqb_inj h Hh), IH. reflexivity.
Qed.

Lemma assoc_inj (h h' : ident -> ident) (Hh : injective h) (k : ident) (l : list (ident * ident)) :
  assoc (h k) (map (fun v => (h (fst v), h' (snd v))) l) = option_map h' (assoc k l).
Proof.
  induction l as [|[a b] l IH]; [reflexivity|]. cbn [map assoc fst snd]. rewrite (eqb_inj h Hh).
  destruct (String.eqb k a); [reflexivity|exact IH].
Qed.

Lemma state_lit_rn gd v : state_lit (rn_gdyn gd) (fst_ v) = fst_ (state_lit gd v).
Proof.
  unfold state_lit. cbn [rn_gdyn gd_states]. rewrite (assoc_inj fst_ fst_ st_inj).
  destruct (assoc v (gd_states gd)); cbn [option_map]; [reflexivity|symmetry; exact st_empty].
Qed.

Lemma event_variant_rn gd ev :
  event_variant (rn_gdyn gd) (fev ev) =
  option_map (fun v => (fvar (fst (fst v)), fev (snd (fst v)), snd v)) (event_variant gd ev).
Proof.
  unfold event_variant. cbn [rn_gdyn gd_events]. apply find_map_rn.
  intros [[a b] c]. cbn [fst snd]. apply (eqb_inj fev ev_inj).
Qed.

Lemma find_arm_rn gd s v : find_arm (rn_gdyn gd) (fst_ s) (fvar v) = option_map rn_arm (find_arm gd s v).
Proof.
  unfold find_arm. cbn [rn_gdyn gd_arms]. apply find_map_rn.
  intros a. unfold rn_arm. cbn [ga_src ga_variant]. rewrite (eqb_inj fst_ st_inj), (eqb_inj fvar var_inj). reflexivity.
Qed.

Lemma impl_of_rn g s : impl_of (rn_gir g) (fst_ s) = option_map rn_impl (impl_of g s).
Proof.
  unfold impl_of. cbn [rn_gir gr_impls]. apply find_map_rn.
  intros gi. cbn [rn_impl gi_state]. apply (eqb_inj fst_ st_inj).
Qed.

Lemma methods_of_rn g s n : methods_of (rn_gir g) (fst_ s) (fmth n) = map rn_method (methods_of g s n).
Proof.
  unfold methods_of. rewrite impl_of_rn. destruct (impl_of g s) as [gi|]; cbn [option_map]; [|reflexivity].
  cbn [rn_impl gi_methods]. apply filter_map_rn. intros gm. cbn [rn_method gm_name]. apply (eqb_inj fmth mth_inj).
Qed.

Lemma typed_new_rn g s c : typed_new (rn_gir g) (fst_ s) c = option_map rn_tm (typed_new g s c).
Proof.
  unfold typed_new. rewrite impl_of_rn. destruct (impl_of g s) as [gi|]; cbn [option_map]; [|reflexivity].
  cbn [rn_impl gi_new]. destruct (gi_new gi) as [inits|]; cbn [option_map]; [|reflexivity].
  unfold rn_tm, rn_pairs. cbn. rewrite !map_map. reflexivity.
Qed.

Lemma arm_err_rn lit e : arm_err (fst_ lit) (rn_gerr e) = rn_derr (arm_err lit e).
Proof. unfold arm_err, from_guard_error. destruct e as [g ev [n|n|]]; reflexivity. Qed.

Lemma handle_rn g gd d ev pl w b :
  handle (rn_gir g) (rn_gdyn gd) (rn_dyn d) (fev ev) pl (rn_oracle w) b = rn_hout (handle g gd d ev pl w b).
Proof.
  unfold handle. destruct d as [[tm|]]; cbn [rn_dyn d_inner option_map]; [|reflexivity].
  rewrite event_variant_rn. destruct (event_variant gd ev) as [[[variant ev_lit] p]|]; cbn [option_map fst snd]; [|reflexivity].
  change (tm_state (rn_tm tm)) with (fst_ (tm_state tm)). rewrite find_arm_rn.
  destruct (find_arm gd (tm_state tm) variant) as [a|]; cbn [option_map].
  2:{ unfold rn_hout. cbn. rewrite state_lit_rn. reflexivity. }
  cbn [rn_arm ga_src ga_method ga_aw ga_binds_pl ga_ok ga_restore]. rewrite methods_of_rn.
  destruct (methods_of g (ga_src a) (ga_method a)) as [|gm [|gm2 r]]; cbn [map]; try reflexivity.
  change (gm_async (rn_method gm)) with (gm_async gm).
  destruct (negb (Bool.eqb (ga_aw a) (gm_async gm))); [reflexivity|].
  rewrite run_method_rn. cbn [rn_out ro_res ro_trace ro_pend].
  destruct (ro_res (run_method gm tm (if ga_binds_pl a then pl else None) w b)) as [nm|old e|n|n e| |];
    cbn [rn_tres]; try reflexivity.
  - change (tm_state (rn_tm nm)) with (fst_ (tm_state nm)). rewrite (eqb_inj fst_ st_inj).
    destruct (String.eqb (tm_state nm) (ga_ok a)); reflexivity.
  - change (tm_state (rn_tm old)) with (fst_ (tm_state old)). rewrite (eqb_inj fst_ st_inj).
    destruct (String.eqb (tm_state old) (ga_restore a)); [|reflexivity].
    unfold rn_hout. cbn. rewrite state_lit_rn, arm_err_rn. reflexivity.
Qed.

Lemma dyn_new_rn g gd c : dyn_new (rn_gir g) (rn_gdyn gd) c = option_map rn_dyn (dyn_new g gd c).
Proof.
  unfold dyn_new. cbn [rn_gdyn gd_initial]. rewrite typed_new_rn.
  destruct (typed_new g (gd_initial gd) c); reflexivity.
Qed.

Lemma current_state_rn gd d : current_state (rn_gdyn gd) (rn_dyn d) = option_map fst_ (current_state gd d).
Proof.
  unfold current_state. destruct d as [[tm|]]; cbn [rn_dyn d_inner option_map]; [|reflexivity].
  change (tm_state (rn_tm tm)) with (fst_ (tm_state tm)). rewrite state_lit_rn. reflexivity.
Qed.

Lemma slot_get_rn x s : slot_get (ffld x) (rn_pairs s) = slot_get x s.
Proof.
  induction s as [|[k v] s IH]; [reflexivity|]. cbn [rn_pairs map slot_get fst snd]. rewrite (eqb_inj ffld fld_inj).
  destruct (String.eqb x k); [reflexivity|exact IH].
Qed.

Lemma slot_set_rn x v s : slot_set (ffld x) v (rn_pairs s) = rn_pairs (slot_set x v s).
Proof.
  induction s as [|[k v'] s IH]; [reflexivity|]. cbn [rn_pairs map slot_set fst snd]. rewrite (eqb_inj ffld fld_inj).
  destruct (String.eqb x k); cbn [map fst snd]; [reflexivity|]. f_equal. exact IH.
Qed.

Lemma acc_read_rn a d : acc_read (rn_acc a) (rn_dyn d) = acc_read a d.
Proof.
  unfold acc_read. destruct d as [[tm|]]; cbn [rn_dyn d_inner option_map]; [|reflexivity].
  cbn [rn_acc gc_variants gc_field rn_tm tm_state tm_slots]. rewrite (mem_inj fst_ st_inj), slot_get_rn. reflexivity.
Qed.

Lemma acc_write_rn a d v :
  acc_write (rn_acc a) (rn_dyn d) v = (rn_dyn (fst (acc_write a d v)), snd (acc_write a d v)).
Proof.
  unfold acc_write. destruct d as [[tm|]]; cbn [rn_dyn d_inner option_map]; [|reflexivity].
  cbn [rn_acc gc_variants gc_field rn_tm tm_state tm_slots tm_ctx]. rewrite (mem_inj fst_ st_inj), slot_get_rn.
  destruct (mem (tm_state tm) (gc_variants a)); [|reflexivity].
  destruct (slot_get (gc_field a) (tm_slots tm)) as [old|]; [|reflexivity].
  cbn [fst snd]. rewrite slot_set_rn. reflexivity.
Qed.

Lemma acc_set_rn gd a d v :
  acc_set (rn_gdyn gd) (rn_acc a) (rn_dyn d) v =
  (rn_dyn (fst (acc_set gd a d v)), option_map rn_derr (snd (acc_set gd a d v))).
Proof.
  unfold acc_set. destruct d as [[tm|]]; cbn [rn_dyn d_inner option_map].
  - cbn [rn_acc gc_variants gc_field gc_state gc_set rn_tm tm_state tm_slots tm_ctx]. rewrite (mem_inj fst_ st_inj).
    destruct (mem (tm_state tm) (gc_variants a)); cbn [fst snd option_map].
    + rewrite slot_set_rn. reflexivity.
    + rewrite state_lit_rn. reflexivity.
  - cbn [fst snd option_map rn_derr rn_acc gc_state gc_set]. rewrite st_extracted. reflexivity.
Qed.

Lemma into_state_rn v d :
  into_state (fst_ v) (rn_dyn d) =
  match into_state v d with inl tm => inl (rn_tm tm) | inr d' => inr (rn_dyn d') end.
Proof.
  unfold into_state. destruct d as [[tm|]]; cbn [rn_dyn d_inner option_map]; [|reflexivity].
  change (tm_state (rn_tm tm)) with (fst_ (tm_state tm)). rewrite (eqb_inj fst_ st_inj).
  destruct (String.eqb (tm_state tm) v); reflexivity.
Qed.

End Rename.

(* a relabelling that meets the hypotheses and moves every identifier *)
Definition prefix_z (s : ident) : ident :=
  if String.eqb s "" then s else if String.eqb s "<extracted>" then s else String "z"%char s.

Lemma prefix_z_inj : injective prefix_z.
Proof.
  intros a b. unfold prefix_z.
  destruct (String.eqb_spec a "") as [->|Na]; destruct (String.eqb_spec b "") as [->|Nb]; try reflexivity.
  - destruct (String.eqb_spec b "<extracted>") as [->|_]; discriminate.
  - destruct (String.eqb_spec a "<extracted>") as [->|_]; discriminate.
  - destruct (String.eqb_spec a "<extracted>") as [->|Ea]; destruct (String.eqb_spec b "<extracted>") as [->|Eb];
      try reflexivity; try discriminate.
    intros H. injection H. auto.
Qed.
