(* ScriptLemmas.v -- facts about whole histories (op scripts) over an accepted machine. *)
From Coq Require Import String List Bool Arith Lia.
From SM Require Import Ident Ast Front Spec Gir Codegen Sem Dyn Script.
From SM.Lemmas Require Import FrontLemmas FrontTop GirLemmas SemLemmas RefSem SemProps HookTheorems DynLemmas DynTheorems.
Import ListNotations.
Open Scope string_scope.
Open Scope list_scope.

Definition is_refusal (r : ores) : bool :=
  match r with ORerrG _ | ORerrD _ | ORconvErr | ORnomethod | ORbadop => true | _ => false end.

Definition completes (o : op) : bool :=      (* the call is polled to completion *)
  match o with OTyped _ _ _ (Some _) | OHandle _ _ _ (Some _) => false | _ => true end.

Lemma dyn_eta d : Build_dyn (d_inner d) = d.
Proof. destruct d; reflexivity. Qed.

Section S.
Variable m : machine.
Variable feat : bool.
Let g := codegen m feat.

(* handle(): an Err leaves the wrapper exactly as it was (no definition-level hypothesis needed) *)
Lemma handle_err_unchanged gd d ev pl w x :
  ho_res (handle g gd d ev pl w None) = HErr x -> ho_dyn (handle g gd d ev pl w None) = d.
Proof.
  unfold handle. destruct (d_inner d) as [tm|] eqn:Ed; [|cbn; discriminate].
  destruct (event_variant gd ev) as [[[v l] p]|]; [|cbn; discriminate].
  destruct (find_arm gd (tm_state tm) v) as [a|] eqn:Ea; [|cbn; reflexivity].
  apply find_some in Ea as [_ Ep]. apply andb_prop in Ep as [Esrc _]. apply String.eqb_eq in Esrc.
  destruct (methods_of g (ga_src a) (ga_method a)) as [|gm [|gm2 r]] eqn:Em; try (cbn; discriminate).
  destruct (negb (Bool.eqb (ga_aw a) (gm_async gm))); [cbn; discriminate|].
  assert (Hgm : In gm (methods_of g (ga_src a) (ga_method a))) by (rewrite Em; left; reflexivity).
  apply methods_of_in in Hgm as (e & -> & _ & _).
  destruct (ro_res (run_method (gen_method m e) tm _ w None)) eqn:Er; cbn;
    try (destruct (String.eqb _ _); cbn; discriminate); try discriminate.
  destruct (refused_intact m e tm _ w _ _ Er) as (-> & _).
  destruct (String.eqb (tm_state tm) (ga_restore a)); cbn; [|discriminate].
  intros _. rewrite <- Ed. apply dyn_eta.
Qed.

(* a refused operation is a no-op on the configuration, wherever it occurs in a history *)
Theorem refusal_is_noop h o :
  completes o = true -> is_refusal (o_res (step g h o)) = true -> o_holder (step g h o) = h.
Proof.
  unfold step. destruct (step_core g h o) as [[[r tr] p] h'] eqn:E. cbn [o_res o_holder].
  intros Hc Hr. destruct o as [s c|c| |e pl orc b|e pl orc b|x v|x v|x v|s| | |e pl]; cbn [completes] in Hc.
  - cbn [step_core] in E. destruct (typed_new g s c); inversion E; subst; [discriminate|reflexivity].
  - cbn [step_core] in E. destruct (gr_dyn g); [destruct (dyn_new g g0 c)|]; inversion E; subst; try discriminate; reflexivity.
  - cbn [step_core] in E. destruct (gr_dyn g); [destruct (dyn_new g g0 0)|]; inversion E; subst; try discriminate; reflexivity.
  - destruct b; [discriminate|]. destruct h as [|tm|dd]; cbn [step_core] in E; try (inversion E; subst; reflexivity).
    destruct (methods_of g (tm_state tm) (to_snake_case e)) as [|gm [|gm2 rr]] eqn:Em;
      try (inversion E; subst; reflexivity).
    assert (Hgm : In gm (methods_of g (tm_state tm) (to_snake_case e))) by (rewrite Em; left; reflexivity).
    apply methods_of_in in Hgm as (ed & -> & _ & _).
    inversion E; subst; clear E.
    destruct (ro_res (run_method (gen_method m ed) tm pl (oracle_of orc) None)) eqn:Er; cbn in Hr; try discriminate.
    destruct (refused_intact m ed tm pl _ _ _ Er) as (-> & _). reflexivity.
  - destruct b; [discriminate|]. destruct h as [|tm|dd]; cbn [step_core] in E; try (inversion E; subst; reflexivity).
    destruct (gr_dyn g) as [gd|]; [|inversion E; subst; reflexivity].
    inversion E; subst; clear E. f_equal.
    destruct (ho_res (handle g gd dd e pl (oracle_of orc) None)) eqn:Er; cbn in Hr; try discriminate.
    eapply handle_err_unchanged. exact Er.
  - destruct h as [|tm|dd]; cbn [step_core] in E; try (inversion E; subst; reflexivity).
    destruct (gr_dyn g) as [gd|]; [|inversion E; subst; reflexivity].
    destruct (find_acc gd x) as [a|]; [|inversion E; subst; reflexivity].
    unfold acc_set in E. destruct (d_inner dd) as [tm|] eqn:Ed.
    + destruct (mem (tm_state tm) (gc_variants a)); inversion E; subst; [discriminate|reflexivity].
    + inversion E; subst. reflexivity.
  - destruct h as [|tm|dd]; cbn [step_core] in E.
    + inversion E; subst. reflexivity.
    + destruct (spec_field g x); [destruct (slot_get i (tm_slots tm))|]; inversion E; subst; try discriminate; reflexivity.
    + destruct (gr_dyn g) as [gd|]; [|inversion E; subst; reflexivity].
      destruct (find_acc gd x) as [a|]; [|inversion E; subst; reflexivity].
      destruct (acc_write a dd v). inversion E; subst. discriminate.
  - destruct h as [|tm|dd]; cbn [step_core] in E; try (inversion E; subst; reflexivity).
    destruct (String.eqb (tm_state tm) x); [|inversion E; subst; reflexivity].
    destruct (spec_field g x); [destruct (slot_get i (tm_slots tm))|]; inversion E; subst; try discriminate; reflexivity.
  - destruct h as [|tm|dd]; cbn [step_core] in E; try (inversion E; subst; reflexivity).
    destruct (gr_dyn g) as [gd|]; [|inversion E; subst; reflexivity].
    destruct (existsb _ _); [|inversion E; subst; reflexivity].
    unfold into_state in E. destruct (d_inner dd) as [tm|] eqn:Ed.
    + destruct (String.eqb (tm_state tm) s); inversion E; subst; [discriminate|reflexivity].
    + inversion E; subst. reflexivity.
  - destruct h as [|tm|dd]; cbn [step_core] in E; try (inversion E; subst; reflexivity).
    destruct (gr_dyn g); inversion E; subst; [discriminate|reflexivity].
  - cbn [step_core] in E. inversion E; subst. discriminate.
  - destruct h as [|tm|dd]; cbn [step_core] in E; try (inversion E; subst; reflexivity).
    + destruct (methods_of g (tm_state tm) (to_snake_case e)) as [|gm [|gm2 rr]]; try (inversion E; subst; reflexivity).
      destruct (gm_async gm); inversion E; subst; [discriminate|reflexivity].
    + destruct (gr_dyn g); [destruct (gir_async g)|]; inversion E; subst; reflexivity.
Qed.

(* hence the rest of the history is observed exactly as if the refused call had not been made *)
Corollary refusal_transparent h o rest :
  completes o = true -> is_refusal (o_res (step g h o)) = true ->
  run_script g h (o :: rest) = step g h o :: run_script g h rest.
Proof. intros Hc Hr. cbn [run_script]. rewrite (refusal_is_noop _ _ Hc Hr). reflexivity. Qed.

End S.
