(* SemLemmas.v -- the run of a generated transition method, segment by segment. *)
From Coq Require Import String List Bool Arith Lia.
From SM Require Import Ident Ast Front Gir Codegen Sem.
Import ListNotations.
Open Scope list_scope.

(* the six hook segments of a generated body *)
Inductive segk := KAB | KG | KU | KB | KA | KAA.

Definition hkind_of (k : segk) : hkind :=
  match k with KAB => HAroundBefore | KG => HGuard | KU => HUnless | KB => HBefore | KA => HAfter | KAA => HAroundAfter end.
Definition on_new (k : segk) : bool := match k with KA | KAA => true | _ => false end.
Definition takes_pl (k : segk) : bool := match k with KAB | KAA => false | _ => true end.

Section Seg.
Variable am : bool.          (* async method *)
Variable plb : bool.         (* the event has a payload *)
Variable ev : ident.         (* declared event name *)
Variable pl : option nat.    (* the payload argument (None when the event has none) *)
Variable w : oracle.

Definition stmt_of (k : segk) (n : ident) : stmt :=
  match k with
  | KAB => SAroundBefore n am ev
  | KG => SCond true n plb am n ev
  | KU => SCond false n plb am n ev
  | KB => SBefore n plb am
  | KA => SAfter n plb am
  | KAA => SAroundAfter n am ev
  end.

(* why a hook invocation ends the run *)
Definition stop_of (k : segk) (self : tmachine) (n : ident) (a : answer) : option tres :=
  match k, a with
  | KAB, AAbort kd => Some (RErr self (Build_gerr (abort_name kd n) ev kd))
  | KAA, AAbort kd => Some (RPanicAfter (abort_name kd n) ev)
  | KG, a => if guard_ans a then None else Some (RErr self (Build_gerr n ev (AKGuard n)))
  | KU, a => if unless_ans a then Some (RErr self (Build_gerr n ev (AKGuard n))) else None
  | _, _ => None
  end.

Definition recv (k : segk) (x : xst) : option tmachine :=
  if on_new k then x_new x else Some (x_self x).
Definition plarg (k : segk) : option nat := if takes_pl k && plb then pl else None.

(* reference semantics of one segment: Some r = the run ended inside it *)
Fixpoint run_seg (k : segk) (names : list ident) (x : xst) : xst * option tres :=
  match names with
  | [] => (x, None)
  | n :: r =>
      match recv k x with
      | None => (x, Some RStuck)
      | Some on =>
          match invoke am am (match k with KB | KA => false | _ => true end) w x (hkind_of k) n on (plarg k) with
          | (x', CAns a) =>
              match stop_of k (x_self x) n a with
              | Some res => (x', Some res)
              | None => run_seg k r x'
              end
          | (x', CPanic) => (x', Some (RPanicHook n))
          | (x', CAbandon) => (x', Some RAbandoned)
          | (x', _) => (x', Some RStuck)
          end
      end
  end.

Lemma eqb_refl_b b : Bool.eqb b b = true.
Proof. destruct b; reflexivity. Qed.

Lemma invoke_not_skip must x k n on p :
  forall x' c, invoke am am must w x k n on p = (x', c) -> c <> CSkip /\ c <> CStuck.
Proof.
  intros x' c. unfold invoke. rewrite eqb_refl_b. cbn [negb].
  destruct (x_budget x) as [b|].
  - destruct (b <=? _)%nat.
    + intros H; inversion H; split; discriminate.
    + destruct (an_val (w (x_i x))); intros H; inversion H; split; discriminate.
  - destruct (an_val (w (x_i x))); intros H; inversion H; split; discriminate.
Qed.

Lemma pl_if_plarg k : takes_pl k = true -> pl_if pl plb = plarg k.
Proof. intros H. unfold pl_if, plarg. rewrite H. reflexivity. Qed.

Lemma exec_seg k names rest x :
  exec am pl w (map (stmt_of k) names ++ rest) x =
  match run_seg k names x with
  | (x', None) => exec am pl w rest x'
  | (x', Some r) => (x', r)
  end.
Proof.
  revert x. induction names as [|n names IH]; intros x; [reflexivity|].
  cbn [map app run_seg].
  destruct k; cbn [stmt_of exec recv on_new hkind_of plarg takes_pl andb stop_of].
  - (* KAB *)
    destruct (invoke am am true w x HAroundBefore n (x_self x) None) as [x' c] eqn:E.
    destruct c as [a| | | |]; try reflexivity.
    destruct a; try apply IH; reflexivity.
  - (* KG *)
    destruct (invoke am am true w x HGuard n (x_self x) _) as [x' c] eqn:E.
    destruct c as [a| | | |]; try reflexivity.
    cbn [negb]. destruct (guard_ans a); cbn [negb]; [apply IH|reflexivity].
  - (* KU *)
    destruct (invoke am am true w x HUnless n (x_self x) _) as [x' c] eqn:E.
    destruct c as [a| | | |]; try reflexivity.
    destruct (unless_ans a); [reflexivity|apply IH].
  - (* KB *)
    destruct (invoke am am false w x HBefore n (x_self x) _) as [x' c] eqn:E.
    pose proof (invoke_not_skip _ _ _ _ _ _ _ _ E) as [Hs Ht].
    destruct c as [a| | | |]; try reflexivity; try congruence.
    destruct a; apply IH.
  - (* KA *)
    destruct (x_new x) as [nm|]; [|reflexivity].
    destruct (invoke am am false w x HAfter n nm _) as [x' c] eqn:E.
    pose proof (invoke_not_skip _ _ _ _ _ _ _ _ E) as [Hs Ht].
    destruct c as [a| | | |]; try reflexivity; try congruence.
    destruct a; apply IH.
  - (* KAA *)
    destruct (x_new x) as [nm|]; [|reflexivity].
    destruct (invoke am am true w x HAroundAfter n nm None) as [x' c] eqn:E.
    destruct c as [a| | | |]; try reflexivity.
    destruct a; try apply IH; reflexivity.
Qed.

End Seg.

