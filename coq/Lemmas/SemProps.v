(* SemProps.v -- consequences of the closed form [run_method_ref]: success trace, first blocking
   condition, refusal, around aborts. *)
From Coq Require Import String List Bool Arith Lia.
From SM Require Import Ident Ast Front Gir Codegen Sem.
From SM.Lemmas Require Import SemLemmas RefSem.
Import ListNotations.
Open Scope list_scope.

Section P.
Variable am : bool.
Variable plb : bool.
Variable ev : ident.
Variable pl : option nat.
Variable w : oracle.
Variable self newm : tmachine.

Notation ref_run := (ref_run am plb ev pl w self newm).
Notation call_at := (call_at am plb pl w self newm).
Notation susp_at := (susp_at am w).

Definition is_panic (a : answer) : bool := match a with APanic => true | _ => false end.

(* hook (k, n) invoked as the i-th call lets the run continue *)
Definition passb (k : segk) (n : ident) (i : nat) : bool :=
  negb (is_panic (an_val (w i))) &&
  match stop_of ev k self n (an_val (w i)) with Some _ => false | None => true end.

Fixpoint all_pass (hs : list (segk * ident)) (i : nat) : bool :=
  match hs with [] => true | (k, n) :: r => passb k n i && all_pass r (S i) end.
Fixpoint full_calls (hs : list (segk * ident)) (i : nat) : list call :=
  match hs with [] => [] | (k, n) :: r => call_at k i n true :: full_calls r (S i) end.
Fixpoint full_pend (hs : list (segk * ident)) (i : nat) : nat :=
  match hs with [] => 0 | _ :: r => susp_at i + full_pend r (S i) end.

(* what ends the run at a hook that does not pass *)
Definition stop_result (k : segk) (n : ident) (a : answer) : tres :=
  match a with
  | APanic => RPanicHook n
  | v => match stop_of ev k self n v with Some r => r | None => RStuck end
  end.

Lemma ref_run_all_pass hs i :
  all_pass hs i = true -> ref_run hs i = (full_calls hs i, full_pend hs i, None).
Proof.
  revert i. induction hs as [|[k n] hs IH]; intros i H; [reflexivity|].
  cbn [all_pass] in H. apply andb_prop in H as [Hp Hr].
  unfold passb in Hp. apply andb_prop in Hp as [Hnp Hs].
  cbn [RefSem.ref_run full_calls full_pend].
  destruct (an_val (w i)); try discriminate;
    (destruct (stop_of ev k self n _); [discriminate|]; rewrite (IH _ Hr); reflexivity).
Qed.

Lemma ref_run_first_stop l1 k n l2 i :
  all_pass l1 i = true -> passb k n (i + length l1) = false ->
  ref_run (l1 ++ (k, n) :: l2) i =
  (full_calls l1 i ++ [call_at k (i + length l1) n (negb (is_panic (an_val (w (i + length l1)))))],
   full_pend l1 i + susp_at (i + length l1),
   Some (stop_result k n (an_val (w (i + length l1))))).
Proof.
  intros H1 H2. rewrite ref_run_app, (ref_run_all_pass _ _ H1).
  cbn [RefSem.ref_run]. unfold passb in H2. unfold stop_result.
  destruct (an_val (w (i + length l1))) eqn:Ea; cbn [is_panic negb andb] in *;
    try (destruct (stop_of ev k self n _); [reflexivity|discriminate]).
  reflexivity.
Qed.

Lemma ref_run_none_iff hs i :
  snd (ref_run hs i) = None <-> all_pass hs i = true.
Proof.
  split.
  - revert i. induction hs as [|[k n] hs IH]; intros i H; [reflexivity|].
    cbn [RefSem.ref_run] in H. cbn [all_pass]. unfold passb.
    destruct (an_val (w i)); cbn [is_panic negb andb]; try (cbn in H; discriminate);
      (destruct (stop_of ev k self n _); [cbn in H; discriminate|];
       apply IH; destruct (ref_run hs (S i)) as [[tr p] r]; exact H).
  - intros H. rewrite (ref_run_all_pass _ _ H). reflexivity.
Qed.

(* split at the first hook that does not pass *)
Lemma first_fail hs i :
  all_pass hs i = false ->
  exists l1 k n l2, hs = l1 ++ (k, n) :: l2 /\ all_pass l1 i = true /\ passb k n (i + length l1) = false.
Proof.
  revert i. induction hs as [|[k n] hs IH]; intros i H; [discriminate|].
  cbn [all_pass] in H. destruct (passb k n i) eqn:Hp.
  - cbn [andb] in H. destruct (IH _ H) as (l1 & k' & n' & l2 & E & H1 & H2).
    exists ((k, n) :: l1), k', n', l2. subst hs. repeat split.
    + cbn [all_pass]. rewrite Hp, H1. reflexivity.
    + cbn [length]. replace (i + S (length l1)) with (S i + length l1) by lia. exact H2.
  - exists [], k, n, hs. repeat split. cbn. rewrite Nat.add_0_r. exact Hp.
Qed.

Lemma full_calls_app l1 l2 i :
  full_calls (l1 ++ l2) i = full_calls l1 i ++ full_calls l2 (i + length l1).
Proof.
  revert i. induction l1 as [|[k n] l1 IH]; intros i; cbn [app full_calls length].
  - rewrite Nat.add_0_r. reflexivity.
  - rewrite IH. replace (S i + length l1) with (i + S (length l1)) by lia. reflexivity.
Qed.

Lemma all_pass_app l1 l2 i :
  all_pass (l1 ++ l2) i = all_pass l1 i && all_pass l2 (i + length l1).
Proof.
  revert i. induction l1 as [|[k n] l1 IH]; intros i; cbn [app all_pass length].
  - rewrite Nat.add_0_r. reflexivity.
  - rewrite IH. replace (S i + length l1) with (i + S (length l1)) by lia. rewrite andb_assoc. reflexivity.
Qed.

Lemma full_calls_kinds hs i :
  map (fun c => (c_kind c, c_name c)) (full_calls hs i) = map (fun h => (hkind_of (fst h), snd h)) hs.
Proof.
  revert i. induction hs as [|[k n] hs IH]; intros i; [reflexivity|].
  cbn [full_calls map fst snd]. rewrite IH. reflexivity.
Qed.

Lemma full_calls_done hs i : Forall (fun c => c_done c = true) (full_calls hs i).
Proof. revert i. induction hs as [|[k n] hs IH]; intros i; constructor; [reflexivity|apply IH]. Qed.

(* the view every call gets *)
Lemma full_calls_view hs i :
  Forall2 (fun h c =>
    c_state c = tm_state (recv_of self newm (fst h)) /\
    c_slots c = map snd (tm_slots (recv_of self newm (fst h))) /\
    c_ctx c = tm_ctx (recv_of self newm (fst h)) /\
    c_pl c = plarg plb pl (fst h)) hs (full_calls hs i).
Proof.
  revert i. induction hs as [|[k n] hs IH]; intros i; constructor; [|apply IH].
  cbn. repeat split.
Qed.

End P.
