(* WfAccepts.v -- every definition that satisfies the rule list is accepted by the front end (C14):
   with AcceptLemmas.accepted_is_wf, the front end accepts exactly the well-formed definitions. *)
From Coq Require Import String List Bool Arith Lia.
From SM Require Import Ident Ast Front Spec.
From SM.Lemmas Require Import FrontLemmas FrontTop ChainLemmas AcceptLemmas.
Import ListNotations.
Open Scope string_scope.
Open Scope list_scope.

(* ---------- states ---------- *)

Definition Pok (it : sitem) : Prop := forall anc a,
  item_keys_ok (is_nil anc) it = true -> item_valid_b it = true -> NoDup (names_of_item it) ->
  (forall x, In x (names_of_item it) -> ~ In x (p_seen (b_st a))) ->
  exists a', parse_item anc it a = Ok a'.

Lemma fold_ok items :
  Forall Pok items -> forall anc a,
  forallb (item_keys_ok (is_nil anc)) items = true -> forallb item_valid_b items = true ->
  NoDup (names_of items) -> (forall x, In x (names_of items) -> ~ In x (p_seen (b_st a))) ->
  exists a', fold_items (parse_item anc) items a = Ok a'.
Proof.
  induction 1 as [|x r Hx Hr IH]; intros anc a Hk Hv ND Dj.
  - exists a. reflexivity.
  - cbn [forallb] in Hk, Hv. apply andb_prop in Hk as [Hk1 Hk2]. apply andb_prop in Hv as [Hv1 Hv2].
    unfold names_of in ND, Dj. cbn [flat_map] in ND, Dj. apply NoDup_app_elim in ND as (N1 & N2 & D12).
    destruct (Hx anc a Hk1 Hv1 N1) as [a1 E1].
    { intros y Hy. apply Dj. apply in_or_app. left. exact Hy. }
    rewrite fold_items_cons, E1.
    pose proof (item_R1 x anc a a1 E1) as (_ & _ & S1 & _ & _).
    apply (IH anc a1 Hk2 Hv2 N2).
    intros y Hy Hin. rewrite S1 in Hin. unfold names_of in Hin. cbn [flat_map] in Hin. rewrite app_nil_r in Hin.
    apply in_app_or in Hin as [Hin|Hin].
    + apply in_rev in Hin. exact (D12 y Hin Hy).
    + apply (Dj y); [apply in_or_app; right; exact Hy|exact Hin].
Qed.

Lemma item_ok : forall it, Pok it.
Proof.
  induction it as [n d|n d body IHb|n|k] using sitem_ind2; intros anc a Hk Hv ND Dj.
  - rewrite parse_item_leaf. cbv zeta.
    assert (Em : mem n (p_seen (b_st a)) = false) by (apply mem_false; apply Dj; left; reflexivity).
    rewrite Em. eexists. reflexivity.
  - rewrite parse_item_super.
    assert (Em : mem n (p_seen (b_st a)) = false) by (apply mem_false; apply Dj; left; reflexivity).
    rewrite Em. cbn [item_keys_ok item_valid_b names_of_item] in *.
    apply andb_prop in Hv as [Hv Hvb]. apply andb_prop in Hv as [Hne Hini].
    inversion ND as [|? ? Hn ND']; subst.
    assert (Hnil : is_nil (anc ++ [n]) = false) by (destruct anc; reflexivity).
    destruct (fold_ok body IHb (anc ++ [n]) (super_start n d a)) as [inner Ef].
    + rewrite Hnil. exact Hk.
    + exact Hvb.
    + exact ND'.
    + intros x Hx Hin. unfold super_start in Hin. cbn [b_st p_seen] in Hin. destruct Hin as [<-|Hin].
      * exact (Hn Hx).
      * apply (Dj x); [right; exact Hx|exact Hin].
    + rewrite Ef. unfold super_finish.
      pose proof (parse_R1 _ _ _ _ Ef) as (_ & D & _).
      pose proof (parse_R2 _ _ _ _ Ef) as (_ & _ & _ & B).
      unfold super_start in D, B. cbn [b_desc b_init app] in D, B.
      destruct (leaves_of body) as [|l0 lr] eqn:El; [discriminate|]. rewrite D, B.
      destruct (last_init body) as [i|]; [rewrite Hini|]; eexists; reflexivity.
  - cbn in Hk. cbn [parse_item]. destruct (is_nil anc); [discriminate|]. eexists. reflexivity.
  - cbn in Hk. discriminate.
Qed.

Lemma forest_wf_parses items : forest_wf items -> exists ps, parse_states items = Ok ps.
Proof.
  intros [Hk Hd Hs]. unfold parse_states.
  destruct (fold_ok items (proj2 (Forall_forall Pok items) (fun x _ => item_ok x)) [] (Build_bacc pstate0 [] None) Hk Hs Hd)
    as [a' E]; [intros x _ []|].
  rewrite E. eexists. reflexivity.
Qed.

(* ---------- events sections ---------- *)

Lemma parse_tentries_ok ts : forall a,
  (forall k, ~ In (TUnknownT k) ts) ->
  exists a', parse_tentries ts a = Ok a' /\
    ((ta_from a <> None \/ exists l, In (TFrom l) ts) -> ta_from a' <> None) /\
    ((ta_to a <> None \/ exists t, In (TTo t) ts) -> ta_to a' <> None).
Proof.
  induction ts as [|t r IH]; intros a U.
  - exists a. repeat split.
    + intros [H|[l []]]. exact H.
    + intros [H|[l []]]. exact H.
  - assert (Ur : forall k, ~ In (TUnknownT k) r) by (intros k Hk; apply (U k); right; exact Hk).
    destruct t as [l|tt|k l|k]; cbn [parse_tentries].
    + destruct (IH (Build_tacc (Some l) (ta_to a) (ta_hooks a)) Ur) as (a' & E & Hf & Ht). exists a'. split; [exact E|].
      split; [intros _; apply Hf; left; discriminate|].
      intros [H|[t [Hd|Hin]]]; [apply Ht; left; exact H|discriminate|apply Ht; right; exists t; exact Hin].
    + destruct (IH (Build_tacc (ta_from a) (Some tt) (ta_hooks a)) Ur) as (a' & E & Hf & Ht). exists a'. split; [exact E|].
      split; [|intros _; apply Ht; left; discriminate].
      intros [H|[l [Hd|Hin]]]; [apply Hf; left; exact H|discriminate|apply Hf; right; exists l; exact Hin].
    + destruct (IH (Build_tacc (ta_from a) (ta_to a) (set_hook k l (ta_hooks a))) Ur) as (a' & E & Hf & Ht). exists a'. split; [exact E|].
      split.
      * intros [H|[l0 [Hd|Hin]]]; [apply Hf; left; exact H|discriminate|apply Hf; right; exists l0; exact Hin].
      * intros [H|[t0 [Hd|Hin]]]; [apply Ht; left; exact H|discriminate|apply Ht; right; exists t0; exact Hin].
    + exfalso. apply (U k). left. reflexivity.
Qed.

Lemma tentries_wf_parses ts : tentries_wf ts -> exists t, parse_transition ts = Ok t.
Proof.
  intros (U & Hf & Ht). unfold parse_transition.
  destruct (parse_tentries_ok ts (Build_tacc None None no_hooks) U) as (a' & E & Hf' & Ht'). rewrite E.
  destruct (ta_from a') as [src|] eqn:Ef; [|exfalso; apply Hf'; [right; exact Hf|reflexivity]].
  destruct (ta_to a') as [tg|] eqn:Et; [|exfalso; apply Ht'; [right; exact Ht|reflexivity]].
  eexists. reflexivity.
Qed.

Lemma eentries_ok es : forall ev,
  (forall k, ~ In (EUnknownE k) es) -> (forall ts, In (ETransition ts) es -> tentries_wf ts) ->
  exists ev', parse_eentries es ev = Ok ev'.
Proof.
  induction es as [|e r IH]; intros ev U T; [eexists; reflexivity|].
  assert (Ur : forall k, ~ In (EUnknownE k) r) by (intros k Hk; apply (U k); right; exact Hk).
  assert (Tr : forall ts, In (ETransition ts) r -> tentries_wf ts) by (intros ts Hts; apply T; right; exact Hts).
  destruct e as [t|k l|ts|k]; cbn [parse_eentries].
  - apply IH; assumption.
  - apply IH; assumption.
  - destruct (tentries_wf_parses ts (T ts (or_introl eq_refl))) as [t Et]. rewrite Et. apply IH; assumption.
  - exfalso. apply (U k). left. reflexivity.
Qed.

Lemma sevents_wf_parse sevs : (forall se, In se sevs -> sevent_wf se) -> exists evs, parse_events sevs = Ok evs.
Proof.
  induction sevs as [|se r IH]; intros H; [eexists; reflexivity|].
  cbn [parse_events]. destruct (H se (or_introl eq_refl)) as [U T].
  unfold parse_event. destruct (eentries_ok (se_entries se) (Build_event (se_name se) None [] no_hooks) U T) as [ev Ee]. rewrite Ee.
  destruct IH as [evs Er]; [intros s Hs; apply H; right; exact Hs|]. rewrite Er. eexists. reflexivity.
Qed.

(* ---------- top level ---------- *)

Lemma entries_ok d : forall a,
  (forall k, ~ In (MUnknown k) d) ->
  (forall items, In (MStates items) d -> forest_wf items) ->
  (forall sevs se, In (MEvents sevs) d -> In se sevs -> sevent_wf se) ->
  exists a', parse_entries d a = Ok a'.
Proof.
  induction d as [|en r IH]; intros a U S E; [eexists; reflexivity|].
  assert (Ur : forall k, ~ In (MUnknown k) r) by (intros k Hk; apply (U k); right; exact Hk).
  assert (Sr : forall items, In (MStates items) r -> forest_wf items) by (intros it Hit; apply S; right; exact Hit).
  assert (Er : forall sevs se, In (MEvents sevs) r -> In se sevs -> sevent_wf se) by (intros sv se Hsv; apply E; right; exact Hsv).
  destruct en as [n|n|t|b|b|items|sevs|k|k]; cbn [parse_entries]; try (apply IH; assumption).
  - destruct (forest_wf_parses items (S items (or_introl eq_refl))) as [ps Ep]. rewrite Ep. apply IH; assumption.
  - destruct (sevents_wf_parse sevs (fun se Hse => E sevs se (or_introl eq_refl) Hse)) as [evs Ee]. rewrite Ee. apply IH; assumption.
  - exfalso. apply (U k). left. reflexivity.
Qed.

Lemma nodup_leaves : forall items, NoDup (names_of items) -> NoDup (leaves_of items).
Proof.
  assert (Hi : forall it, (fun it => NoDup (names_of_item it) -> NoDup (leaves_of_item it)) it).
  { induction it as [n d|n d body IHb|n|k] using sitem_ind2; intros ND; try constructor.
    - intros []. 
    - constructor.
    - cbn [names_of_item leaves_of_item] in *. inversion ND as [|? ? _ ND']; subst. clear ND.
      induction IHb as [|x r Hx Hr IH]; [constructor|].
      cbn [flat_map] in *. apply NoDup_app_elim in ND' as (N1 & N2 & Dj).
      apply NoDup_app_intro; [apply Hx; exact N1|apply IH; exact N2|].
      intros y H1 H2. apply (Dj y); [apply leaves_item_in_names; exact H1|apply (leaves_in_names r); exact H2]. }
  induction items as [|x r IH]; intros ND; [constructor|].
  unfold names_of, leaves_of in *. cbn [flat_map] in *. apply NoDup_app_elim in ND as (N1 & N2 & Dj).
  apply NoDup_app_intro; [apply Hi; exact N1|apply IH; exact N2|].
  intros y H1 H2. apply (Dj y); [apply leaves_item_in_names; exact H1|apply (leaves_in_names r); exact H2].
Qed.

Lemma NoDup_has_dup l : NoDup l -> has_dup l = false.
Proof.
  induction 1 as [|x r Hx _ IH]; [reflexivity|]. cbn [has_dup]. rewrite IH, orb_false_r. apply mem_false. exact Hx.
Qed.

Theorem wf_is_accepted d : WF d -> exists m, front d = Ok m.
Proof.
  intros W. destruct (entries_ok d macc0 (wf_no_unknown _ W) (wf_forests _ W) (wf_sevents _ W)) as [a Ea].
  destruct (parse_entries_spec _ _ _ Ea) as (N & I & C & A & Dy & S & E & _ & _ & _).
  cbn [macc0 a_name a_initial a_states a_events] in *.
  destruct (d_name d) as [nm|] eqn:En; [|exfalso; exact (wf_name _ W En)].
  destruct (d_initial d) as [ini|] eqn:Ei; [|exfalso; exact (wf_initial _ W Ei)].
  destruct (d_states d) as [items|] eqn:Es; [|exfalso; exact (wf_states _ W Es)].
  destruct S as (ps & Hp & Eps). cbn [orelse] in N, I.
  unfold front, parse_machine. rewrite Ea, N, I, Eps.
  set (evs := match a_events a with Some l => l | None => [] end).
  set (m := Build_machine nm ini (a_context a) (p_leaves ps) (p_storage ps) (p_hier ps) evs (a_async a) (a_dynamic a)
                          (build_graph (p_hier ps) (p_leaves ps) evs)).
  assert (Heff : effective_events d evs).
  { unfold effective_events, evs. destruct (d_sevents d) as [sevs|].
    - destruct E as (evs0 & Hev & ->). exact Hev.
    - rewrite E. reflexivity. }
  destruct (wf_initial_leaf _ W items ini Es Ei) as [Hil His].
  assert (Hval : validate m = Ok tt).
  { unfold validate. cbn [m m_hier m_initial m_states m_events].
    rewrite (is_superstate_spec _ _ Hp), (ps_leaves _ _ Hp).
    destruct (find_super ini items) as [b|] eqn:Ef.
    { exfalso. apply His. apply find_super_supers. eexists. exact Ef. }
    apply mem_In in Hil. rewrite Hil. cbn [negb].
    rewrite (NoDup_has_dup _ (nodup_leaves _ (ps_names_nodup _ _ Hp))).
    apply validate_all_ok. intros ev Hev.
    pose proof (wf_events _ W items evs Es Heff ev Hev) as [Hsn Htr Hsrc Htg].
    unfold validate_event. rewrite Hsn. cbn [negb].
    destruct (e_transitions ev) as [|t0 ts] eqn:Et; [exfalso; apply Htr; reflexivity|]. cbn [is_nil].
    apply validate_all_ok. intros t Ht.
    unfold validate_transition. cbn [m m_hier m_states].
    destruct (Hsrc t Ht) as [Hne Hdecl].
    destruct (t_sources t) as [|s0 ss] eqn:Ess; [exfalso; apply Hne; reflexivity|]. cbn [is_nil].
    rewrite (is_superstate_spec _ _ Hp), (resolve_target_spec _ _ Hp), (ps_leaves _ _ Hp).
    assert (Htl : mem (entry_of items (t_target t)) (leaves_of items) = true).
    { apply mem_In. unfold entry_of. destruct (Htg t Ht) as [Hl|Hs].
      - rewrite (leaf_not_super _ _ Hp _ Hl). exact Hl.
      - apply find_super_supers in Hs as [b Hb]. rewrite Hb.
        destruct (ps_super_valid _ _ Hp _ _ Hb) as [_ Hin]. eapply find_super_leaves_sub; [exact Hb|exact Hin]. }
    destruct (find_super (t_target t) items) as [b|] eqn:Eft.
    - unfold entry_of in Htl. rewrite Eft in Htl. unfold entry_of. rewrite Eft, Htl. cbn [negb].
      apply validate_all_ok. intros s Hs. unfold validate_source. cbn [m m_hier m_states].
      rewrite (is_superstate_spec _ _ Hp), (ps_leaves _ _ Hp), <- (ps_leaves _ _ Hp), (expand_state_spec _ _ Hp), (ps_leaves _ _ Hp).
      destruct (Hdecl s Hs) as [Hl|Hsu].
      + apply mem_In in Hl. rewrite Hl. cbn [orb negb]. unfold leaves_under.
        apply mem_In in Hl. rewrite (leaf_not_super _ _ Hp _ Hl). apply mem_In in Hl. rewrite Hl. reflexivity.
      + apply find_super_supers in Hsu as [b2 Hb2]. rewrite Hb2, orb_true_r. cbn [negb]. unfold leaves_under. rewrite Hb2.
        destruct (ps_super_valid _ _ Hp _ _ Hb2) as [Hne2 _]. destruct (leaves_of b2); [contradiction|reflexivity].
    - unfold entry_of in Htl. rewrite Eft in Htl. rewrite Htl. cbn [negb].
      apply validate_all_ok. intros s Hs. unfold validate_source. cbn [m m_hier m_states].
      rewrite (is_superstate_spec _ _ Hp), (ps_leaves _ _ Hp), <- (ps_leaves _ _ Hp), (expand_state_spec _ _ Hp), (ps_leaves _ _ Hp).
      destruct (Hdecl s Hs) as [Hl|Hsu].
      + apply mem_In in Hl. rewrite Hl. cbn [orb negb]. unfold leaves_under.
        apply mem_In in Hl. rewrite (leaf_not_super _ _ Hp _ Hl). apply mem_In in Hl. rewrite Hl. reflexivity.
      + apply find_super_supers in Hsu as [b2 Hb2]. rewrite Hb2, orb_true_r. cbn [negb]. unfold leaves_under. rewrite Hb2.
        destruct (ps_super_valid _ _ Hp _ _ Hb2) as [Hne2 _]. destruct (leaves_of b2); [contradiction|reflexivity]. }
  fold evs. fold m. rewrite Hval. eexists. reflexivity.
Qed.

(* the front end accepts exactly the well-formed definitions *)
Corollary front_accepts_iff_wf d : (exists m, front d = Ok m) <-> WF d.
Proof. split; [intros [m H]; eapply accepted_is_wf; exact H|apply wf_is_accepted]. Qed.
