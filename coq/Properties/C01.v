(* C01 -- Dynamic machine follows exactly the declared transition relation.
   Statements only; proofs are in Lemmas/DynLemmas.v and Lemmas/DynTheorems.v. *)
From Coq Require Import String List Bool Arith.
From SM Require Import Ident Ast Front Spec Gir Codegen Sem Dyn Script Static.
From SM.Lemmas Require Import FrontLemmas FrontTop DynLemmas DynTheorems Examples.
Import ListNotations.
Open Scope list_scope.

(* Hypotheses shared by the theorems: the definition is accepted by the front end, the event enum
   has no two variants of the same name (to_pascal_case is not injective: `a_1`/`a1`; rustc rejects
   such a definition, known finding for C14) and no event has two transitions applicable to one leaf
   (rustc rejects: duplicate method, C13). *)

(* One completed handle() call from any declared leaf, any payload, any hook behaviour:
   - Ok: the wrapper now holds a machine in a leaf t with delta(s, e, t), same context;
   - any Err: the wrapper holds the very same machine as before;
   - no transition of e applies to s: InvalidTransition { from: s, event: e }, no hook ran, unchanged. *)
Theorem C01_one_step_follows_delta :
  forall (d : defn) (m : machine) (items : list sitem) (ps : pstate) (feat : bool),
  front_facts d m items ps -> variants_distinct m -> graph_deterministic m ->
  forall (tm : tmachine) (ev : event) (pl : option nat) (w : oracle),
  In (tm_state tm) (leaves_of items) -> In ev (m_events m) ->
  let ho := handle (codegen m feat) (gen_dyn m) (Build_dyn (Some tm)) (e_name ev) pl w None in
  (ho_res ho = HOk ->
     exists tm', ho_dyn ho = Build_dyn (Some tm') /\
                 delta items (m_events m) (tm_state tm) (e_name ev) (tm_state tm') /\
                 In (tm_state tm') (leaves_of items) /\ tm_ctx tm' = tm_ctx tm)
  /\ (forall x, ho_res ho = HErr x -> ho_dyn ho = Build_dyn (Some tm))
  /\ ((forall t, ~ delta items (m_events m) (tm_state tm) (e_name ev) t) ->
        ho = Build_handle_out (Build_dyn (Some tm)) [] 0 (HErr (DInvalid (tm_state tm) (e_name ev))))
  /\ (ho_res ho <> HStuck).
Proof. exact handle_follows_delta. Qed.

(* Every finite sequence of events whose calls return (Ok or Err): the state after the sequence is
   the declared relation folded over the accepted events, refused events acting as the identity; it is
   a declared leaf. *)
Theorem C01_history_is_fold_of_delta :
  forall (d : defn) (m : machine) (items : list sitem) (ps : pstate) (feat : bool),
  front_facts d m items ps -> variants_distinct m -> graph_deterministic m ->
  forall (steps : list step_t) (tm : tmachine),
  In (tm_state tm) (leaves_of items) ->
  Forall (fun st => In (fst (fst st)) (m_events m)) steps ->
  let '(df, log) := dyn_fold m feat (Build_dyn (Some tm)) steps in
  forallb (fun x => returned (snd x)) log = true ->
  exists tmf, df = Build_dyn (Some tmf) /\ tm_state tmf = spec_fold m (tm_state tm) log
              /\ In (tm_state tmf) (leaves_of items) /\ tm_ctx tmf = tm_ctx tm.
Proof. exact history_follows_delta. Qed.

(* the function folded is the declared relation *)
Theorem C01_delta_f_is_delta :
  forall (d : defn) (m : machine) (items : list sitem) (ps : pstate),
  front_facts d m items ps -> variants_distinct m -> graph_deterministic m ->
  forall s ev t, delta_f m s ev = Some t <-> delta items (m_events m) s ev t.
Proof. exact delta_f_spec. Qed.

(* new(ctx) starts in the declared initial leaf *)
Theorem C01_new_is_initial :
  forall (d : defn) (m : machine) (items : list sitem) (ps : pstate) (feat : bool),
  front_facts d m items ps ->
  forall ctx, dyn_new (codegen m feat) (gen_dyn m) ctx =
    Some (Build_dyn (Some (Build_tmachine (m_initial m) ctx
           (map (fun fi => (fst fi, init_slot (snd fi))) (slot_inits m (m_initial m)))))).
Proof. intros d m items ps feat F. exact (dyn_new_spec d m items ps feat F). Qed.

(* every accepted definition provides the facts used above *)
Theorem C01_front_facts :
  forall d m, front d = Ok m -> exists items ps, front_facts d m items ps.
Proof. exact front_spec. Qed.

(* non-vacuity: the example definition satisfies every hypothesis, and a refused-then-accepted run *)
Example C01_example_hyps :
  variants_distinct ex_machine /\ graph_deterministic ex_machine /\ front ex_defn = Ok ex_machine.
Proof.
  split; [|split].
  - unfold variants_distinct. vm_compute. repeat constructor; cbn; intuition discriminate.
  - apply det_b_sound. vm_compute. reflexivity.
  - exact ex_front.
Qed.

Print Assumptions C01_one_step_follows_delta.
Print Assumptions C01_history_is_fold_of_delta.
Print Assumptions C01_delta_f_is_delta.
Print Assumptions C01_new_is_initial.
Print Assumptions C01_front_facts.
