(* C02 -- Typestate API mirrors the transition relation at compile time.
   Statements only; proofs are in Lemmas/NameLemmas.v.  "Can be called" is rustc's method resolution:
   the theorems are about which inherent methods the generated impl of each state type carries;
   K3 checks on compiled machines that rustc resolves exactly those (positive and negative probes). *)
From Coq Require Import String List Bool Arith.
From SM Require Import Ident Ast Front Spec Gir Codegen Sem Dyn Script Static.
From SM.Lemmas Require Import FrontLemmas FrontTop GirLemmas NameLemmas NoBlanket Examples.
Import ListNotations.
Open Scope string_scope.
Open Scope list_scope.

(* For every accepted definition, leaf s and declared event e: the impl of M<.., s> carries a method
   named after e iff a transition of e applies to s (directly or through a superstate); every such
   method returns Ok(M<.., t>) for a t with delta(s, e, t) -- the declared, resolved target -- and,
   being a method of the impl of s, its Err hands back Self = M<.., s>. *)
Theorem C02_method_exists_iff_transition_applies :
  forall (d : defn) (m : machine) (items : list sitem) (ps : pstate) (feat : bool),
  front_facts d m items ps ->
  forall s ev, In s (leaves_of items) -> In ev (m_events m) ->
  ((exists gm, In gm (methods_of (codegen m feat) s (to_snake_case (e_name ev))))
     <-> (exists t, delta items (m_events m) s (e_name ev) t))
  /\ (forall gm, In gm (methods_of (codegen m feat) s (to_snake_case (e_name ev))) ->
        delta items (m_events m) s (e_name ev) (gm_target gm)).
Proof. exact method_exists_iff_delta. Qed.

(* the methods are exactly the edges (one method per applicable transition; two would be rejected by
   rustc as duplicate definitions, C13) *)
Theorem C02_methods_are_the_edges_of_the_event :
  forall (d : defn) (m : machine) (items : list sitem) (ps : pstate) (feat : bool),
  front_facts d m items ps ->
  forall s ev, In s (m_states m) -> In ev (m_events m) ->
  methods_of (codegen m feat) s (to_snake_case (e_name ev)) = map (gen_method m) (edges_of m s (e_name ev)).
Proof. exact method_table. Qed.

(* `new` is generated on the type of the declared initial state and on no other *)
Theorem C02_new_only_on_initial_state :
  forall (m : machine) (feat : bool) (s : ident) (ctx : nat),
  In s (m_states m) -> (typed_new (codegen m feat) s ctx <> None <-> s = m_initial m).
Proof. exact new_only_on_initial. Qed.

(* the infallible data accessors x_data / x_data_mut are generated on the type of state x only *)
Theorem C02_infallible_accessors_on_own_state_only :
  forall (m : machine) (feat : bool),
  gr_state_accs (codegen m feat)
  = map (fun sp => (ss_state sp, to_snake_case (ss_state sp) +++ "_data", ss_field sp)) (m_storage m)
  /\ forall s x a f, state_acc (codegen m feat) s = Some (x, a, f) -> x = s.
Proof. exact state_accessors_on_own_state. Qed.

(* No method reaches a state type through a superstate bound: the blanket
   `impl<C, S: SubstateOf<G>> M<C, S>` blocks the generator can emit are never emitted for an accepted
   definition (the graph is keyed by leaves, and a superstate is never a leaf), so the inherent methods
   of M<.., s> are exactly those of its own impl, characterised above. *)
Theorem C02_no_method_through_a_superstate_bound :
  forall (d : defn) (m : machine) (items : list sitem) (ps : pstate) (feat : bool),
  front_facts d m items ps -> gr_superimpls (codegen m feat) = [].
Proof. intros d m items ps feat F. exact (no_blanket_impls d m items ps F). Qed.

Example C02_example :
  map (fun s => map gm_target (methods_of ex_gir s "go")) ["A"; "B"; "C"; "D2"] = [["D2"]; ["D2"]; ["D2"]; ["D2"]] /\
  map (fun s => map gm_target (methods_of ex_gir s "stay")) ["A"; "B"; "C"; "D2"] = [[]; ["B"]; []; []] /\
  map (fun s => match typed_new ex_gir s 0 with Some _ => true | None => false end) ["A"; "B"; "C"; "D2"] = [true; false; false; false].
Proof. vm_compute. repeat split. Qed.

Print Assumptions C02_no_method_through_a_superstate_bound.
Print Assumptions C02_method_exists_iff_transition_applies.
Print Assumptions C02_methods_are_the_edges_of_the_event.
Print Assumptions C02_new_only_on_initial_state.
Print Assumptions C02_infallible_accessors_on_own_state_only.
