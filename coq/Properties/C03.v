(* C03 -- A transition fires iff all guards hold and no unless-condition holds.
   Statements only; proofs are in Lemmas/HookTheorems.v. *)
From Coq Require Import String List Bool Arith.
From SM Require Import Ident Ast Front Gir Codegen Sem Dyn Script.
From SM.Lemmas Require Import SemLemmas RefSem SemProps HookTheorems Examples.
Import ListNotations.
Open Scope list_scope.

(* For every machine IR m, every edge e, every input machine, payload and hook behaviour w
   (the i-th hook invocation of the run is answered by w i): the conditions are the merged guards
   (event level first) followed by the merged unless-conditions; they are consulted in that order
   after the Before stage of the around callbacks.  If the conditions before position |c1| let the
   run through and the next one blocks (a guard answering false, an unless answering true), the
   method returns Err((self, GuardError::new(g, event))): the unchanged input machine, the name of
   that condition and of the event -- and the trace stops right there. *)
Theorem C03_stops_at_first_blocking_condition :
  forall (m : machine) (e : edge) (self : tmachine) (pl : option nat) (w : oracle)
         (c1 : list (segk * ident)) (k : segk) (g : ident) (c2 : list (segk * ident)),
  (k = KG \/ k = KU) ->
  conds e = c1 ++ (k, g) :: c2 ->
  all_pass (g_event e) w self (arounds_b e ++ c1) 0 = true ->
  is_panic (an_val (w (length (arounds_b e ++ c1)))) = false ->
  blocks k (an_val (w (length (arounds_b e ++ c1)))) = true ->
  run_method (gen_method m e) self pl w None =
  Build_run_out
    (full_calls (m_async m) (has_pl e) (eff_pl e pl) w self (new_machine m e self) (arounds_b e ++ c1) 0
     ++ [call_at (m_async m) (has_pl e) (eff_pl e pl) w self (new_machine m e self) k (length (arounds_b e ++ c1)) g true])
    (full_pend (m_async m) w (arounds_b e ++ c1) 0 + susp_at (m_async m) w (length (arounds_b e ++ c1)))
    (RErr self (Build_gerr g (g_event e) (AKGuard g))).
Proof. exact blocked_run. Qed.

(* With around callbacks that proceed and hooks that do not panic, the method returns Ok exactly
   when no condition blocks: every guard answers true and every unless-condition answers false. *)
Theorem C03_fires_iff_no_condition_blocks :
  forall (m : machine) (e : edge) (self : tmachine) (pl : option nat) (w : oracle),
  all_benign w (hooks_of (g_hooks e)) 0 = true ->
  ((exists t, ro_res (run_method (gen_method m e) self pl w None) = ROk t)
   <-> none_blocks w (conds e) (length (h_around (g_hooks e))) = true).
Proof. exact fires_iff. Qed.

(* the conditions of an edge are the event-level guards, then the transition-level guards, then the
   event-level and the transition-level unless-conditions: the graph merges them in that order *)
Theorem C03_condition_order :
  forall (h : hier) (leaves : list ident) (ev : event) (t : transition) (s : ident) (e : edge),
  In (s, e) (edges_of_transition h leaves ev t) ->
  h_guards (g_hooks e) = h_guards (e_hooks ev) ++ h_guards (t_hooks t) /\
  h_unless (g_hooks e) = h_unless (e_hooks ev) ++ h_unless (t_hooks t) /\
  g_event e = e_name ev.
Proof.
  intros h leaves ev t s e Hin. unfold edges_of_transition in Hin.
  apply in_flat_map in Hin as (src & _ & Hin). apply in_map_iff in Hin as (s' & E & _).
  inversion E; subst. cbn. repeat split.
Qed.

(* non-vacuity: the hypotheses are met by a concrete edge with two guards and one unless *)
Example C03_example_blocked :
  ro_res (run_method (gen_method ex_machine ex_edge) ex_self (Some 3)
                     (oracle_of [Build_ans ADefault 0; Build_ans ADefault 0; Build_ans (ABool true) 0; Build_ans (ABool false) 0]) None)
  = RErr ex_self (Build_gerr "g2" "go" (AKGuard "g2")).
Proof. vm_compute. reflexivity. Qed.
Example C03_example_hyps :
  conds ex_edge = [(KG, "g1")] ++ (KG, "g2") :: [(KU, "u1")] /\
  all_benign (oracle_of []) (hooks_of (g_hooks ex_edge)) 0 = true.
Proof. vm_compute. split; reflexivity. Qed.

Print Assumptions C03_stops_at_first_blocking_condition.
Print Assumptions C03_fires_iff_no_condition_blocks.
Print Assumptions C03_condition_order.
