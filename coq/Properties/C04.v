(* C04 -- Success path runs every hook exactly once in the documented order.
   Statements only; proofs are in Lemmas/HookTheorems.v. *)
From Coq Require Import String List Bool Arith.
From SM Require Import Ident Ast Front Gir Codegen Sem Dyn Script.
From SM.Lemmas Require Import SemLemmas RefSem SemProps HookTheorems Examples.
Import ListNotations.
Open Scope list_scope.

(* When every hook lets the run through, the trace of the generated method is exactly one call per
   entry of the flat hook list, in its order, and the result is Ok(machine in the resolved target).
   "Exactly once" is this equality: a name listed twice is called twice, nothing else is called. *)
Theorem C04_success_trace :
  forall (m : machine) (e : edge) (self : tmachine) (pl : option nat) (w : oracle),
  all_pass (g_event e) w self (hooks_of (g_hooks e)) 0 = true ->
  run_method (gen_method m e) self pl w None =
  Build_run_out
    (full_calls (m_async m) (has_pl e) (eff_pl e pl) w self (new_machine m e self) (hooks_of (g_hooks e)) 0)
    (full_pend (m_async m) w (hooks_of (g_hooks e)) 0)
    (ROk (new_machine m e self)).
Proof. exact success_run. Qed.

(* the documented order: Before stage of the arounds, guards, unless, before-callbacks -- all on the
   machine still typed in the source state -- then after-callbacks and the AfterSuccess stage of the
   arounds on the machine already typed in the target state *)
Theorem C04_documented_order :
  forall (m : machine) (e : edge) (self : tmachine) (pl : option nat) (w : oracle),
  all_pass (g_event e) w self (hooks_of (g_hooks e)) 0 = true ->
  map (fun c => (c_kind c, c_name c, c_state c)) (ro_trace (run_method (gen_method m e) self pl w None)) =
     map (fun n => (HAroundBefore, n, tm_state self)) (h_around (g_hooks e))
  ++ map (fun n => (HGuard, n, tm_state self)) (h_guards (g_hooks e))
  ++ map (fun n => (HUnless, n, tm_state self)) (h_unless (g_hooks e))
  ++ map (fun n => (HBefore, n, tm_state self)) (h_before (g_hooks e))
  ++ map (fun n => (HAfter, n, g_target e)) (h_after (g_hooks e))
  ++ map (fun n => (HAroundAfter, n, g_target e)) (h_around (g_hooks e)).
Proof. exact success_order. Qed.

(* what each hook sees: the machine's own context; the caller's payload (guards, unless, before and
   after callbacks of a payload event); the source state's data before the state change and the
   fresh target configuration after it; and every hook ran to completion *)
Theorem C04_views :
  forall (m : machine) (e : edge) (self : tmachine) (pl : option nat) (w : oracle),
  all_pass (g_event e) w self (hooks_of (g_hooks e)) 0 = true ->
  Forall (fun c =>
      c_ctx c = tm_ctx self
   /\ c_done c = true
   /\ (match c_kind c with
       | HAroundBefore | HAroundAfter => c_pl c = None
       | _ => c_pl c = eff_pl e pl
       end)
   /\ (match c_kind c with
       | HAfter | HAroundAfter => c_state c = g_target e /\ c_slots c = map snd (tm_slots (new_machine m e self))
       | _ => c_state c = tm_state self /\ c_slots c = map snd (tm_slots self)
       end))
    (ro_trace (run_method (gen_method m e) self pl w None)).
Proof. exact success_views. Qed.

(* event-level hooks precede transition-level hooks of the same kind: the graph merges them so *)
Theorem C04_event_level_first :
  forall (h : hier) (leaves : list ident) (ev : event) (t : transition) (s : ident) (e : edge),
  In (s, e) (edges_of_transition h leaves ev t) ->
  g_hooks e = merge_hooks (e_hooks ev) (t_hooks t) /\ g_payload e = e_payload ev.
Proof.
  intros h leaves ev t s e Hin. unfold edges_of_transition in Hin.
  apply in_flat_map in Hin as (src & _ & Hin). apply in_map_iff in Hin as (s' & E & _).
  inversion E; subst. cbn. split; reflexivity.
Qed.

Example C04_example :
  all_pass (g_event ex_edge) (oracle_of []) ex_self (hooks_of (g_hooks ex_edge)) 0 = true /\
  map (fun c => (c_kind c, c_name c, c_state c))
      (ro_trace (run_method (gen_method ex_machine ex_edge) ex_self (Some 3) (oracle_of []) None))
  = [(HAroundBefore, "w1", "A"); (HAroundBefore, "w2", "A"); (HGuard, "g1", "A"); (HGuard, "g2", "A");
     (HUnless, "u1", "A"); (HBefore, "b1", "A"); (HAfter, "a1", "D2"); (HAroundAfter, "w1", "D2");
     (HAroundAfter, "w2", "D2")]%string.
Proof. vm_compute. split; reflexivity. Qed.

Print Assumptions C04_success_trace.
Print Assumptions C04_documented_order.
Print Assumptions C04_views.
Print Assumptions C04_event_level_first.
