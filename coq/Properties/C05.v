(* C05 -- A refused transition has no effect and returns the machine intact.
   Statements only; proofs are in Lemmas/HookTheorems.v and Lemmas/ScriptLemmas.v. *)
From Coq Require Import String List Bool Arith.
From SM Require Import Ident Ast Front Spec Gir Codegen Sem Dyn Script Static.
From SM.Lemmas Require Import SemLemmas RefSem SemProps HookTheorems DynLemmas DynTheorems ScriptLemmas Examples.
Import ListNotations.
Open Scope list_scope.

(* Typed method: whenever the result is Err((m', ge)) -- a guard, an unless-condition or an around
   Before stage blocked -- m' is the input machine itself (same state, same context, same data slots
   including earlier modifications), the error carries the declared event name, and the only hooks
   that ran are Before stages, guards and unless-conditions, all on the unchanged machine: no
   before/after callback, no AfterSuccess stage. *)
Theorem C05_refused_typed_call_returns_the_machine_intact :
  forall (m : machine) (e : edge) (self : tmachine) (pl : option nat) (w : oracle) (m' : tmachine) (ge : gerr),
  ro_res (run_method (gen_method m e) self pl w None) = RErr m' ge ->
  m' = self /\ ge_event ge = g_event e /\
  Forall (fun c => (c_kind c = HAroundBefore \/ c_kind c = HGuard \/ c_kind c = HUnless)
                   /\ c_state c = tm_state self /\ c_slots c = map snd (tm_slots self) /\ c_ctx c = tm_ctx self)
         (ro_trace (run_method (gen_method m e) self pl w None)).
Proof. exact refused_intact. Qed.

(* Dynamic wrapper: after every Err return of handle() the wrapper is exactly what it was, hence
   current_state() and every data accessor answer as before. *)
Theorem C05_refused_handle_leaves_wrapper_unchanged :
  forall (m : machine) (feat : bool) (gd : gdyn) (d : dyn) (ev : ident) (pl : option nat) (w : oracle) (x : derr),
  ho_res (handle (codegen m feat) gd d ev pl w None) = HErr x ->
  ho_dyn (handle (codegen m feat) gd d ev pl w None) = d.
Proof. exact handle_err_unchanged. Qed.

(* The machine handed back stays fully usable: calling the same method on it again, with hook
   behaviour under which every Before stage proceeds and no condition blocks, succeeds -- exactly as
   it would have on the original machine (the refusal left nothing behind). *)
Theorem C05_retry_after_refusal_succeeds :
  forall (m : machine) (e : edge) (self : tmachine) (pl pl' : option nat) (w w' : oracle) (m' : tmachine) (ge : gerr),
  ro_res (run_method (gen_method m e) self pl w None) = RErr m' ge ->
  all_benign w' (hooks_of (g_hooks e)) 0 = true ->
  none_blocks w' (conds e) (length (h_around (g_hooks e))) = true ->
  run_method (gen_method m e) m' pl' w' None = run_method (gen_method m e) self pl' w' None /\
  exists t, ro_res (run_method (gen_method m e) m' pl' w' None) = ROk t.
Proof.
  intros m e self pl pl' w w' m' ge Hr Hb Hn.
  destruct (refused_intact m e self pl w m' ge Hr) as (-> & _).
  split; [reflexivity|]. apply (fires_iff m e self pl' w' Hb). exact Hn.
Qed.

(* Histories: an operation that is refused (typed Err, dynamic Err incl. wrong-state, a failed
   into_<s>(), an operation that does not exist on the current state) leaves the configuration as it
   was, so the rest of any history -- a retry under a changed hook behaviour included -- is observed
   exactly as if the refused call had not been made, at whatever position it occurs. *)
Theorem C05_refusal_is_a_noop_anywhere_in_a_history :
  forall (m : machine) (feat : bool) (h : holder) (o : op) (rest : list op),
  completes o = true -> is_refusal (o_res (step (codegen m feat) h o)) = true ->
  o_holder (step (codegen m feat) h o) = h /\
  run_script (codegen m feat) h (o :: rest) = step (codegen m feat) h o :: run_script (codegen m feat) h rest.
Proof.
  intros m feat h o rest Hc Hr. split; [exact (refusal_is_noop m feat h o Hc Hr)|exact (refusal_transparent m feat h o rest Hc Hr)].
Qed.

(* non-vacuity: a refusal with modified data in the source state, then a successful retry *)
Example C05_example :
  map (obs_str ex_gir)
      (run_script ex_gir (HD (Build_dyn (Some ex_self)))
                  [OHandle "go" (Some 1) [Build_ans ADefault 0; Build_ans ADefault 0; Build_ans (ABool false) 0] None;
                   OHandle "go" (Some 2) [] None])
  = ["err:GF(g1,go)|ab.w1.A.5/-.7.-,ab.w2.A.5/-.7.-,g.g1.A.5/-.7.1|c=|p=1|n=0|D:A:5/-";
     "ok|ab.w1.A.5/-.7.-,ab.w2.A.5/-.7.-,g.g1.A.5/-.7.2,g.g2.A.5/-.7.2,u.u1.A.5/-.7.2,b.b1.A.5/-.7.2,a.a1.D2.-/0.7.2,aa.w1.D2.-/0.7.-,aa.w2.D2.-/0.7.-|c=|p=2|n=0|D:D2:-/0"]%string.
Proof. vm_compute. reflexivity. Qed.

Print Assumptions C05_refused_typed_call_returns_the_machine_intact.
Print Assumptions C05_retry_after_refusal_succeeds.
Print Assumptions C05_refused_handle_leaves_wrapper_unchanged.
Print Assumptions C05_refusal_is_a_noop_anywhere_in_a_history.
