(* C06 -- Around callbacks can veto before the transition and are never swallowed after.
   Statements only; proofs are in Lemmas/HookTheorems.v. *)
From Coq Require Import String List Bool Arith.
From SM Require Import Ident Ast Front Gir Codegen Sem Dyn Script.
From SM.Lemmas Require Import SemLemmas RefSem SemProps HookTheorems Examples.
Import ListNotations.
Open Scope list_scope.

(* (a) the first around callback (at any position of the merged list) that aborts at its Before
   stage ends the run: the caller gets the input machine back with a GuardError that keeps the
   abort's kind and carries the guard/action name of the kind -- the callback's own name for an
   invalid-transition abort -- and the real event name; no later hook is called *)
Theorem C06_abort_before_vetoes :
  forall (m : machine) (e : edge) (self : tmachine) (pl : option nat) (w : oracle)
         (a1 : list ident) (cb : ident) (a2 : list ident) (kd : akind),
  h_around (g_hooks e) = a1 ++ cb :: a2 ->
  all_pass (g_event e) w self (map (pair KAB) a1) 0 = true ->
  an_val (w (length a1)) = AAbort kd ->
  run_method (gen_method m e) self pl w None =
  Build_run_out
    (full_calls (m_async m) (has_pl e) (eff_pl e pl) w self (new_machine m e self) (map (pair KAB) a1) 0
     ++ [call_at (m_async m) (has_pl e) (eff_pl e pl) w self (new_machine m e self) KAB (length a1) cb true])
    (full_pend (m_async m) w (map (pair KAB) a1) 0 + susp_at (m_async m) w (length a1))
    (RErr self (Build_gerr (abort_name kd cb) (g_event e) kd)).
Proof. exact abort_before_run. Qed.

(* (c) an abort at the AfterSuccess stage is never turned into Ok: the run ends in the panic whose
   message is built from the name carried by the abort and the event name *)
Theorem C06_abort_after_panics :
  forall (m : machine) (e : edge) (self : tmachine) (pl : option nat) (w : oracle)
         (a1 : list ident) (cb : ident) (a2 : list ident) (kd : akind),
  h_around (g_hooks e) = a1 ++ cb :: a2 ->
  let pre := arounds_b e ++ conds e ++ map (pair KB) (h_before (g_hooks e))
             ++ map (pair KA) (h_after (g_hooks e)) ++ map (pair KAA) a1 in
  all_pass (g_event e) w self pre 0 = true ->
  an_val (w (length pre)) = AAbort kd ->
  run_method (gen_method m e) self pl w None =
  Build_run_out
    (full_calls (m_async m) (has_pl e) (eff_pl e pl) w self (new_machine m e self) pre 0
     ++ [call_at (m_async m) (has_pl e) (eff_pl e pl) w self (new_machine m e self) KAA (length pre) cb true])
    (full_pend (m_async m) w pre 0 + susp_at (m_async m) w (length pre))
    (RPanicAfter (abort_name kd cb) (g_event e)).
Proof. exact abort_after_run. Qed.

(* (b) an AfterSuccess stage appears in a trace only when every Before stage, condition,
   before-callback and after-callback of that run let it through, i.e. after the state change and
   after all after-callbacks; in a completed run each appears exactly once (C04_success_trace) *)
Theorem C06_after_stage_only_after_success :
  forall (m : machine) (e : edge) (self : tmachine) (pl : option nat) (w : oracle) (c : call),
  In c (ro_trace (run_method (gen_method m e) self pl w None)) -> c_kind c = HAroundAfter ->
  all_pass (g_event e) w self
           (arounds_b e ++ conds e ++ map (pair KB) (h_before (g_hooks e)) ++ map (pair KA) (h_after (g_hooks e))) 0 = true.
Proof. exact after_stage_only_after_success. Qed.

(* a refused run (any Err) contains no before/after callback and no AfterSuccess stage *)
Theorem C06_refused_runs_no_later_hook :
  forall (m : machine) (e : edge) (self : tmachine) (pl : option nat) (w : oracle) (m' : tmachine) (ge : gerr),
  ro_res (run_method (gen_method m e) self pl w None) = RErr m' ge ->
  m' = self /\ ge_event ge = g_event e /\
  Forall (fun c => (c_kind c = HAroundBefore \/ c_kind c = HGuard \/ c_kind c = HUnless)
                   /\ c_state c = tm_state self /\ c_slots c = map snd (tm_slots self) /\ c_ctx c = tm_ctx self)
         (ro_trace (run_method (gen_method m e) self pl w None)).
Proof. exact refused_intact. Qed.

Example C06_example_before :
  ro_res (run_method (gen_method ex_machine ex_edge) ex_self (Some 3)
            (oracle_of [Build_ans ADefault 0; Build_ans (AAbort AKInvalid) 0]) None)
  = RErr ex_self (Build_gerr "w2" "go" AKInvalid).
Proof. vm_compute. reflexivity. Qed.
Example C06_example_after :
  ro_res (run_method (gen_method ex_machine ex_edge) ex_self (Some 3)
            (oracle_of (repeat (Build_ans ADefault 0) 7 ++ [Build_ans (AAbort (AKAction "act")) 0])) None)
  = RPanicAfter "act" "go".
Proof. vm_compute. reflexivity. Qed.

Print Assumptions C06_abort_before_vetoes.
Print Assumptions C06_abort_after_panics.
Print Assumptions C06_after_stage_only_after_success.
Print Assumptions C06_refused_runs_no_later_hook.
