(* C07 -- Hierarchy resolution: descendants, initial child and SubstateOf agree.
   Statements only; proofs are in Lemmas/FrontLemmas.v, FrontTop.v, ChainLemmas.v, GirLemmas.v.
   There is no bound on the depth of the forest: the proofs are by induction on it. *)
From Coq Require Import String List Bool Arith.
From SM Require Import Ident Ast Front Spec Gir Codegen Sem Dyn Script.
From SM.Lemmas Require Import FrontLemmas FrontTop ChainLemmas GirLemmas Examples.
Import ListNotations.
Open Scope list_scope.

(* For every accepted definition: a name used as a transition source stands for every leaf nested
   anywhere beneath that superstate, in declaration order, and nothing else (for the leaf itself when
   it is a leaf); a name used as a target stands for the superstate's declared initial leaf, or its
   first-declared leaf when none is declared (for the leaf itself when it is a leaf). *)
Theorem C07_sources_and_targets_resolve :
  forall (d : defn) (m : machine), front d = Ok m ->
  exists items, d_states d = Some items /\
    m_states m = leaves_of items /\
    (forall x, expand_state (m_hier m) (m_states m) x = leaves_under items x) /\
    (forall x, resolve_target (m_hier m) x = Some (entry_of items x)) /\
    (forall l, In l (leaves_of items) -> leaves_under items l = [l] /\ entry_of items l = l) /\
    (forall g b, find_super g items = Some b ->
                 leaves_under items g = leaves_of b /\ entry_of items g = entry_leaf b /\
                 leaves_of b <> [] /\ In (entry_leaf b) (leaves_of b)).
Proof.
  intros d m H. destruct (front_spec _ _ H) as (items & ps & F).
  pose proof (ff_parse _ _ _ _ F) as Hp.
  exists items. split; [exact (ff_states _ _ _ _ F)|]. split; [exact (ff_leaves _ _ _ _ F)|].
  rewrite (ff_hier _ _ _ _ F), (ff_leaves _ _ _ _ F), <- (ps_leaves _ _ Hp).
  split; [exact (expand_state_spec _ _ Hp)|]. split; [exact (resolve_target_spec _ _ Hp)|]. split.
  - intros l Hl. rewrite (ps_leaves _ _ Hp) in Hl.
    pose proof (expand_leaf _ _ Hp l Hl) as E1. rewrite (expand_state_spec _ _ Hp) in E1.
    pose proof (resolve_leaf _ _ Hp l Hl) as E2. rewrite (resolve_target_spec _ _ Hp) in E2.
    split; [exact E1|congruence].
  - intros g b Hg. unfold leaves_under, entry_of. rewrite Hg.
    destruct (ps_super_valid _ _ Hp _ _ Hg). repeat split; assumption.
Qed.

(* the transition graph the code generator works from is exactly the declared relation:
   (s, e, t) is an edge iff some transition of event e lists a source standing for s and its target
   stands for t *)
Theorem C07_graph_is_declared_relation :
  forall (d : defn) (m : machine), front d = Ok m ->
  exists items, d_states d = Some items /\
    forall s e t,
      (exists edge, In (s, edge) (m_graph m) /\ g_event edge = e /\ g_target edge = t)
      <-> delta items (m_events m) s e t.
Proof.
  intros d m H. destruct (front_spec _ _ H) as (items & ps & F).
  exists items. split; [exact (ff_states _ _ _ _ F)|]. exact (graph_delta _ _ _ _ F).
Qed.

(* a leaf implements SubstateOf<P> exactly for the superstates P whose block contains it, directly
   or transitively *)
Theorem C07_substate_of_exactly_containing_superstates :
  forall (d : defn) (m : machine) (feat : bool), front d = Ok m ->
  exists items, d_states d = Some items /\
    forall l p, In (l, p) (gr_substate (codegen m feat))
                <-> (In l (leaves_of items) /\ exists b, find_super p items = Some b /\ In l (leaves_of b)).
Proof.
  intros d m feat H. destruct (front_spec _ _ H) as (items & ps & F).
  exists items. split; [exact (ff_states _ _ _ _ F)|]. exact (substate_spec _ _ _ _ feat F).
Qed.

(* the typed methods of a leaf are one per edge of that leaf *)
Theorem C07_methods_are_the_edges :
  forall (m : machine) (feat : bool) (s name : ident), In s (m_states m) ->
  methods_of (codegen m feat) s name =
  filter (fun gm => String.eqb (gm_name gm) name) (map (gen_method m) (outgoing (m_graph m) s)).
Proof. exact methods_of_codegen. Qed.

Example C07_example :
  expand_state (m_hier ex_machine) (m_states ex_machine) "G" = ["B"; "C"; "D2"]%string /\
  resolve_target (m_hier ex_machine) "H" = Some "D2"%string /\
  resolve_target (m_hier ex_machine) "G" = Some "B"%string /\
  gr_substate ex_gir = [("B", "G"); ("C", "G"); ("C", "H"); ("D2", "G"); ("D2", "H")]%string.
Proof. vm_compute. repeat split. Qed.

Print Assumptions C07_sources_and_targets_resolve.
Print Assumptions C07_graph_is_declared_relation.
Print Assumptions C07_substate_of_exactly_containing_superstates.
Print Assumptions C07_methods_are_the_edges.
