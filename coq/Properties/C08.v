(* C08 -- State data exists exactly while its state is current and starts fresh on entry.
   Statements only; proofs are in Lemmas/DataLemmas.v and Lemmas/DataTop.v. *)
From Coq Require Import String List Bool Arith.
From SM Require Import Ident Ast Front Spec Gir Codegen Sem Dyn Script Static.
From SM.Lemmas Require Import FrontLemmas FrontTop CasesLemmas DataLemmas DataTop Examples.
Import ListNotations.
Open Scope list_scope.

(* Hypothesis fields_distinct: no two data states share a storage field name (to_snake_case is not
   injective on state names, e.g. HTTPServer / HttpServer; rustc rejects such a definition -- known
   finding recorded for C14). *)

(* At every point of every history (constructions, typed and dynamic transitions, refusals, panics,
   abandoned calls, in-place mutations, setters, conversions, drops) on an accepted definition: the
   machine is in a declared leaf, and for every data leaf X the slot of X is present iff the machine
   is in X. *)
Theorem C08_data_present_iff_in_state_along_every_history :
  forall (d : defn) (m : machine) (items : list sitem) (ps : pstate) (feat : bool),
  front_facts d m items ps -> fields_distinct m ->
  forall ops : list op,
  Forall (fun ob => holder_ok m (o_holder ob)) (run_script (codegen m feat) HNone ops).
Proof. exact data_invariant_all_histories. Qed.

(* Each entry creates the data afresh: after any successful transition into X (self-transitions
   included) the slot of X is Some(default) and every other slot is None ... *)
Theorem C08_entry_creates_default :
  forall (m : machine), fields_distinct m ->
  forall (tm : tmachine) (e : edge) (pl : option nat) (w : oracle) (b : option nat) (nm : tmachine) (sp : storage_spec),
  In e (outgoing (m_graph m) (tm_state tm)) ->
  ro_res (run_method (gen_method m e) tm pl w b) = ROk nm ->
  In sp (m_storage m) ->
  slot_get (ss_field sp) (tm_slots nm) = if String.eqb (ss_state sp) (tm_state nm) then Some 0 else None.
Proof. exact entry_gives_default. Qed.

(* ... and so does construction, when the initial state carries data *)
Theorem C08_new_creates_default :
  forall (m : machine) (feat : bool), fields_distinct m ->
  forall (s : ident) (ctx : nat) (tm : tmachine) (sp : storage_spec),
  typed_new (codegen m feat) s ctx = Some tm -> In sp (m_storage m) ->
  tm_state tm = m_initial m /\ tm_ctx tm = ctx /\
  slot_get (ss_field sp) (tm_slots tm) = if String.eqb (ss_state sp) (m_initial m) then Some 0 else None.
Proof. exact new_gives_default. Qed.

(* Consequently the infallible accessor on a machine typed in X never meets None *)
Theorem C08_infallible_accessor_never_panics :
  forall (m : machine) (tm : tmachine) (sp : storage_spec),
  tm_ok m tm -> In sp (m_storage m) -> ss_state sp = tm_state tm ->
  slot_get (ss_field sp) (tm_slots tm) <> None.
Proof. exact accessor_never_panics. Qed.

(* user modifications stay for as long as the machine stays: writing a present slot keeps the invariant
   (the in-place accessors are read-modify-write: the model's OMut / OTMut add to the stored value) *)
Theorem C08_modification_kept :
  forall (m : machine), fields_distinct m ->
  forall (tm : tmachine) (f : ident) (v : nat),
  data_inv m tm -> slot_get f (tm_slots tm) <> None ->
  data_inv m (Build_tmachine (tm_state tm) (tm_ctx tm) (slot_set f (Some v) (tm_slots tm))) /\
  slot_get f (slot_set f (Some v) (tm_slots tm)) = Some v.
Proof.
  intros m FD tm f v Hi Hp. split; [apply set_present_inv; assumption|].
  apply slot_get_set_same. apply slot_get_some_has_key. exact Hp.
Qed.

Example C08_example :
  fields_distinct ex_machine /\
  map (obs_str ex_gir) (run_script ex_gir HNone [ONew "A" 7; OTMut "A" 42; OTyped "go" (Some 1) [] None; OMut "A" 5])
  = ["ok||c=|p=|n=0|T:A:0/-:0"; "ok||c=|p=|n=0|T:A:42/-:42";
     "ok|ab.w1.A.42/-.7.-,ab.w2.A.42/-.7.-,g.g1.A.42/-.7.1,g.g2.A.42/-.7.1,u.u1.A.42/-.7.1,b.b1.A.42/-.7.1,a.a1.D2.-/0.7.1,aa.w1.D2.-/0.7.-,aa.w2.D2.-/0.7.-|c=|p=1|n=0|T:D2:-/0:0";
     "wrote:0||c=|p=|n=0|T:D2:-/0:0"]%string.
Proof. split; [unfold fields_distinct; vm_compute; repeat constructor; cbn; intuition discriminate|vm_compute; reflexivity]. Qed.

Print Assumptions C08_data_present_iff_in_state_along_every_history.
Print Assumptions C08_entry_creates_default.
Print Assumptions C08_new_creates_default.
Print Assumptions C08_infallible_accessor_never_panics.
Print Assumptions C08_modification_kept.
