(* C09 -- Typestate and dynamic modes are observationally equivalent.
   Statements only; proofs are in Lemmas/DynLemmas.v and Lemmas/DynTheorems.v. *)
From Coq Require Import String List Bool Arith.
From SM Require Import Ident Ast Front Spec Gir Codegen Sem Dyn Script Static.
From SM.Lemmas Require Import FrontLemmas FrontTop DynLemmas DynTheorems Examples.
Import ListNotations.
Open Scope list_scope.

(* For every configuration tm in a declared leaf, every declared event, payload and hook behaviour:
   - if the state type has the typed method of the event (exactly one: gm), dispatching through
     handle() is that very call, wrapped: same hook trace, same number of suspensions, and
       Ok(m')          -> Ok(()), wrapper holds m'
       Err((m, ge))    -> Err(from_guard_error(ge)), wrapper holds m
       (guard-failed -> GuardFailed, action-failed -> ActionFailed, same names; an
        invalid-transition abort -> InvalidTransition naming the current state)
   - if the state type has no such method, handle() refuses with InvalidTransition, runs no hook and
     leaves the wrapper unchanged.  There is never more than one candidate. *)
Theorem C09_handle_is_the_typed_call_wrapped :
  forall (d : defn) (m : machine) (items : list sitem) (ps : pstate) (feat : bool),
  front_facts d m items ps -> variants_distinct m -> graph_deterministic m ->
  forall (tm : tmachine) (ev : event) (pl : option nat) (w : oracle),
  In (tm_state tm) (leaves_of items) -> In ev (m_events m) ->
  match methods_of (codegen m feat) (tm_state tm) (to_snake_case (e_name ev)) with
  | [gm] => handle (codegen m feat) (gen_dyn m) (Build_dyn (Some tm)) (e_name ev) pl w None
            = lift_res (Build_dyn (Some tm)) (tm_state tm) (run_method gm tm pl w None)
  | [] => handle (codegen m feat) (gen_dyn m) (Build_dyn (Some tm)) (e_name ev) pl w None
          = Build_handle_out (Build_dyn (Some tm)) [] 0 (HErr (DInvalid (tm_state tm) (e_name ev)))
  | _ => False
  end.
Proof. exact typed_dynamic_equivalent. Qed.

(* the error correspondence used by lift_res *)
Theorem C09_error_correspondence :
  forall (s g ev a : ident),
  arm_err s (Build_gerr g ev (AKGuard g)) = DGuardFailed g ev /\
  arm_err s (Build_gerr a ev (AKAction a)) = DActionFailed a ev /\
  arm_err s (Build_gerr g ev AKInvalid) = DInvalid s ev.
Proof. intros. repeat split. Qed.

Example C09_example :
  methods_of ex_gir "A" (to_snake_case "go") = [gen_method ex_machine ex_edge] /\
  methods_of ex_gir "A" (to_snake_case "back") = [].
Proof. vm_compute. split; reflexivity. Qed.

Print Assumptions C09_handle_is_the_typed_call_wrapped.
Print Assumptions C09_error_correspondence.
