(* C10 -- Mode conversions are exact and lossless.
   Statements only; proofs are in Lemmas/DataTop.v and Lemmas/DataLemmas.v. *)
From Coq Require Import String List Bool Arith.
From SM Require Import Ident Ast Front Spec Gir Codegen Sem Dyn Script Static.
From SM.Lemmas Require Import FrontLemmas FrontTop CasesLemmas DataLemmas DataTop CtxLemmas Examples.
Import ListNotations.
Open Scope list_scope.

(* into_dynamic() reports the typed machine's state; into_<s>() succeeds iff the wrapper is in s and
   then returns the very machine that was wrapped; on mismatch it hands the wrapper back *)
Theorem C10_conversions_exact :
  forall (d : defn) (m : machine) (items : list sitem) (ps : pstate),
  front_facts d m items ps ->
  forall (tm : tmachine) (s : ident), In (tm_state tm) (m_states m) ->
  current_state (gen_dyn m) (into_dynamic tm) = Some (tm_state tm) /\
  (into_state s (into_dynamic tm) = inl tm <-> tm_state tm = s) /\
  (tm_state tm <> s -> into_state s (into_dynamic tm) = inr (into_dynamic tm)) /\
  into_state (tm_state tm) (into_dynamic tm) = inl tm.
Proof. intros d m items ps F. exact (conversions_exact m). Qed.

(* for any wrapper (poisoned ones included): what into_<s>() returns holds exactly what went in --
   state, context and every data slot -- or is the unchanged wrapper *)
Theorem C10_into_state_lossless :
  forall (s : ident) (dd : dyn),
  match into_state s dd with
  | inl tm => dd = into_dynamic tm /\ tm_state tm = s
  | inr dd' => dd' = dd
  end.
Proof. exact into_state_lossless. Qed.

(* any chain of conversions inside a history preserves the context (and, by C08's invariant, the
   data): a conversion neither creates nor drops a context *)
Theorem C10_conversions_keep_context :
  forall (m : machine) (feat : bool) (h : holder) (o : op),
  (exists s, o = OInto s) \/ o = OIntoDyn ->
  holder_ctx (o_holder (step (codegen m feat) h o)) = holder_ctx h /\ o_cdrops (step (codegen m feat) h o) = [].
Proof. exact conversion_keeps_ctx. Qed.

(* a default-constructed wrapper is new(Default::default()): the same operation of the model *)
Theorem C10_default_is_new_of_default :
  forall (g : gir) (h : holder), step_core g h ODynDefault = step_core g h (ODynNew 0).
Proof. reflexivity. Qed.

Example C10_example :
  map (obs_str ex_gir) (run_script ex_gir HNone [ODynNew 3; OInto "B"; OInto "A"; OIntoDyn])
  = ["ok||c=|p=|n=0|D:A:0/-"; "conv:err||c=|p=|n=0|D:A:0/-"; "conv:ok||c=|p=|n=0|T:A:0/-:0"; "conv:ok||c=|p=|n=0|D:A:0/-"]%string.
Proof. vm_compute. reflexivity. Qed.

Print Assumptions C10_conversions_exact.
Print Assumptions C10_into_state_lossless.
Print Assumptions C10_conversions_keep_context.
Print Assumptions C10_default_is_new_of_default.
