(* C11 -- Dynamic data accessors and setters are gated by the current state.
   Statements only; proofs are in Lemmas/DataTop.v. *)
From Coq Require Import String List Bool Arith.
From SM Require Import Ident Ast Front Spec Gir Codegen Sem Dyn Script Static.
From SM.Lemmas Require Import FrontLemmas FrontTop CasesLemmas DataLemmas DataTop Examples.
Import ListNotations.
Open Scope list_scope.

(* For an accepted definition, a wrapper holding a machine that satisfies C08's invariant (every
   reachable one does), and a data leaf X with storage spec sp: the read and mutable accessors of X
   give a value iff the machine is in X; the setter stores iff in X -- then what was written is what
   reads return and no other slot changes -- and otherwise changes nothing and returns
   WrongState { expected: X, actual: current state, operation: set_x_data }. *)
Theorem C11_accessors_gated_by_state :
  forall (d : defn) (m : machine) (items : list sitem) (ps : pstate),
  front_facts d m items ps -> fields_distinct m ->
  forall (tm : tmachine) (sp : storage_spec) (v : nat),
  tm_ok m tm -> In sp (m_storage m) -> In (ss_state sp) (m_states m) ->
  let a := acc_for sp in
  let dd := Build_dyn (Some tm) in
  (acc_read a dd <> None <-> tm_state tm = ss_state sp) /\
  (snd (acc_write a dd v) = true <-> tm_state tm = ss_state sp) /\
  (tm_state tm = ss_state sp ->
     acc_set (gen_dyn m) a dd v =
       (Build_dyn (Some (Build_tmachine (tm_state tm) (tm_ctx tm) (slot_set (ss_field sp) (Some v) (tm_slots tm)))), None) /\
     acc_read a (fst (acc_set (gen_dyn m) a dd v)) = Some v /\
     (exists old, acc_read a dd = Some old /\ acc_read a (fst (acc_write a dd v)) = Some (old + v)) /\
     (forall sp', In sp' (m_storage m) -> ss_field sp' <> ss_field sp ->
        slot_get (ss_field sp') (slot_set (ss_field sp) (Some v) (tm_slots tm)) = slot_get (ss_field sp') (tm_slots tm))) /\
  (tm_state tm <> ss_state sp ->
     acc_set (gen_dyn m) a dd v = (dd, Some (DWrongState (ss_state sp) (tm_state tm) (gc_set a))) /\
     acc_write a dd v = (dd, false)).
Proof. intros d m items ps F FD. exact (dyn_accessors_gated m). Qed.

(* the accessor used above is the one the macro generates for that data leaf *)
Theorem C11_accessor_is_generated :
  forall (d : defn) (m : machine) (items : list sitem) (ps : pstate),
  front_facts d m items ps ->
  forall sp, In sp (m_storage m) -> In (ss_state sp) (m_states m) -> In (acc_for sp) (gen_accs m).
Proof. exact acc_for_in. Qed.

(* after conversion the typed accessor returns what was written: into_<s>() returns the wrapped
   machine itself (C10_into_state_lossless) *)
Theorem C11_typed_accessor_after_conversion :
  forall (tm : tmachine) (f : ident) (v : nat),
  has_key f (tm_slots tm) = true ->
  match into_state (tm_state tm) (Build_dyn (Some (Build_tmachine (tm_state tm) (tm_ctx tm) (slot_set f (Some v) (tm_slots tm))))) with
  | inl tm' => slot_get f (tm_slots tm') = Some v
  | inr _ => False
  end.
Proof.
  intros tm f v Hk. unfold into_state. cbn. rewrite String.eqb_refl. apply slot_get_set_same. exact Hk.
Qed.

Example C11_example :
  map (obs_str ex_gir) (run_script ex_gir HNone [ODynNew 3; OSet "D2" 9; OSet "A" 8; OMut "A" 4; OInto "A"])
  = ["ok||c=|p=|n=0|D:A:0/-"; "err:WS(D2,A,set_d2_data)||c=|p=|n=0|D:A:0/-"; "ok||c=|p=|n=0|D:A:8/-";
     "wrote:1||c=|p=|n=0|D:A:12/-"; "conv:ok||c=|p=|n=0|T:A:12/-:12"]%string.
Proof. vm_compute. reflexivity. Qed.

Print Assumptions C11_accessors_gated_by_state.
Print Assumptions C11_accessor_is_generated.
Print Assumptions C11_typed_accessor_after_conversion.
