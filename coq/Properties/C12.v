(* C12 -- Errors and event names report exactly what was declared.
   Statements only; proofs are in Lemmas/NameLemmas.v, DynTheorems.v. *)
From Coq Require Import String List Bool Arith.
From SM Require Import Ident Ast Front Spec Gir Codegen Sem Dyn Core Script Static.
From SM.Lemmas Require Import FrontLemmas FrontTop GirLemmas NameLemmas DynLemmas DynTheorems Examples.
Import ListNotations.
Open Scope string_scope.
Open Scope list_scope.

(* every GuardError a generated method returns carries the declared event name, and either the
   declared name of the guard / unless-condition that blocked, or the name derived from the abort of
   a declared around callback (the name the kind carries; the callback's own name for an
   invalid-transition abort) *)
Theorem C12_guard_errors_carry_declared_names :
  forall (m : machine) (e : edge) (self : tmachine) (pl : option nat) (w : oracle) (m' : tmachine) (ge : gerr),
  ro_res (run_method (gen_method m e) self pl w None) = RErr m' ge ->
  ge_event ge = g_event e /\
  ((exists g, In g (h_guards (g_hooks e) ++ h_unless (g_hooks e)) /\ ge = Build_gerr g (g_event e) (AKGuard g))
   \/ (exists cb kd, In cb (h_around (g_hooks e)) /\ ge = Build_gerr (abort_name kd cb) (g_event e) kd)).
Proof. exact guard_error_names. Qed.

(* an invalid-transition error from a dynamic machine names the state the machine was in and the
   event: the catch-all arm (C01_one_step_follows_delta, third clause) and the conversion of an
   invalid-transition abort in a dispatch arm *)
Theorem C12_invalid_transition_names_current_state :
  forall (s g ev : ident), arm_err s (Build_gerr g ev AKInvalid) = DInvalid s ev.
Proof. reflexivity. Qed.

(* each generated event variant is the PascalCase of the declared name and its name() returns the
   declared name; the typed method of a snake_case event is called exactly what was declared *)
Theorem C12_event_variants_and_methods_named_as_declared :
  forall (m : machine),
  gd_events (gen_dyn m) = map (fun ev => (to_pascal_case (e_name ev), e_name ev, e_payload ev)) (m_events m)
  /\ forall e, is_snake_case (g_event e) = true -> gm_name (gen_method m e) = g_event e.
Proof. intros m. split; [apply event_enum_names|intros e; apply method_name_is_event_name]. Qed.

(* the core constructors store their arguments unchanged, the GuardError -> DynamicError conversion
   keeps kind and names, abort_guard! (both arms) and abort_with! build Abort { from, event, kind } from
   their arguments -- for all names and the three kinds *)
Theorem C12_core_functions_and_macros_preserve_names :
  forall (a b c : ident) (k : akind),
  te_invalid_transition a b = Build_terr a b AKInvalid /\
  te_guard_failed a b c = Build_terr a b (AKGuard c) /\
  ge_new a b = Build_gerr a b (AKGuard a) /\
  ge_with_kind a b k = Build_gerr a b k /\
  from_guard_error (ge_with_kind a b (AKGuard c)) = DGuardFailed c b /\
  from_guard_error (ge_with_kind a b (AKAction c)) = DActionFailed c b /\
  (exists f, from_guard_error (ge_with_kind a b AKInvalid) = DInvalid f b) /\
  abort_guard (Build_tctx a c b) c = Abort (Build_terr a b (AKGuard c)) /\
  abort_with (Build_tctx a c b) k = Abort (Build_terr a b k).
Proof. exact core_algebra. Qed.

Example C12_example :
  map (obs_str ex_gir) (run_script ex_gir HNone
    [ODynNew 1; OHandle "back" None [] None; OHandle "go" (Some 1) [Build_ans ADefault 0; Build_ans (AAbort (AKAction "quota")) 0] None])
  = ["ok||c=|p=|n=0|D:A:0/-"; "err:IT(A,back)||c=|p=|n=0|D:A:0/-";
     "err:AF(quota,go)|ab.w1.A.0/-.1.-,ab.w2.A.0/-.1.-|c=|p=1|n=0|D:A:0/-"].
Proof. vm_compute. reflexivity. Qed.

Print Assumptions C12_guard_errors_carry_declared_names.
Print Assumptions C12_invalid_transition_names_current_state.
Print Assumptions C12_event_variants_and_methods_named_as_declared.
Print Assumptions C12_core_functions_and_macros_preserve_names.
