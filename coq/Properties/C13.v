(* C13 -- Ill-formed definitions are rejected at compile time, never reinterpreted.
   Statements only; proofs are in Lemmas/AcceptLemmas.v, FrontTop.v. *)
From Coq Require Import String List Bool Arith.
From SM Require Import Ident Ast Front Spec Gir Codegen Sem Dyn Script Static.
From SM.Lemmas Require Import FrontLemmas FrontTop GirLemmas AcceptLemmas Examples.
Import ListNotations.
Open Scope string_scope.
Open Scope list_scope.

(* Whatever the front end accepts satisfies every rule of the list (contrapositive: a definition
   violating a rule is refused with a diagnostic):
   required sections present; no unknown key at top level, inside a superstate block, an event or a
   transition; leaf and superstate names pairwise distinct (in every states section); every
   superstate has at least one leaf and its `initial:` names one of its own leaves; the initial state
   is a declared leaf, not a superstate; every event name is snake_case and has at least one
   transition; every transition has `from` and `to`, a non-empty source list, and only declared
   sources and target. *)
Theorem C13_accepted_definitions_are_well_formed :
  forall (d : defn) (m : machine), front d = Ok m -> WF d.
Proof. exact accepted_is_wf. Qed.

(* in the property's own words: a definition violating any rule of the list is refused with a diagnostic *)
Theorem C13_ill_formed_definitions_are_refused :
  forall d : defn, ~ WF d -> exists e, front d = Err e.
Proof. exact ill_formed_is_refused. Qed.

(* The remaining rule -- one event, two transitions applicable to the same leaf -- is enforced by
   rustc on the expansion: the two transitions become two methods of the same name on one type
   (E0592).  If the generated impls pass that check, every leaf has at most one edge per event. *)
Theorem C13_coherent_expansion_is_unambiguous :
  forall (d : defn) (m : machine) (items : list sitem) (ps : pstate) (feat : bool),
  front_facts d m items ps -> methods_coherent (codegen m feat) = true ->
  forall s ev, length (filter (fun e => String.eqb (g_event e) ev) (outgoing (m_graph m) s)) <= 1.
Proof. exact coherent_is_deterministic. Qed.

(* Never reinterpreted: for an accepted definition the graph all code is generated from is exactly
   the declared relation -- nothing dropped, nothing added *)
Theorem C13_accepted_means_what_it_says :
  forall (d : defn) (m : machine), front d = Ok m ->
  exists items, d_states d = Some items /\
    forall s e t,
      (exists edge, In (s, edge) (m_graph m) /\ g_event edge = e /\ g_target edge = t)
      <-> delta items (m_events m) s e t.
Proof.
  intros d m H. destruct (front_spec _ _ H) as (items & ps & F).
  exists items. split; [exact (ff_states _ _ _ _ F)|]. exact (graph_delta _ _ _ _ F).
Qed.

(* one rejected example per rule class *)
Example C13_rejects :
  map (accept_code false)
    [ [MInitial "A"; MStates [ILeaf "A" None]];                                         (* missing name *)
      [MName "M"; MInitial "A"; MStates [ILeaf "A" None]; MUnknown "frob"];            (* unknown key *)
      [MName "M"; MInitial "A"; MStates [ILeaf "A" None; ILeaf "A" None]];             (* duplicate leaf *)
      [MName "M"; MInitial "A"; MStates [ILeaf "A" None; ISuper "G" None [ILeaf "B" None]; ISuper "G" None [ILeaf "C" None]]];  (* duplicate superstate *)
      [MName "M"; MInitial "A"; MStates [ILeaf "A" None; ISuper "A" None [ILeaf "B" None]]];   (* superstate named like a leaf *)
      [MName "M"; MInitial "Z"; MStates [ILeaf "A" None]];                              (* initial undeclared *)
      [MName "M"; MInitial "G"; MStates [ISuper "G" None [ILeaf "A" None]]];            (* initial is a superstate *)
      [MName "M"; MInitial "A"; MStates [ILeaf "A" None; ISuper "G" None []]];          (* empty superstate *)
      [MName "M"; MInitial "A"; MStates [ILeaf "A" None; ISuper "G" None [ILeaf "B" None; IInitial "A"]]];  (* initial outside *)
      [MName "M"; MInitial "A"; MStates [ILeaf "A" None]; MEvents [Build_sevent "Go" [ETransition [TFrom ["A"]; TTo "A"]]]];  (* not snake_case *)
      [MName "M"; MInitial "A"; MStates [ILeaf "A" None]; MEvents [Build_sevent "go" []]];                       (* no transition *)
      [MName "M"; MInitial "A"; MStates [ILeaf "A" None]; MEvents [Build_sevent "go" [ETransition [TTo "A"]]]];   (* no from *)
      [MName "M"; MInitial "A"; MStates [ILeaf "A" None]; MEvents [Build_sevent "go" [ETransition [TFrom ["A"]]]]]; (* no to *)
      [MName "M"; MInitial "A"; MStates [ILeaf "A" None]; MEvents [Build_sevent "go" [ETransition [TFrom []; TTo "A"]]]];  (* empty from *)
      [MName "M"; MInitial "A"; MStates [ILeaf "A" None]; MEvents [Build_sevent "go" [ETransition [TFrom ["Z"]; TTo "A"]]]]; (* undeclared source *)
      [MName "M"; MInitial "A"; MStates [ILeaf "A" None]; MEvents [Build_sevent "go" [ETransition [TFrom ["A"]; TTo "Z"]]]]; (* undeclared target *)
      [MName "M"; MInitial "A"; MStates [ILeaf "A" None; ILeaf "B" None];
       MEvents [Build_sevent "go" [ETransition [TFrom ["A"]; TTo "B"]; ETransition [TFrom ["A"]; TTo "A"]]]] ]    (* ambiguous: 100 = rustc *)
  = [3; 1; 6; 6; 6; 12; 11; 7; 8; 13; 14; 9; 10; 15; 18; 17; 100].
Proof. vm_compute. reflexivity. Qed.

Example C13_accepts_example : accept_code false ex_defn = 0 /\ accept_code true ex_defn = 0.
Proof. vm_compute. split; reflexivity. Qed.

Print Assumptions C13_accepted_definitions_are_well_formed.
Print Assumptions C13_ill_formed_definitions_are_refused.
Print Assumptions C13_coherent_expansion_is_unambiguous.
Print Assumptions C13_accepted_means_what_it_says.
