(* C14 -- Every well-formed definition compiles in every supported configuration.
   Statements only; proofs are in Lemmas/WfAccepts.v, AcceptLemmas.v, NameLemmas.v.
   PARTIAL by nature: "compiles" includes rustc's type checking, borrow checking and trait solving of
   the emitted bodies, for which no formal semantics is available here; that part is decided by the K3
   compile corpus (both dynamic configurations, every option combination).  What is proved: the front
   end accepts exactly the well-formed definitions, when the dynamic API is generated, and the names
   of the generated items. *)
From Coq Require Import String List Bool Arith.
From SM Require Import Ident Ast Front Spec Gir Codegen Sem Dyn Script Static.
From SM.Lemmas Require Import FrontLemmas FrontTop GirLemmas AcceptLemmas WfAccepts NameLemmas IdentLemmas Examples.
Import ListNotations.
Open Scope string_scope.
Open Scope list_scope.

(* the front end (parser + validation) accepts a definition if and only if it satisfies the rule
   list WF: nothing well-formed is refused, nothing ill-formed gets through *)
Theorem C14_front_end_accepts_exactly_the_well_formed_definitions :
  forall d : defn, (exists m, front d = Ok m) <-> WF d.
Proof. exact front_accepts_iff_wf. Qed.

(* the dynamic API is generated if and only if it is requested by `dynamic: true` or the crate feature *)
Theorem C14_dynamic_api_iff_requested :
  forall (m : machine) (feat : bool),
  (exists gd, gr_dyn (codegen m feat) = Some gd) <-> m_dynamic m || feat = true.
Proof. exact dynamic_iff_requested. Qed.

(* generated item names: markers per state, <Name>, <Name>Event, Any<Name>State, Dynamic<Name>;
   methods to_snake_case(event) (= the event for a snake_case name); variants to_pascal_case(event);
   accessors <snake state>_data, _data_mut, set_<snake state>_data; into_<snake state> *)
Theorem C14_generated_item_names_follow_the_convention :
  forall (m : machine) (feat : bool),
  type_items (codegen m feat) =
    (m_states m ++ all_superstates (m_hier m)) ++ [m_name m]
    ++ (if m_dynamic m || feat then [m_name m +++ "Event"; "Any" +++ m_name m +++ "State"; "Dynamic" +++ m_name m] else [])
  /\ (forall e, gm_name (gen_method m e) = to_snake_case (g_event e))
  /\ gd_events (gen_dyn m) = map (fun ev => (to_pascal_case (e_name ev), e_name ev, e_payload ev)) (m_events m)
  /\ gd_into (gen_dyn m) = map (fun s => ("into_" +++ to_snake_case s, s)) (m_states m)
  /\ (forall a, In a (gen_accs m) -> exists sp, In sp (m_storage m) /\
        gc_read a = to_snake_case (ss_state sp) +++ "_data" /\
        gc_write a = to_snake_case (ss_state sp) +++ "_data_mut" /\
        gc_set a = "set_" +++ to_snake_case (ss_state sp) +++ "_data").
Proof. exact item_names_convention. Qed.

Theorem C14_snake_case_event_is_its_own_method_name :
  forall s, is_snake_case s = true -> to_snake_case s = s.
Proof. exact snake_id. Qed.

(* the name functions are not injective: the two collisions recorded as known findings *)
Example C14_name_collisions :
  to_pascal_case "a_1" = to_pascal_case "a1" /\ to_snake_case "HTTPServer" = to_snake_case "HttpServer".
Proof. vm_compute. split; reflexivity. Qed.

(* a raw identifier contributes its bare name to every derived name (fix a546ccd) *)
Example C14_raw_identifier_names :
  to_snake_case "r#loop" = "loop" /\ storage_field "r#loop" = "__state_data_loop" /\ to_snake_case "r#HTTPServer" = "http_server" /\
  to_snake_case "rr#a" = "rr#a".
Proof. vm_compute. repeat split; reflexivity. Qed.

(* identifiers with letters of the Latin-1 supplement: the name functions follow Unicode case mapping there
   (sharp s upper-cases to "SS"); anything beyond U+00FF is outside the model *)
Example C14_latin1_names :
  to_snake_case "ÉtatFinal" = "état_final" /\ to_snake_case "HTTPÉtat" = "http_état" /\
  to_pascal_case "prüfen_größe" = "PrüfenGröße" /\ to_pascal_case "ß_x" = "SSX" /\
  is_snake_case "démarrer" = true /\ is_snake_case "Écluse" = false /\ is_snake_case "a×b" = false.
Proof. vm_compute. repeat split; reflexivity. Qed.

Example C14_example : WF ex_defn.
Proof. apply (accepted_is_wf ex_defn ex_machine). exact ex_front. Qed.

Print Assumptions C14_front_end_accepts_exactly_the_well_formed_definitions.
Print Assumptions C14_dynamic_api_iff_requested.
Print Assumptions C14_generated_item_names_follow_the_convention.
Print Assumptions C14_snake_case_event_is_its_own_method_name.
