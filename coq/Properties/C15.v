(* C15 -- Async machines behave exactly like their sync counterparts.
   Statements only; proofs are in Lemmas/AsyncLemmas.v and Lemmas/BudgetLemmas.v.
   Assumed semantics of Rust (DESIGN.md 3.6, exercised by K2 on every run): `.await` polls the awaited
   future to completion before the next statement runs.  The `Send` clause is a fact about rustc's
   auto-trait inference on the generated futures and is decided by K3 probes, not by a theorem. *)
From Coq Require Import String List Bool Arith.
From SM Require Import Ident Ast Front Spec Gir Codegen Sem Dyn Script Static.
From SM.Lemmas Require Import SemLemmas RefSem SemProps AsyncLemmas BudgetLemmas Examples.
Import ListNotations.
Open Scope list_scope.

(* Same definition compiled with `async: true` and without: for every edge, input machine, payload,
   hook behaviour and number of suspensions per hook, the completed async method returns the same
   result and final machine as the sync method and calls the same hooks with the same views in the
   same order; the sync run is never pending, the async run is pending exactly as often as its hooks. *)
Theorem C15_async_equals_sync :
  forall (m : machine) (e : edge) (self : tmachine) (pl : option nat) (w : oracle),
  let ra := run_method (gen_method (set_async true m) e) self pl w None in
  let rs := run_method (gen_method (set_async false m) e) self pl w None in
  ro_res ra = ro_res rs /\
  map erase (ro_trace ra) = ro_trace rs /\
  ro_pend rs = 0 /\
  ro_pend ra = fold_right (fun c acc => c_susp c + acc) 0 (ro_trace ra).
Proof. exact async_equals_sync. Qed.

(* hooks are awaited one at a time: every hook but possibly the last (a panicking one) ran to
   completion before the next was called -- none is skipped, none overlaps *)
Theorem C15_hooks_awaited_one_at_a_time :
  forall (m : machine) (e : edge) (self : tmachine) (pl : option nat) (w : oracle),
  Forall (fun c => c_done c = true) (removelast (ro_trace (run_method (gen_method m e) self pl w None))).
Proof. exact hooks_run_one_at_a_time. Qed.

(* every hook call of every generated body, and the typed call in every handle() arm, carries
   `.await` exactly when the machine is async *)
Theorem C15_await_on_every_call :
  forall (m : machine) (e : edge),
  Forall (fun s => match s with
                   | SAroundBefore _ aw _ | SCond _ _ _ aw _ _ | SBefore _ _ aw | SAfter _ _ aw | SAroundAfter _ aw _ => aw = m_async m
                   | _ => True
                   end) (gen_body m e)
  /\ Forall (fun a => ga_aw a = m_async m) (gen_arms m)
  /\ gm_async (gen_method m e) = m_async m.
Proof. exact awaits_everywhere. Qed.

(* dropping the future at its b-th Pending either abandons the call -- and then the complete run
   would have been pending at least b times -- or changes nothing at all *)
Theorem C15_dropped_future_is_abandoned_or_identical :
  forall (gm : gmethod) (self : tmachine) (pl : option nat) (w : oracle) (b : nat),
  let rn := run_method gm self pl w None in
  let rb := run_method gm self pl w (Some b) in
  (ro_res rb = RAbandoned /\ gm_async gm = true /\ b <= ro_pend rn) \/ rb = rn.
Proof. exact run_method_budget. Qed.

Example C15_example :
  let w := oracle_of [Build_ans ADefault 2; Build_ans ADefault 0; Build_ans (ABool true) 1] in
  ro_pend (run_method (gen_method (set_async true ex_machine) ex_edge) ex_self (Some 1) w None) = 3 /\
  ro_res (run_method (gen_method (set_async true ex_machine) ex_edge) ex_self (Some 1) w (Some 2)) = RAbandoned /\
  ro_res (run_method (gen_method (set_async true ex_machine) ex_edge) ex_self (Some 1) w (Some 4))
  = ro_res (run_method (gen_method (set_async false ex_machine) ex_edge) ex_self (Some 1) w None).
Proof. vm_compute. repeat split. Qed.

Print Assumptions C15_async_equals_sync.
Print Assumptions C15_hooks_awaited_one_at_a_time.
Print Assumptions C15_await_on_every_call.
Print Assumptions C15_dropped_future_is_abandoned_or_identical.
