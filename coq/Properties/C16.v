(* C16 -- Context and payload are moved, never duplicated or lost.
   Statements only; proofs are in Lemmas/CtxLemmas.v. *)
From Coq Require Import String List Bool Arith.
From SM Require Import Ident Ast Front Spec Gir Codegen Sem Dyn Script Static.
From SM.Lemmas Require Import SemLemmas RefSem CasesLemmas CtxLemmas Examples.
Import ListNotations.
Open Scope list_scope.

(* every hook invocation of every run (successful, refused or panicking) is handed the machine's own
   context and, if it takes a payload, the value the caller supplied *)
Theorem C16_hooks_see_the_machines_context_and_the_callers_payload :
  forall (m : machine) (e : edge) (self : tmachine) (pl : option nat) (w : oracle),
  Forall (fun c => c_ctx c = tm_ctx self /\ (c_pl c = None \/ c_pl c = eff_pl e pl))
         (ro_trace (run_method (gen_method m e) self pl w None)).
Proof. exact hooks_see_own_context. Qed.

(* the machine returned by a transition, Ok or Err, carries the context that went in (any budget) *)
Theorem C16_transition_carries_the_context :
  forall (m : machine) (e : edge) (self : tmachine) (pl : option nat) (w : oracle) (b : option nat),
  match ro_res (run_method (gen_method m e) self pl w b) with
  | ROk nm => tm_ctx nm = tm_ctx self
  | RErr old _ => tm_ctx old = tm_ctx self
  | _ => True
  end.
Proof. exact result_carries_context. Qed.

(* along histories: an operation other than a constructor either keeps the holder's context and
   reports no drop, or leaves the holder without a context and reports exactly that context dropped
   (the explicit drop, a panic, an abandoned call).  So the context given to new() is the one carried
   after any number of transitions, refusals and conversions, and it is dropped exactly once. *)
Theorem C16_context_conserved_by_every_operation :
  forall (m : machine) (feat : bool) (h : holder) (o : op),
  is_ctor o = false ->
  let ob := step (codegen m feat) h o in
  (holder_ctx (o_holder ob) = holder_ctx h /\ o_cdrops ob = []) \/
  (holder_ctx (o_holder ob) = [] /\ o_cdrops ob = holder_ctx h).
Proof. exact context_conserved. Qed.

(* Over a whole history: the context a holder carries is, at the end, either still carried or has been
   dropped -- exactly once, never twice, never silently lost (constructors aside, which bring a new
   context in) *)
Fixpoint final_holder (g : gir) (h : holder) (ops : list op) : holder :=
  match ops with [] => h | o :: r => final_holder g (o_holder (step g h o)) r end.

Theorem C16_context_dropped_exactly_once_over_a_history :
  forall (m : machine) (feat : bool) (ops : list op) (h : holder),
  forallb (fun o => negb (is_ctor o)) ops = true ->
  concat (map o_cdrops (run_script (codegen m feat) h ops)) ++ holder_ctx (final_holder (codegen m feat) h ops)
  = holder_ctx h.
Proof.
  intros m feat ops. induction ops as [|o r IH]; intros h Hc.
  - reflexivity.
  - cbn [forallb] in Hc. apply andb_prop in Hc as [Ho Hr]. apply negb_true_iff in Ho.
    cbn [run_script map concat final_holder].
    destruct (context_conserved m feat h o Ho) as [[Hk Hd]|[Hk Hd]]; rewrite Hd.
    + cbn [app]. rewrite (IH _ Hr). exact Hk.
    + rewrite <- app_assoc, (IH _ Hr), Hk. apply app_nil_r.
Qed.

Example C16_example :
  map (obs_str ex_gir) (run_script ex_gir HNone
     [ODynNew 7; OHandle "go" (Some 1) [Build_ans (AAbort AKInvalid) 0] None; OHandle "go" (Some 2) [] None; OInto "D2"; ODrop])
  = ["ok||c=|p=|n=0|D:A:0/-"; "err:IT(A,go)|ab.w1.A.0/-.7.-|c=|p=1|n=0|D:A:0/-";
     "ok|ab.w1.A.0/-.7.-,ab.w2.A.0/-.7.-,g.g1.A.0/-.7.2,g.g2.A.0/-.7.2,u.u1.A.0/-.7.2,b.b1.A.0/-.7.2,a.a1.D2.-/0.7.2,aa.w1.D2.-/0.7.-,aa.w2.D2.-/0.7.-|c=|p=2|n=0|D:D2:-/0";
     "conv:ok||c=|p=|n=0|T:D2:-/0:0"; "ok||c=7|p=|n=0|N"]%string.
Proof. vm_compute. reflexivity. Qed.

Print Assumptions C16_hooks_see_the_machines_context_and_the_callers_payload.
Print Assumptions C16_transition_carries_the_context.
Print Assumptions C16_context_conserved_by_every_operation.
Print Assumptions C16_context_dropped_exactly_once_over_a_history.
