(* C17 -- Generated code keeps the zero-cost, no_std footprint.
   Statements only; proofs are in Lemmas/NameLemmas.v.
   PARTIAL by nature: that the expansion compiles under #![no_std] without alloc, that markers are
   zero-sized and satisfy MachineState, and the actual size_of a machine are facts about rustc; they
   are decided by the K3 no_std batch (const assertions and bound probes on every corpus machine).
   The theorems cover what the generator emits: which marker items exist and which fields the machine
   struct has. *)
From Coq Require Import String List Bool Arith.
From SM Require Import Ident Ast Front Spec Gir Codegen Sem Dyn Script Static.
From SM.Lemmas Require Import FrontLemmas FrontTop GirLemmas NameLemmas Examples.
Import ListNotations.
Open Scope list_scope.

(* one unit-struct marker per leaf and per superstate, and nothing else *)
Theorem C17_markers_are_exactly_leaves_and_superstates :
  forall (d : defn) (m : machine) (items : list sitem) (ps : pstate) (feat : bool),
  front_facts d m items ps ->
  forall x, In x (gr_markers (codegen m feat)) <-> (In x (leaves_of items) \/ In x (supers_of items)).
Proof. exact markers_are_leaves_and_superstates. Qed.

(* the machine struct is { ctx, _state: PhantomData<S> } plus one Option<T> per data state: a machine
   without state data has the context as its only sized field (for any size of Option<T>) *)
Theorem C17_machine_without_data_is_its_context :
  forall (d : defn) (m : machine) (items : list sitem) (ps : pstate) (feat : bool) (ctx_size : nat) (opt_size : ty -> nat),
  front_facts d m items ps ->
  (gr_fields (codegen m feat) = [] <-> data_of items = []) /\
  (data_of items = [] -> machine_size ctx_size opt_size (codegen m feat) = ctx_size).
Proof. intros d m items ps feat cs os F. exact (no_data_machine_is_its_context d m items ps feat cs os F). Qed.

Example C17_example :
  gr_markers ex_gir = ["A"; "B"; "C"; "D2"; "G"; "H"]%string \/ gr_markers ex_gir = ["A"; "B"; "C"; "D2"; "H"; "G"]%string.
Proof. vm_compute. auto. Qed.

Print Assumptions C17_markers_are_exactly_leaves_and_superstates.
Print Assumptions C17_machine_without_data_is_its_context.
