(* C18 -- Behaviour does not depend on the identifiers chosen.
   Statements only.  PARTIAL: which shadowings rustc rejects, and that a renamed definition that
   compiles behaves like its twin, are decided by the K3 renaming batch (every role x an adversarial
   identifier pool: compile, then compare the compiled machine with the model of the renamed
   definition).  What is proved: the model's run-time semantics consults identifiers only through
   equality, the hygiene predicate characterises the captures by the generated type parameters, and the
   property is refuted on the current tree for that class (known finding F4).  The two naturality
   theorems say it for whole generated programs: relabelling every identifier of a generated program,
   of the machine value it runs on and of the names carried by the hooks' aborts relabels the outcome
   (results, errors, traces, states, data fields) and changes nothing else -- for a method run under
   any relabelling, for dispatch through the dynamic wrapper under any injective one that fixes the two
   literals of the generated code that are not identifiers. *)
From Coq Require Import String List Bool Arith.
From SM Require Import Ident Ast Front Spec Gir Codegen Sem Dyn Script Static.
From SM.Lemmas Require Import FrontLemmas FrontTop GirLemmas SemLemmas RefSem SemProps HookTheorems Examples RenameLemmas FrontRename CodegenRename.
Import ListNotations.
Open Scope string_scope.
Open Scope list_scope.

(* hook names are labels: renaming the hooks of an edge (any function on names, even a non-injective
   one) changes the run of its method only by relabelling the calls of the trace; which hooks block,
   the result kind and the resulting machine depend on the answers alone *)
Definition rename_edge_hooks (f : ident -> ident) (e : edge) : edge :=
  Build_edge (g_target e) (g_event e)
             (Build_hooks (map f (h_guards (g_hooks e))) (map f (h_unless (g_hooks e))) (map f (h_before (g_hooks e)))
                          (map f (h_after (g_hooks e))) (map f (h_around (g_hooks e))))
             (g_payload e).

Theorem C18_success_does_not_depend_on_hook_names :
  forall (f : ident -> ident) (m : machine) (e : edge) (self : tmachine) (pl : option nat) (w : oracle),
  (exists t, ro_res (run_method (gen_method m e) self pl w None) = ROk t)
  <-> (exists t, ro_res (run_method (gen_method m (rename_edge_hooks f e)) self pl w None) = ROk t).
Proof.
  intros f m e self pl w. rewrite !ok_iff_all_pass. cbn [rename_edge_hooks g_event g_hooks].
  assert (G : forall hs i, all_pass (g_event e) w self (map (fun h => (fst h, f (snd h))) hs) i = all_pass (g_event e) w self hs i).
  { induction hs as [|[k n] hs IH]; intros i; [reflexivity|]. cbn [map all_pass fst snd]. rewrite IH. f_equal.
    unfold passb. f_equal. destruct (an_val (w i)) as [|b|kd|]; destruct k; cbn; try reflexivity;
      try (destruct b; reflexivity); destruct kd; reflexivity. }
  rewrite <- (G (hooks_of (g_hooks e)) 0). unfold hooks_of. cbn [h_around h_guards h_unless h_before h_after].
  rewrite !map_app, !map_map. cbn [fst snd]. reflexivity.
Qed.

(* a run of a generated method never compares identifiers: they are labels (one relabelling per
   namespace: states, events, hooks, variants, methods, fields, accessors -- RenameLemmas.roles) *)
Theorem C18_method_run_is_natural_in_identifiers :
  forall (R : roles) (gm : gmethod) (self : tmachine) (pl : option nat) (w : oracle) (b : option nat),
  run_method (rn_method R gm) (rn_tm R self) pl (rn_oracle R w) b = rn_out R (run_method gm self pl w b).
Proof. exact run_method_rn. Qed.

(* the dynamic wrapper compares states, event names, variants, method names and fields, each within
   its namespace and only for equality *)
Theorem C18_dispatch_is_natural_in_identifiers :
  forall (R : roles),
  injective (r_st R) -> injective (r_ev R) -> injective (r_var R) -> injective (r_mth R) -> injective (r_fld R) ->
  r_st R "" = "" -> r_st R "<extracted>" = "<extracted>" ->
  forall (g : gir) (gd : gdyn) (d : dyn),
  (forall ctx, dyn_new (rn_gir R g) (rn_gdyn R gd) ctx = option_map (rn_dyn R) (dyn_new g gd ctx)) /\
  (forall ev pl w b,
     handle (rn_gir R g) (rn_gdyn R gd) (rn_dyn R d) (r_ev R ev) pl (rn_oracle R w) b
     = rn_hout R (handle g gd d ev pl w b)) /\
  current_state (rn_gdyn R gd) (rn_dyn R d) = option_map (r_st R) (current_state gd d) /\
  (forall v, into_state (r_st R v) (rn_dyn R d)
             = match into_state v d with inl tm => inl (rn_tm R tm) | inr d' => inr (rn_dyn R d') end) /\
  (forall a, acc_read (rn_acc R a) (rn_dyn R d) = acc_read a d) /\
  (forall a v, acc_write (rn_acc R a) (rn_dyn R d) v = (rn_dyn R (fst (acc_write a d v)), snd (acc_write a d v))) /\
  (forall a v, acc_set (rn_gdyn R gd) (rn_acc R a) (rn_dyn R d) v
               = (rn_dyn R (fst (acc_set gd a d v)), option_map (rn_derr R) (snd (acc_set gd a d v)))).
Proof.
  intros R Hs He Hv Hm Hf H0 Hx g gd d.
  split; [intros ctx; apply dyn_new_rn; assumption|].
  split; [intros ev pl w b; apply handle_rn; assumption|].
  split; [apply current_state_rn; assumption|].
  split; [intros v; apply into_state_rn; assumption|].
  split; [intros a; apply acc_read_rn; assumption|].
  split; [intros a v; apply acc_write_rn; assumption|].
  intros a v; apply acc_set_rn; assumption.
Qed.

(* the front end (parser, hierarchy, transition graph, validation) compares identifiers only for
   equality and looks at the spelling of a name only to decide whether an event is snake_case:
   renaming a definition by an injective function that respects that decision yields the same verdict
   -- the same diagnostic, or the renamed machine IR (FrontRename.rn_machine; the data fields are
   re-derived from the new state names) *)
Theorem C18_front_end_is_natural_in_identifiers :
  forall (f : ident -> ident),
  injective f -> (forall x, is_snake_case (f x) = is_snake_case x) ->
  forall d : defn, front (rn_defn f d) = rn_result (rn_machine f) (front d).
Proof. exact front_rn. Qed.

(* the code generator: the generated program of the renamed machine is the relabelled generated program,
   where the derived namespaces (methods, variants, data fields, accessors) are relabelled by any functions
   that send each old derived name to the re-derived one (CodegenRename.compat) *)
Theorem C18_renamed_definition_is_the_relabelled_twin :
  forall (f mth var fld acc : ident -> ident) (d : defn) (m : machine) (feat : bool),
  injective f -> (forall x, is_snake_case (f x) = is_snake_case x) ->
  front d = Ok m -> compat f mth var fld acc m ->
  front (rn_defn f d) = Ok (rn_machine f m) /\
  codegen (rn_machine f m) feat = rn_gir (R f mth var fld acc) (codegen m feat) /\
  gen_dyn (rn_machine f m) = rn_gdyn (R f mth var fld acc) (gen_dyn m).
Proof.
  intros f mth var fld acc d m feat Hi Hs Hf Hc. split; [|split].
  - rewrite (front_rn f Hi Hs d), Hf. reflexivity.
  - apply codegen_rn; assumption.
  - apply gen_dyn_rn; assumption.
Qed.

(* ... and, when those functions are injective too, it behaves exactly like its twin: every dynamic
   dispatch, every typed method lookup and run, construction, conversion and data access of the renamed
   machine is the relabelled image of the same operation on the original machine *)
Theorem C18_renamed_definition_behaves_like_its_twin :
  forall (f mth var fld acc : ident -> ident) (d : defn) (m : machine) (feat : bool),
  injective f -> (forall x, is_snake_case (f x) = is_snake_case x) -> f "" = "" -> f "<extracted>" = "<extracted>" ->
  injective mth -> injective var -> injective fld ->
  front d = Ok m -> compat f mth var fld acc m ->
  let Rr := R f mth var fld acc in
  let m' := rn_machine f m in
  front (rn_defn f d) = Ok m' /\
  (forall dd ev pl w b,
     handle (codegen m' feat) (gen_dyn m') (rn_dyn Rr dd) (f ev) pl (rn_oracle Rr w) b
     = rn_hout Rr (handle (codegen m feat) (gen_dyn m) dd ev pl w b)) /\
  (forall s n, methods_of (codegen m' feat) (f s) (mth n) = map (rn_method Rr) (methods_of (codegen m feat) s n)) /\
  (forall gm self pl w b,
     run_method (rn_method Rr gm) (rn_tm Rr self) pl (rn_oracle Rr w) b = rn_out Rr (run_method gm self pl w b)) /\
  (forall s ctx, typed_new (codegen m' feat) (f s) ctx = option_map (rn_tm Rr) (typed_new (codegen m feat) s ctx)) /\
  (forall ctx, dyn_new (codegen m' feat) (gen_dyn m') ctx = option_map (rn_dyn Rr) (dyn_new (codegen m feat) (gen_dyn m) ctx)) /\
  (forall dd, current_state (gen_dyn m') (rn_dyn Rr dd) = option_map f (current_state (gen_dyn m) dd)) /\
  (forall dd v, into_state (f v) (rn_dyn Rr dd)
                = match into_state v dd with inl tm => inl (rn_tm Rr tm) | inr d' => inr (rn_dyn Rr d') end) /\
  (forall a dd, In a (gen_accs m) -> In (rn_acc Rr a) (gen_accs m') /\ acc_read (rn_acc Rr a) (rn_dyn Rr dd) = acc_read a dd).
Proof.
  intros f mth var fld acc d m feat Hi Hs H0 Hx Hm Hv Hf Hfr Hc Rr m'.
  destruct (C18_renamed_definition_is_the_relabelled_twin f mth var fld acc d m feat Hi Hs Hfr Hc) as (F & G & D).
  fold m' in F, G, D. fold Rr in G, D. rewrite G, D.
  split; [exact F|].
  split; [intros dd ev pl w b; apply (handle_rn Rr); assumption|].
  split; [intros s n; apply (methods_of_rn Rr); assumption|].
  split; [intros gm self pl w b; apply run_method_rn|].
  split; [intros s ctx; apply (typed_new_rn Rr); assumption|].
  split; [intros ctx; apply (dyn_new_rn Rr); assumption|].
  split; [intros dd; apply (current_state_rn Rr); assumption|].
  split; [intros dd v; apply (into_state_rn Rr); assumption|].
  intros a dd Ha. split.
  - unfold m'. rewrite (gen_accs_rn f mth var fld acc Hi m Hc). apply in_map. exact Ha.
  - apply (acc_read_rn Rr); assumption.
Qed.

(* the hypotheses are satisfiable by relabellings that move identifiers *)
Definition sw : ident -> ident := swap2 "A" "B" "go" "back".
Lemma sw_involutive x : sw (sw x) = x.
Proof.
  unfold sw, swap2.
  destruct (String.eqb_spec x "A") as [->|N1]; [reflexivity|].
  destruct (String.eqb_spec x "B") as [->|N2]; [reflexivity|].
  destruct (String.eqb_spec x "go") as [->|N3]; [reflexivity|].
  destruct (String.eqb_spec x "back") as [->|N4]; [reflexivity|].
  apply String.eqb_neq in N1, N2, N3, N4. rewrite N1, N2, N3, N4. reflexivity.
Qed.
Example C18_relabelling_exists :
  injective prefix_z /\ prefix_z "" = "" /\ prefix_z "<extracted>" = "<extracted>" /\ prefix_z "Idle" = "zIdle" /\
  injective sw /\ (forall x, is_snake_case (sw x) = is_snake_case x) /\ sw "A" = "B" /\ sw "go" = "back".
Proof.
  split; [exact prefix_z_inj|]. do 3 (split; [reflexivity|]).
  split; [intros a b H; rewrite <- (sw_involutive a), H; apply sw_involutive|].
  split; [|split; reflexivity].
  intros x. unfold sw, swap2.
  destruct (String.eqb_spec x "A") as [->|_]; [reflexivity|].
  destruct (String.eqb_spec x "B") as [->|_]; [reflexivity|].
  destruct (String.eqb_spec x "go") as [->|_]; [reflexivity|].
  destruct (String.eqb_spec x "back") as [->|_]; reflexivity.
Qed.

(* ... and on the example program the relabelled dispatch is a real run: nine hook calls, Ok, and
   the relabelled target state; the renamed example definition is accepted as the renamed machine *)
Example C18_relabelled_run :
  let R := uniform prefix_z in
  let o := handle (rn_gir R ex_gir) (rn_gdyn R ex_gdyn) (rn_dyn R (Build_dyn (Some ex_self)))
                  (prefix_z "go") (Some 3) (fun _ => Build_ans ADefault 0) None in
  ho_res o = HOk /\ length (ho_trace o) = 9 /\ current_state (rn_gdyn R ex_gdyn) (ho_dyn o) = Some "zD2" /\
  current_state ex_gdyn (ho_dyn (handle ex_gir ex_gdyn (Build_dyn (Some ex_self)) "go" (Some 3)
                                        (fun _ => Build_ans ADefault 0) None)) = Some "D2" /\
  match front (rn_defn sw ex_defn) with Ok m => m_initial m = "B" /\ In "back" (map e_name (m_events m)) | Err _ => False end.
Proof. vm_compute. repeat split; try reflexivity. left; reflexivity. Qed.

(* the hypotheses of the twin theorems are met by a renaming of the example definition that swaps the
   states A and B and the events go and back, with the derived namespaces permuted accordingly *)
Definition ex_f := swaps [("A", "B"); ("go", "back")].
Definition ex_mth := swaps [("go", "back")].
Definition ex_var := swaps [("Go", "Back")].
Definition ex_fld := swaps [("__state_data_a", "__state_data_b")].
Definition ex_acc := swaps [("state_data_a", "state_data_b"); ("state_data_a_mut", "state_data_b_mut");
                            ("a_data", "b_data"); ("a_data_mut", "b_data_mut"); ("set_a_data", "set_b_data");
                            ("into_a", "into_b")].
Ltac nodup_strings := repeat (apply NoDup_cons; [cbn; intuition discriminate|]); apply NoDup_nil.
Example C18_twin_hypotheses_are_satisfiable :
  injective ex_f /\ (forall x, is_snake_case (ex_f x) = is_snake_case x) /\ ex_f "" = "" /\ ex_f "<extracted>" = "<extracted>" /\
  injective ex_mth /\ injective ex_var /\ injective ex_fld /\
  front ex_defn = Ok ex_machine /\ compat ex_f ex_mth ex_var ex_fld ex_acc ex_machine /\
  m_initial (rn_machine ex_f ex_machine) = "B".
Proof.
  split; [apply swaps_injective; nodup_strings|].
  split; [apply swaps_snake; repeat constructor|].
  do 2 (split; [reflexivity|]).
  do 3 (split; [apply swaps_injective; nodup_strings|]).
  split; [exact ex_front|]. split; [|reflexivity].
  unfold compat. split; [|split; [|split]].
  - intros ev H. cbn in H. repeat (destruct H as [<-|H]; [split; reflexivity|]). elim H.
  - intros s e H. cbn in H. repeat (destruct H as [E|H]; [inversion E; subst; reflexivity|]). elim H.
  - intros sp H. cbn in H. repeat (destruct H as [<-|H]; [repeat split; reflexivity|]). elim H.
  - intros s H. cbn in H. repeat (destruct H as [<-|H]; [reflexivity|]). elim H.
Qed.

(* the property fails on the current tree for identifiers equal to a generated type parameter: this
   accepted definition names a state `C`, which the header `impl<C> M<C, C>` resolves to the parameter
   (rustc compiles it with different types -- the K3 capture probe; known finding F4) *)
Definition capture_witness : defn :=
  [MName "M"; MInitial "C"; MStates [ILeaf "C" None; ILeaf "B" None];
   MEvents [Build_sevent "go" [ETransition [TFrom ["C"]; TTo "B"]]]].

Definition capture_machine : machine :=
  Eval vm_compute in match front capture_witness with Ok m => m | Err _ => ex_machine end.

Theorem C18_refuted_by_generic_parameter_capture :
  front capture_witness = Ok capture_machine /\ hygienic capture_machine = false /\
  gir_ok (codegen capture_machine false) = true.
Proof. split; [vm_compute; reflexivity|split; vm_compute; reflexivity]. Qed.

(* definitions that avoid the two parameter names in the captured positions are hygienic *)
Theorem C18_hygienic_characterisation :
  forall m, hygienic m = true <->
  captured_names m = [].
Proof. intros m. unfold hygienic. destruct (captured_names m); split; intros H; try reflexivity; discriminate. Qed.

(* the same definition with the state called `A` is hygienic; the example machine of Examples.v, which
   has a leaf called `C` under a generic context, is not *)
Example C18_example_hygienic :
  match front [MName "M"; MInitial "A"; MStates [ILeaf "A" None; ILeaf "B" None];
               MEvents [Build_sevent "go" [ETransition [TFrom ["A"]; TTo "B"]]]] with
  | Ok m => hygienic m
  | Err _ => false
  end = true /\ hygienic ex_machine = false.
Proof. split; vm_compute; reflexivity. Qed.

Print Assumptions C18_success_does_not_depend_on_hook_names.
Print Assumptions C18_method_run_is_natural_in_identifiers.
Print Assumptions C18_dispatch_is_natural_in_identifiers.
Print Assumptions C18_front_end_is_natural_in_identifiers.
Print Assumptions C18_renamed_definition_is_the_relabelled_twin.
Print Assumptions C18_renamed_definition_behaves_like_its_twin.
Print Assumptions C18_refuted_by_generic_parameter_capture.
Print Assumptions C18_hygienic_characterisation.
