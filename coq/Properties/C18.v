(* C18 -- Behaviour does not depend on the identifiers chosen.
   Statements only.  PARTIAL: which shadowings rustc rejects, and that a renamed definition that
   compiles behaves like its twin, are decided by the K3 renaming batch (every role x an adversarial
   identifier pool: compile, then compare the compiled machine with the model of the renamed
   definition).  What is proved: the model's run-time semantics consults identifiers only through
   equality, the hygiene predicate characterises the captures by the generated type parameters, and the
   property is refuted on the current tree for that class (known finding F4). *)
From Coq Require Import String List Bool Arith.
From SM Require Import Ident Ast Front Spec Gir Codegen Sem Dyn Script Static.
From SM.Lemmas Require Import FrontLemmas FrontTop GirLemmas SemLemmas RefSem SemProps HookTheorems Examples.
Import ListNotations.
Open Scope string_scope.
Open Scope list_scope.

(* hook names are labels: renaming the hooks of an edge (any function on names, even a non-injective
   one) changes the run of its method only by relabelling the calls of the trace; which hooks block,
   the result kind and the resulting machine depend on the answers alone *)
Definition rename_edge_hooks (f : ident -> ident) (e : edge) : edge :=
  Build_edge (g_target e) (g_event e)
             (Build_hooks (map f (h_guards (g_hooks e))) (map f (h_unless (g_hooks e))) (map f (h_before (g_hooks e)))
                          (map f (h_after (g_hooks e))) (map f (h_around (g_hooks e))))
             (g_payload e).

Theorem C18_success_does_not_depend_on_hook_names :
  forall (f : ident -> ident) (m : machine) (e : edge) (self : tmachine) (pl : option nat) (w : oracle),
  (exists t, ro_res (run_method (gen_method m e) self pl w None) = ROk t)
  <-> (exists t, ro_res (run_method (gen_method m (rename_edge_hooks f e)) self pl w None) = ROk t).
Proof.
  intros f m e self pl w. rewrite !ok_iff_all_pass. cbn [rename_edge_hooks g_event g_hooks].
  assert (G : forall hs i, all_pass (g_event e) w self (map (fun h => (fst h, f (snd h))) hs) i = all_pass (g_event e) w self hs i).
  { induction hs as [|[k n] hs IH]; intros i; [reflexivity|]. cbn [map all_pass fst snd]. rewrite IH. f_equal.
    unfold passb. f_equal. destruct (an_val (w i)) as [|b|kd|]; destruct k; cbn; try reflexivity;
      try (destruct b; reflexivity); destruct kd; reflexivity. }
  rewrite <- (G (hooks_of (g_hooks e)) 0). unfold hooks_of. cbn [h_around h_guards h_unless h_before h_after].
  rewrite !map_app, !map_map. cbn [fst snd]. reflexivity.
Qed.

(* the property fails on the current tree for identifiers equal to a generated type parameter: this
   accepted definition names a state `C`, which the header `impl<C> M<C, C>` resolves to the parameter
   (rustc compiles it with different types -- the K3 capture probe; known finding F4) *)
Definition capture_witness : defn :=
  [MName "M"; MInitial "C"; MStates [ILeaf "C" None; ILeaf "B" None];
   MEvents [Build_sevent "go" [ETransition [TFrom ["C"]; TTo "B"]]]].

Definition capture_machine : machine :=
  Eval vm_compute in match front capture_witness with Ok m => m | Err _ => ex_machine end.

Theorem C18_refuted_by_generic_parameter_capture :
  front capture_witness = Ok capture_machine /\ hygienic capture_machine = false /\
  gir_ok (codegen capture_machine false) = true.
Proof. split; [vm_compute; reflexivity|split; vm_compute; reflexivity]. Qed.

(* definitions that avoid the two parameter names in the captured positions are hygienic *)
Theorem C18_hygienic_characterisation :
  forall m, hygienic m = true <->
  captured_names m = [].
Proof. intros m. unfold hygienic. destruct (captured_names m); split; intros H; try reflexivity; discriminate. Qed.

(* the same definition with the state called `A` is hygienic; the example machine of Examples.v, which
   has a leaf called `C` under a generic context, is not *)
Example C18_example_hygienic :
  match front [MName "M"; MInitial "A"; MStates [ILeaf "A" None; ILeaf "B" None];
               MEvents [Build_sevent "go" [ETransition [TFrom ["A"]; TTo "B"]]]] with
  | Ok m => hygienic m
  | Err _ => false
  end = true /\ hygienic ex_machine = false.
Proof. split; vm_compute; reflexivity. Qed.

Print Assumptions C18_success_does_not_depend_on_hook_names.
Print Assumptions C18_refuted_by_generic_parameter_capture.
Print Assumptions C18_hygienic_characterisation.
