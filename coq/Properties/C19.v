(* C19 -- Abandoned dispatch is fail-stop; completed dispatch never poisons.
   Statements only; proofs are in Lemmas/DynTheorems.v. *)
From Coq Require Import String List Bool Arith.
From SM Require Import Ident Ast Front Spec Gir Codegen Sem Dyn Script Static.
From SM.Lemmas Require Import FrontLemmas FrontTop DynLemmas DynTheorems BudgetLemmas Examples.
Import ListNotations.
Open Scope string_scope.
Open Scope list_scope.

(* Every outcome of handle(), for every generated program, wrapper, event, payload, hook behaviour
   and abandonment budget (None = polled to completion; Some n = future dropped at its n-th Pending):
   a call that returns (Ok / Err) leaves a machine in the wrapper; a call abandoned by a panicking
   hook, by an AfterSuccess abort or by dropping the future leaves the wrapper empty ("poisoned");
   calling handle() on a poisoned wrapper panics before any hook runs and changes nothing. *)
Theorem C19_outcomes_of_handle :
  forall (g : gir) (gd : gdyn) (d : dyn) (ev : ident) (pl : option nat) (w : oracle) (b : option nat),
  let ho := handle g gd d ev pl w b in
  match ho_res ho with
  | HOk => exists nm, ho_dyn ho = Build_dyn (Some nm)
  | HErr _ => exists old, ho_dyn ho = Build_dyn (Some old)
  | HPanicHook _ | HPanicAfter _ _ | HAbandoned => ho_dyn ho = poisoned /\ d_inner d <> None
  | HPanicInvalid => ho_dyn ho = d /\ d_inner d = None /\ ho_trace ho = []
  | HStuck => True
  end.
Proof. exact handle_outcomes. Qed.

(* After abandonment every public operation reports the machine as unavailable: handle and
   current_state panic, the accessors return None, the setter returns WrongState(.., "<extracted>", ..),
   every into_<s>() hands the wrapper back; none runs a hook, names a state or yields a typed machine. *)
Theorem C19_poisoned_wrapper_is_unavailable :
  forall (g : gir) (gd : gdyn) (ev : ident) (pl : option nat) (w : oracle) (b : option nat)
         (a : gacc) (v : nat) (s : ident),
  handle g gd poisoned ev pl w b = Build_handle_out poisoned [] 0 HPanicInvalid /\
  current_state gd poisoned = None /\
  acc_read a poisoned = None /\
  acc_write a poisoned v = (poisoned, false) /\
  acc_set gd a poisoned v = (poisoned, Some (DWrongState (gc_state a) "<extracted>" (gc_set a))) /\
  into_state s poisoned = inr poisoned.
Proof. exact poisoned_ops. Qed.

(* the async future of handle() dropped at its b-th Pending, for every b: the wrapper is poisoned, or
   the call had already completed and everything is exactly as in the complete run *)
Theorem C19_dropped_handle_future_poisons_or_is_the_complete_call :
  forall (g : gir) (gd : gdyn) (d : dyn) (ev : ident) (pl : option nat) (w : oracle) (b : nat),
  let hn := handle g gd d ev pl w None in
  let hb := handle g gd d ev pl w (Some b) in
  (ho_res hb = HAbandoned /\ ho_dyn hb = Build_dyn None /\ d_inner d <> None) \/ hb = hn.
Proof. exact handle_budget. Qed.

(* completed calls keep the wrapper in a declared leaf (with C01): accepted definitions only *)
Theorem C19_completed_dispatch_stays_in_a_declared_state :
  forall (d : defn) (m : machine) (items : list sitem) (ps : pstate) (feat : bool),
  front_facts d m items ps -> variants_distinct m -> graph_deterministic m ->
  forall (tm : tmachine) (ev : event) (pl : option nat) (w : oracle),
  In (tm_state tm) (leaves_of items) -> In ev (m_events m) ->
  let ho := handle (codegen m feat) (gen_dyn m) (Build_dyn (Some tm)) (e_name ev) pl w None in
  (ho_res ho = HOk -> exists tm', ho_dyn ho = Build_dyn (Some tm') /\ In (tm_state tm') (leaves_of items)) /\
  (forall x, ho_res ho = HErr x -> ho_dyn ho = Build_dyn (Some tm)).
Proof.
  intros d m items ps feat F V Dt tm ev pl w Hs Hev ho.
  destruct (handle_follows_delta d m items ps feat F V Dt tm ev pl w Hs Hev) as (Hok & Herr & _).
  split; [|exact Herr]. intros H. destruct (Hok H) as (tm' & E & _ & Hl & _). exists tm'. split; assumption.
Qed.

(* non-vacuity: a hook of the example machine panics / its future is dropped while pending *)
Example C19_example_panic :
  let ho := handle ex_gir ex_gdyn (Build_dyn (Some ex_self)) "go" (Some 3)
                   (oracle_of [Build_ans ADefault 0; Build_ans ADefault 0; Build_ans APanic 0]) None in
  ho_res ho = HPanicHook "g1" /\ ho_dyn ho = poisoned /\ length (ho_trace ho) = 3.
Proof. vm_compute. repeat split. Qed.

(* The degenerate abandonment: the future of a call is created and dropped without a single poll.  An
   `async fn` body starts at its first poll, so nothing has happened: no hook ran, the dynamic wrapper
   (only borrowed by handle) is exactly as it was, and a typed machine (moved into its future) is gone
   together with its context -- it is never handed back in some other state. *)
Theorem C19_future_dropped_before_its_first_poll_has_no_effect :
  forall (m : machine) (feat : bool) (h : holder) (e : ident) (pl : option nat),
  let ob := step (codegen m feat) h (OUnpolled e pl) in
  o_trace ob = [] /\ o_pend ob = 0 /\
  (forall d, h = HD d -> o_holder ob = h /\ o_cdrops ob = []) /\
  (forall tm, h = HT tm -> (o_holder ob = h /\ o_cdrops ob = []) \/
                           (o_res ob = ORabandoned /\ o_holder ob = HNone /\ o_cdrops ob = [tm_ctx tm])).
Proof.
  intros m feat h e pl. unfold step. destruct h as [|tm|d]; cbn [step_core].
  - cbn. repeat split; intros ? E; discriminate E.
  - assert (Keep : filter (fun c => negb (nat_mem c (holder_ctx (HT tm)))) (holder_ctx (HT tm)) = []).
    { cbn. rewrite Nat.eqb_refl. reflexivity. }
    destruct (methods_of (codegen m feat) (tm_state tm) (to_snake_case e)) as [|gm [|gm2 r]];
      [| destruct (gm_async gm) |]; cbn [o_trace o_pend o_holder o_cdrops o_res];
      (split; [reflexivity|]); (split; [reflexivity|]); (split; [intros ? E; discriminate E|]);
      intros tm' E; inversion E; subst tm'; try (left; split; [reflexivity|exact Keep]).
    right. repeat split; reflexivity.
  - assert (Keep : filter (fun c => negb (nat_mem c (holder_ctx (HD d)))) (holder_ctx (HD d)) = []).
    { destruct d as [[tm|]]; cbn; rewrite ?Nat.eqb_refl; reflexivity. }
    destruct (gr_dyn (codegen m feat)) as [gd|]; [destruct (gir_async (codegen m feat))|];
      cbn [o_trace o_pend o_holder o_cdrops o_res];
      (split; [reflexivity|]); (split; [reflexivity|]); (split; [|intros ? E; discriminate E]);
      intros d' E; inversion E; subst d'; (split; [reflexivity|exact Keep]).
Qed.

Print Assumptions C19_outcomes_of_handle.
Print Assumptions C19_future_dropped_before_its_first_poll_has_no_effect.
Print Assumptions C19_poisoned_wrapper_is_unavailable.
Print Assumptions C19_completed_dispatch_stays_in_a_declared_state.
Print Assumptions C19_dropped_handle_future_poisons_or_is_the_complete_call.
