(* Script.v -- executable op-script interpreter over the model and the canonical observation
   printer.  This is what the behavioural correspondence check (K2) evaluates with vm_compute and
   compares, line by line, with what the rustc-compiled machine printed.  Definitions only. *)
From Coq Require Import String Ascii List Bool Arith DecimalString Decimal.
From SM Require Import Ident Ast Front Gir Codegen Sem Dyn.
Import ListNotations.
Open Scope string_scope.
Open Scope list_scope.

Inductive holder := HNone | HT (m : tmachine) | HD (d : dyn).

Inductive op :=
| ONew (s : ident) (ctx : nat)                 (* let m: M<Ctx, s> = M::new(Ctx(ctx)) *)
| ODynNew (ctx : nat)                          (* DynamicM::new(Ctx(ctx)) *)
| ODynDefault                                  (* DynamicM::default() *)
| OTyped (e : ident) (pl : option nat) (orc : list ans) (budget : option nat)
| OHandle (e : ident) (pl : option nat) (orc : list ans) (budget : option nat)
| OSet (x : ident) (v : nat)                   (* dynamic set_x_data(v) *)
| OMut (x : ident) (v : nat)                   (* `+= v` through the Option-returning _mut accessor *)
| OTMut (x : ident) (v : nat)                  (* `+= v` through the infallible x_data_mut() *)
| OInto (s : ident)                            (* dynamic into_<s>() *)
| OIntoDyn
| ODrop
| OUnpolled (e : ident) (pl : option nat).    (* async only: create the future of the call and drop it without polling it once *)

Inductive ores :=
| ORok | ORerrG (e : gerr) | ORerrD (e : derr)
| ORpanicHook (n : ident) | ORpanicQ (a b : ident) | ORpanicMsg
| ORnomethod | ORbadop | ORconvOk | ORconvErr | ORabandoned | ORwrote (b : bool) | ORstuck.

Record obs := {
  o_res : ores; o_trace : list call; o_cdrops : list nat; o_pdrops : list nat;
  o_pend : nat; o_holder : holder }.

Definition dflt_ans : ans := Build_ans ADefault 0.
Definition oracle_of (l : list ans) : oracle := fun i => nth i l dflt_ans.

Definition holder_ctx (h : holder) : list nat :=
  match h with
  | HT m => [tm_ctx m]
  | HD d => match d_inner d with Some tm => [tm_ctx tm] | None => [] end
  | HNone => []
  end.

Definition nat_mem (n : nat) (l : list nat) : bool := existsb (Nat.eqb n) l.

Section Step.
Variable g : gir.

Definition res_of_tres (r : tres) : ores :=
  match r with
  | ROk _ => ORok
  | RErr _ e => ORerrG e
  | RPanicHook n => ORpanicHook n
  | RPanicAfter n e => ORpanicQ n e
  | RAbandoned => ORabandoned
  | RStuck => ORstuck
  end.
Definition res_of_hres (r : hres) : ores :=
  match r with
  | HOk => ORok
  | HErr e => ORerrD e
  | HPanicHook n => ORpanicHook n
  | HPanicAfter n e => ORpanicQ n e
  | HPanicInvalid => ORpanicMsg
  | HAbandoned => ORabandoned
  | HStuck => ORstuck
  end.

Definition find_acc (gd : gdyn) (x : ident) : option gacc :=
  find (fun a => String.eqb (gc_state a) x) (gd_accs gd).
Definition state_acc (s : ident) : option (ident * ident * ident) :=
  find (fun t => String.eqb (fst (fst t)) s) (gr_state_accs g).
Definition spec_field (x : ident) : option ident :=
  match state_acc x with Some (_, _, f) => Some f | None => None end.

(* the machine is `async: true` (every generated method then is) *)
Definition gir_async : bool := existsb (fun gi => existsb gm_async (gi_methods gi)) (gr_impls g).

(* (result, trace, pendings, new holder) *)
Definition step_core (h : holder) (o : op) : ores * list call * nat * holder :=
  match o, h with
  | ONew s ctx, _ =>
      match typed_new g s ctx with
      | Some tm => (ORok, [], 0, HT tm)
      | None => (ORnomethod, [], 0, h)
      end
  | ODynNew ctx, _ =>
      match gr_dyn g with
      | Some gd => match dyn_new g gd ctx with
                   | Some d => (ORok, [], 0, HD d)
                   | None => (ORstuck, [], 0, h)
                   end
      | None => (ORbadop, [], 0, h)
      end
  | ODynDefault, _ =>
      match gr_dyn g with
      | Some gd => match dyn_new g gd 0 with
                   | Some d => (ORok, [], 0, HD d)
                   | None => (ORstuck, [], 0, h)
                   end
      | None => (ORbadop, [], 0, h)
      end
  | OTyped e pl orc budget, HT m =>
      match methods_of g (tm_state m) (to_snake_case e) with
      | [] => (ORnomethod, [], 0, h)
      | [gm] =>
          let ro := run_method gm m pl (oracle_of orc) budget in
          (res_of_tres (ro_res ro), ro_trace ro, ro_pend ro,
           match ro_res ro with
           | ROk nm => HT nm
           | RErr old _ => HT old
           | RStuck => h
           | _ => HNone
           end)
      | _ => (ORstuck, [], 0, h)
      end
  | OHandle e pl orc budget, HD d =>
      match gr_dyn g with
      | Some gd =>
          let ho := handle g gd d e pl (oracle_of orc) budget in
          (res_of_hres (ho_res ho), ho_trace ho, ho_pend ho, HD (ho_dyn ho))
      | None => (ORbadop, [], 0, h)
      end
  | OSet x v, HD d =>
      match gr_dyn g with
      | Some gd => match find_acc gd x with
                   | Some a => let '(d', e) := acc_set gd a d v in
                               (match e with None => ORok | Some e => ORerrD e end, [], 0, HD d')
                   | None => (ORnomethod, [], 0, h)
                   end
      | None => (ORbadop, [], 0, h)
      end
  | OMut x v, HD d =>
      match gr_dyn g with
      | Some gd => match find_acc gd x with
                   | Some a => let '(d', b) := acc_write a d v in (ORwrote b, [], 0, HD d')
                   | None => (ORnomethod, [], 0, h)
                   end
      | None => (ORbadop, [], 0, h)
      end
  | OMut x v, HT m =>
      match spec_field x with
      | Some f => match slot_get f (tm_slots m) with
                  | Some old => (ORwrote true, [], 0,
                                 HT (Build_tmachine (tm_state m) (tm_ctx m) (slot_set f (Some (old + v)) (tm_slots m))))
                  | None => (ORwrote false, [], 0, h)
                  end
      | None => (ORnomethod, [], 0, h)
      end
  | OTMut x v, HT m =>
      if String.eqb (tm_state m) x then
        match spec_field x with
        | Some f => match slot_get f (tm_slots m) with
                    | Some old => (ORok, [], 0,
                                   HT (Build_tmachine (tm_state m) (tm_ctx m) (slot_set f (Some (old + v)) (tm_slots m))))
                    | None => (ORpanicMsg, [], 0, h)        (* unwrap() on None *)
                    end
        | None => (ORnomethod, [], 0, h)
        end
      else (ORnomethod, [], 0, h)
  | OInto s, HD d =>
      match gr_dyn g with
      | Some gd =>
          if existsb (fun p => String.eqb (snd p) s) (gd_into gd) then
            match into_state s d with
            | inl tm => (ORconvOk, [], 0, HT tm)
            | inr d' => (ORconvErr, [], 0, HD d')
            end
          else (ORnomethod, [], 0, h)
      | None => (ORbadop, [], 0, h)
      end
  | OIntoDyn, HT m =>
      match gr_dyn g with
      | Some _ => (ORconvOk, [], 0, HD (into_dynamic m))
      | None => (ORbadop, [], 0, h)
      end
  | ODrop, _ => (ORok, [], 0, HNone)
  (* a future that is never polled has done nothing: an `async fn` body starts at the first poll.  The typed
     method took the machine by value, so dropping its future drops the machine; handle(&mut self) only
     borrowed the wrapper, which is exactly as it was *)
  | OUnpolled e pl, HT m =>
      match methods_of g (tm_state m) (to_snake_case e) with
      | [] => (ORnomethod, [], 0, h)
      | [gm] => if gm_async gm then (ORabandoned, [], 0, HNone) else (ORbadop, [], 0, h)
      | _ => (ORstuck, [], 0, h)
      end
  | OUnpolled e pl, HD d =>
      match gr_dyn g with
      | Some gd => if gir_async then (ORabandoned, [], 0, h) else (ORbadop, [], 0, h)
      | None => (ORbadop, [], 0, h)
      end
  | _, _ => (ORbadop, [], 0, h)
  end.

(* the payload value exists (and is consumed) only when the call is actually made *)
Definition op_payload (h : holder) (o : op) : list nat :=
  match o, h with
  | OTyped e (Some p) _ _, HT m =>
      match methods_of g (tm_state m) (to_snake_case e) with
      | gm :: _ => match gm_payload gm with Some _ => [p] | None => [] end
      | [] => []
      end
  | OHandle e (Some p) _ _, HD _ =>
      match gr_dyn g with
      | Some gd => match event_variant gd e with
                   | Some (_, _, Some _) => [p]
                   | _ => []
                   end
      | None => []
      end
  | OUnpolled e (Some p), HT m =>
      match methods_of g (tm_state m) (to_snake_case e) with
      | gm :: _ => match gm_payload gm with Some _ => [p] | None => [] end
      | [] => []
      end
  | OUnpolled e (Some p), HD _ =>
      match gr_dyn g with
      | Some gd => match event_variant gd e with
                   | Some (_, _, Some _) => [p]
                   | _ => []
                   end
      | None => []
      end
  | _, _ => []
  end.

Definition step (h : holder) (o : op) : obs :=
  let '(r, tr, pend, h') := step_core h o in
  Build_obs r tr (filter (fun c => negb (nat_mem c (holder_ctx h'))) (holder_ctx h))
            (op_payload h o) pend h'.

Fixpoint run_script (h : holder) (ops : list op) : list obs :=
  match ops with
  | [] => []
  | o :: r => let ob := step h o in ob :: run_script (o_holder ob) r
  end.

(* ---------- canonical text ---------- *)

Definition nat_str (n : nat) : string := NilZero.string_of_uint (Nat.to_uint n).
Fixpoint join (sep : string) (l : list string) : string :=
  match l with
  | [] => ""
  | [x] => x
  | x :: r => x +++ sep +++ join sep r
  end.
Definition opt_str (o : option nat) : string := match o with Some v => nat_str v | None => "-" end.
Definition kind_str (k : hkind) : string :=
  match k with
  | HAroundBefore => "ab" | HGuard => "g" | HUnless => "u"
  | HBefore => "b" | HAfter => "a" | HAroundAfter => "aa"
  end.
(* a condition hook cannot know whether it was consulted as a guard or as an unless-condition: the
   instrumented hook logs "g" iff its name occurs in some guards list of the definition; the model's
   line uses the same rule (the structured trace keeps the real kind) *)
Definition guard_names : list ident :=
  flat_map (fun gi => flat_map (fun gm => flat_map (fun s => match s with SCond true n _ _ _ _ => [n] | _ => [] end) (gm_body gm))
                               (gi_methods gi)) (gr_impls g).
Definition logged_kind (c : call) : string :=
  match c_kind c with
  | HGuard | HUnless => if mem (c_name c) guard_names then "g" else "u"
  | k => kind_str k
  end.
Definition call_str (c : call) : string :=
  logged_kind c +++ "." +++ c_name c +++ "." +++ c_state c +++ "." +++
  join "/" (map opt_str (c_slots c)) +++ "." +++ nat_str (c_ctx c) +++ "." +++ opt_str (c_pl c)
  +++ (if c_done c then "" else "!").
Definition akind_str (k : akind) : string :=
  match k with
  | AKGuard n => "gf(" +++ n +++ ")"
  | AKAction n => "af(" +++ n +++ ")"
  | AKInvalid => "inv"
  end.
Definition derr_str (e : derr) : string :=
  match e with
  | DInvalid f ev => "IT(" +++ f +++ "," +++ ev +++ ")"
  | DGuardFailed gn ev => "GF(" +++ gn +++ "," +++ ev +++ ")"
  | DActionFailed a ev => "AF(" +++ a +++ "," +++ ev +++ ")"
  | DWrongState ex ac o => "WS(" +++ ex +++ "," +++ ac +++ "," +++ o +++ ")"
  end.
Definition res_str (r : ores) : string :=
  match r with
  | ORok => "ok"
  | ORerrG e => "err:G(" +++ ge_guard e +++ "," +++ ge_event e +++ "," +++ akind_str (ge_kind e) +++ ")"
  | ORerrD e => "err:" +++ derr_str e
  | ORpanicHook n => "panic:hook(" +++ n +++ ")"
  | ORpanicQ a b => "panic:q(" +++ a +++ "," +++ b +++ ")"
  | ORpanicMsg => "panic:msg"
  | ORnomethod => "nomethod"
  | ORbadop => "badop"
  | ORconvOk => "conv:ok"
  | ORconvErr => "conv:err"
  | ORabandoned => "abandoned"
  | ORwrote b => if b then "wrote:1" else "wrote:0"
  | ORstuck => "STUCK"
  end.

Definition holder_str (h : holder) : string :=
  match h with
  | HNone => "N"
  | HT m =>
      "T:" +++ tm_state m +++ ":" +++
      join "/" (map (fun fd => opt_str (slot_get (fst fd) (tm_slots m))) (gr_fields g)) +++ ":" +++
      match state_acc (tm_state m) with
      | Some (_, _, f) => match slot_get f (tm_slots m) with Some v => nat_str v | None => "PANIC" end
      | None => "-"
      end
  | HD d =>
      match gr_dyn g with
      | Some gd =>
          "D:" +++ match current_state gd d with Some s => s | None => "!" end +++ ":" +++
          join "/" (map (fun a => opt_str (acc_read a d)) (gd_accs gd))
      | None => "D?"
      end
  end.

Definition obs_str (o : obs) : string :=
  res_str (o_res o) +++ "|" +++ join "," (map call_str (o_trace o)) +++ "|c=" +++
  join "," (map nat_str (o_cdrops o)) +++ "|p=" +++ join "," (map nat_str (o_pdrops o)) +++
  "|n=" +++ nat_str (o_pend o) +++ "|" +++ holder_str (o_holder o).

End Step.

(* the whole pipeline on a definition: None when the front end rejects it *)
Definition run_defn (feat : bool) (d : defn) (ops : list op) : option (list string) :=
  match front d with
  | Ok m => let g := codegen m feat in Some (map (obs_str g) (run_script g HNone ops))
  | Err _ => None
  end.

(* ---------- comparison with what the implementation printed ---------- *)

Fixpoint mismatches (i : nat) (model real : list string) : list nat :=
  match model, real with
  | [], [] => []
  | m :: ms, r :: rs => (if String.eqb m r then [] else [i]) ++ mismatches (S i) ms rs
  | _, _ => [i]
  end.

Definition gir_of (feat : bool) (d : defn) : option gir :=
  match front d with Ok m => Some (codegen m feat) | Err _ => None end.

(* indices of the script's lines on which model and implementation differ; [1000000] when the model
   rejects the definition *)
Definition chk (g : option gir) (ops : list op) (real : list string) : list nat :=
  match g with
  | Some g => mismatches 0 (map (obs_str g) (run_script g HNone ops)) real
  | None => [1000000]
  end.
Definition model_lines (g : option gir) (ops : list op) : list string :=
  match g with
  | Some g => map (obs_str g) (run_script g HNone ops)
  | None => []
  end.


(* ---------- compile-time tables (K3): what the model says rustc will find ---------- *)

Definition b2s (b : bool) : string := if b then "1" else "0".
Definition stmt_code (s : stmt) : string :=
  match s with
  | SAroundBefore cb aw ev => "AB(" +++ cb +++ "," +++ b2s aw +++ "," +++ ev +++ ")"
  | SCond neg g0 wpl aw gl el => "C(" +++ b2s neg +++ "," +++ g0 +++ "," +++ b2s wpl +++ "," +++ b2s aw +++ "," +++ gl +++ "," +++ el +++ ")"
  | SBefore cb wpl aw => "B(" +++ cb +++ "," +++ b2s wpl +++ "," +++ b2s aw +++ ")"
  | SConstruct tgt mv inits =>
      "N(" +++ b2s mv +++ "," +++ join "," (map (fun fi => fst fi +++ "=" +++ match snd fi with SlotNone => "N" | SlotDefault => "D" end) inits) +++ ")"
  | SAfter cb wpl aw => "A(" +++ cb +++ "," +++ b2s wpl +++ "," +++ b2s aw +++ ")"
  | SAroundAfter cb aw ev => "AA(" +++ cb +++ "," +++ b2s aw +++ "," +++ ev +++ ")"
  | SRetOk => "OK"
  end.

Definition k3_table (g : gir) : list string :=
  flat_map (fun gi =>
      (match gi_new gi with Some _ => ["new|" +++ gi_state gi] | None => [] end)
      ++ map (fun gm => "m|" +++ gi_state gi +++ "|" +++ gm_name gm +++ "|" +++ gm_target gm +++ "|"
                        +++ (match gm_payload gm with Some _ => "p" | None => "-" end) +++ "|"
                        +++ (if gm_async gm then "a" else "-")) (gi_methods gi)
      ++ map (fun gm => "b|" +++ gi_state gi +++ "|" +++ gm_name gm +++ "|" +++ join ";" (map stmt_code (gm_body gm))) (gi_methods gi)
      ++ (match gi_new gi with
          | Some inits => ["nb|" +++ gi_state gi +++ "|" +++
                           join "," (map (fun fi => fst fi +++ "=" +++ match snd fi with SlotNone => "N" | SlotDefault => "D" end) inits)]
          | None => []
          end))
    (gr_impls g)
  ++ map (fun t => "acc|" +++ fst (fst t) +++ "|" +++ snd (fst t)) (gr_state_accs g)
  ++ map (fun p => "sub|" +++ fst p +++ "|" +++ snd p) (gr_substate g)
  ++ map (fun mk => "mk|" +++ mk) (gr_markers g)
  ++ map (fun fd => "fld|" +++ fst fd +++ "|" +++ snd fd) (gr_fields g)
  ++ match gr_dyn g with
     | Some gd => ["dyn"] ++ map (fun v => "ev|" +++ fst (fst v) +++ "|" +++ snd (fst v)) (gd_events gd)
                  ++ map (fun a => "dacc|" +++ gc_state a +++ "|" +++ gc_read a +++ "|" +++ gc_write a +++ "|" +++ gc_set a
                                   +++ "|" +++ join "," (gc_variants a)) (gd_accs gd)
                  ++ map (fun p => "into|" +++ fst p +++ "|" +++ snd p) (gd_into gd)
                  ++ map (fun a => "arm|" +++ ga_src a +++ "|" +++ ga_variant a +++ "|" +++ ga_method a +++ "|" +++ ga_ok a) (gd_arms gd)
     | None => []
     end.

Definition k3_table_of (feat : bool) (d : defn) : list string :=
  match front d with Ok m => k3_table (codegen m feat) | Err _ => ["REJECTED"] end.
