(* Sem.v -- run-time meaning of the generated typestate methods (L3 of DESIGN.md).
   A method body is a statement list; running it interacts with the user's hooks, whose answers
   come from an oracle indexed by the position of the call inside the run.  Definitions only. *)
From Coq Require Import String List Bool Arith.
From SM Require Import Ident Ast Front Gir.
Import ListNotations.
Open Scope list_scope.

Definition slots := list (ident * option nat).       (* storage field -> current value *)
Record tmachine := { tm_state : ident; tm_ctx : nat; tm_slots : slots }.

(* TransitionErrorKind *)
Inductive akind := AKGuard (n : ident) | AKAction (n : ident) | AKInvalid.

Inductive answer :=
| ADefault                (* whatever lets the transition proceed *)
| ABool (b : bool)        (* raw return value of a guard / unless hook *)
| AAbort (k : akind)      (* AroundOutcome::Abort(TransitionError { kind: k, .. }) *)
| APanic.                 (* the hook panics *)
Record ans := { an_val : answer; an_susp : nat }.    (* an_susp: times the hook's future returns Pending *)
Definition oracle := nat -> ans.

Inductive hkind := HAroundBefore | HGuard | HUnless | HBefore | HAfter | HAroundAfter.

(* what a hook sees when it is called, and whether it ran to completion *)
Record call := {
  c_kind : hkind; c_name : ident;
  c_state : ident;                 (* state the receiver is typed in *)
  c_slots : list (option nat);     (* the receiver's data slots *)
  c_ctx : nat;                     (* identity of the context (the &C argument of guards; self.ctx otherwise) *)
  c_pl : option nat;               (* identity of the payload passed, if any *)
  c_susp : nat;
  c_done : bool }.

Record gerr := { ge_guard : ident; ge_event : ident; ge_kind : akind }.   (* core::GuardError *)

Inductive tres :=
| ROk (m : tmachine)
| RErr (m : tmachine) (e : gerr)
| RPanicHook (name : ident)            (* a hook panicked; unwinding *)
| RPanicAfter (name ev : ident)        (* AfterSuccess abort: panic!("... '{name}' ... '{ev}' ...") *)
| RAbandoned                           (* the future was dropped while a hook was pending *)
| RStuck.                              (* the body is not something rustc would have accepted *)

Definition guard_ans (a : answer) : bool := match a with ABool b => b | _ => true end.
Definition unless_ans (a : answer) : bool := match a with ABool b => b | _ => false end.
Definition abort_name (k : akind) (cb : ident) : ident :=
  match k with AKGuard n => n | AKAction n => n | AKInvalid => cb end.

Record xst := {
  x_self : tmachine; x_new : option tmachine;
  x_i : nat; x_tr : list call; x_pend : nat; x_budget : option nat }.

Inductive cres := CAns (a : answer) | CPanic | CAbandon | CSkip | CStuck.

Definition mk_call k name (on : tmachine) (pl : option nat) (susp : nat) (done : bool) : call :=
  Build_call k name (tm_state on) (map snd (tm_slots on)) (tm_ctx on) pl susp done.

(* one hook invocation.  [asyncm]: the method is `async fn`; [aw]: the call carries `.await`;
   [must]: the call's value is used (guards, around) *)
Definition invoke (asyncm aw must : bool) (w : oracle) (x : xst)
           (k : hkind) (name : ident) (on : tmachine) (pl : option nat) : xst * cres :=
  if negb (Bool.eqb asyncm aw) then
    (x, if must || aw then CStuck else CSkip)       (* async callback without .await: future created and dropped *)
  else
    let a := w (x_i x) in
    let susp := if asyncm then an_susp a else 0 in
    let upd c p b := Build_xst (x_self x) (x_new x) (S (x_i x)) (x_tr x ++ [c]) (x_pend x + p) b in
    match x_budget x with
    | Some b =>
        if (b <=? susp)%nat then (upd (mk_call k name on pl susp false) b (Some 0), CAbandon)
        else match an_val a with
             | APanic => (upd (mk_call k name on pl susp false) susp (Some (b - susp)), CPanic)
             | v => (upd (mk_call k name on pl susp true) susp (Some (b - susp)), CAns v)
             end
    | None =>
        match an_val a with
        | APanic => (upd (mk_call k name on pl susp false) susp None, CPanic)
        | v => (upd (mk_call k name on pl susp true) susp None, CAns v)
        end
    end.

Definition set_new (x : xst) (nm : tmachine) : xst :=
  Build_xst (x_self x) (Some nm) (x_i x) (x_tr x) (x_pend x) (x_budget x).

Definition init_slot (i : slot_init) : option nat :=
  match i with SlotNone => None | SlotDefault => Some 0 end.

Section Exec.
Variable asyncm : bool.
Variable pl : option nat.
Variable w : oracle.

Definition pl_if (b : bool) : option nat := if b then pl else None.

Fixpoint exec (ss : list stmt) (x : xst) : xst * tres :=
  match ss with
  | [] => (x, RStuck)
  | s :: rest =>
      match s with
      | SAroundBefore cb aw ev =>
          match invoke asyncm aw true w x HAroundBefore cb (x_self x) None with
          | (x', CAns (AAbort k)) => (x', RErr (x_self x) (Build_gerr (abort_name k cb) ev k))
          | (x', CAns _) => exec rest x'
          | (x', CPanic) => (x', RPanicHook cb)
          | (x', CAbandon) => (x', RAbandoned)
          | (x', _) => (x', RStuck)
          end
      | SCond neg g wpl aw gl el =>
          match invoke asyncm aw true w x (if neg then HGuard else HUnless) g (x_self x) (pl_if wpl) with
          | (x', CAns a) =>
              let blocked := if neg then negb (guard_ans a) else unless_ans a in
              if blocked then (x', RErr (x_self x) (Build_gerr gl el (AKGuard gl)))
              else exec rest x'
          | (x', CPanic) => (x', RPanicHook g)
          | (x', CAbandon) => (x', RAbandoned)
          | (x', _) => (x', RStuck)
          end
      | SBefore cb wpl aw =>
          match invoke asyncm aw false w x HBefore cb (x_self x) (pl_if wpl) with
          | (x', CAns _) | (x', CSkip) => exec rest x'
          | (x', CPanic) => (x', RPanicHook cb)
          | (x', CAbandon) => (x', RAbandoned)
          | (x', CStuck) => (x', RStuck)
          end
      | SConstruct tgt moved inits =>
          exec rest (set_new x (Build_tmachine tgt (if moved then tm_ctx (x_self x) else 0)
                                               (map (fun fi => (fst fi, init_slot (snd fi))) inits)))
      | SAfter cb wpl aw =>
          match x_new x with
          | None => (x, RStuck)
          | Some nm =>
              match invoke asyncm aw false w x HAfter cb nm (pl_if wpl) with
              | (x', CAns _) | (x', CSkip) => exec rest x'
              | (x', CPanic) => (x', RPanicHook cb)
              | (x', CAbandon) => (x', RAbandoned)
              | (x', CStuck) => (x', RStuck)
              end
          end
      | SAroundAfter cb aw ev =>
          match x_new x with
          | None => (x, RStuck)
          | Some nm =>
              match invoke asyncm aw true w x HAroundAfter cb nm None with
              | (x', CAns (AAbort k)) => (x', RPanicAfter (abort_name k cb) ev)
              | (x', CAns _) => exec rest x'
              | (x', CPanic) => (x', RPanicHook cb)
              | (x', CAbandon) => (x', RAbandoned)
              | (x', _) => (x', RStuck)
              end
          end
      | SRetOk =>
          match x_new x with
          | Some nm => (x, ROk nm)
          | None => (x, RStuck)
          end
      end
  end.
End Exec.

Record run_out := { ro_trace : list call; ro_pend : nat; ro_res : tres }.

(* call a generated method on a machine.  [budget] = Some n: the caller polls the future and drops it
   at its n-th Pending (n >= 1); None: runs to completion (always so for sync methods) *)
Definition run_method (gm : gmethod) (self : tmachine) (pl : option nat) (w : oracle)
           (budget : option nat) : run_out :=
  let pl' := match gm_payload gm with Some _ => pl | None => None end in
  let '(x, r) := exec (gm_async gm) pl' w (gm_body gm)
                      (Build_xst self None 0 [] 0 (if gm_async gm then budget else None)) in
  Build_run_out (x_tr x) (x_pend x) r.

(* the method of event-method [name] on a machine typed in [s]: inherent impl lookup *)
Definition impl_of (g : gir) (s : ident) : option gimpl :=
  find (fun gi => String.eqb (gi_state gi) s) (gr_impls g).
Definition methods_of (g : gir) (s : ident) (name : ident) : list gmethod :=
  match impl_of g s with
  | Some gi => filter (fun gm => String.eqb (gm_name gm) name) (gi_methods gi)
  | None => []
  end.

(* M::new(ctx): exists only on the impl that carries it *)
Definition typed_new (g : gir) (s : ident) (ctx : nat) : option tmachine :=
  match impl_of g s with
  | Some gi => match gi_new gi with
               | Some inits => Some (Build_tmachine s ctx (map (fun fi => (fst fi, init_slot (snd fi))) inits))
               | None => None
               end
  | None => None
  end.

Fixpoint slot_get (f : ident) (s : slots) : option nat :=
  match s with
  | [] => None
  | (f', v) :: r => if String.eqb f f' then v else slot_get f r
  end.
Fixpoint slot_set (f : ident) (v : option nat) (s : slots) : slots :=
  match s with
  | [] => []
  | (f', v') :: r => if String.eqb f f' then (f', v) :: r else (f', v') :: slot_set f v r
  end.
