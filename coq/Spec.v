(* Spec.v -- declarative meaning of a definition, written on the state forest with no reference to
   the parser's maps, stacks or the graph.  Definitions only. *)
From Coq Require Import String List Bool Arith.
From SM Require Import Ident Ast Front.
Import ListNotations.
Open Scope string_scope.
Open Scope list_scope.

Fixpoint leaves_of_item (it : sitem) : list ident :=
  match it with
  | ILeaf n _ => [n]
  | ISuper _ _ body => flat_map leaves_of_item body
  | _ => []
  end.
Definition leaves_of (items : list sitem) : list ident := flat_map leaves_of_item items.

(* every declared name, leaves and superstates, in source (pre-)order *)
Fixpoint names_of_item (it : sitem) : list ident :=
  match it with
  | ILeaf n _ => [n]
  | ISuper n _ body => n :: flat_map names_of_item body
  | _ => []
  end.
Definition names_of (items : list sitem) : list ident := flat_map names_of_item items.

Fixpoint supers_of_item (it : sitem) : list ident :=
  match it with
  | ISuper n _ body => n :: flat_map supers_of_item body
  | _ => []
  end.
Definition supers_of (items : list sitem) : list ident := flat_map supers_of_item items.

(* the `initial:` entry of a block that counts: the last one *)
Fixpoint last_init (body : list sitem) : option ident :=
  match body with
  | [] => None
  | IInitial x :: r => match last_init r with Some y => Some y | None => Some x end
  | _ :: r => last_init r
  end.

(* the leaf a superstate block is entered at: its declared initial, else its first-declared leaf *)
Definition entry_leaf (body : list sitem) : ident :=
  match last_init body with
  | Some i => i
  | None => hd "" (leaves_of body)
  end.

(* the block of the superstate named g (first in source order; names are distinct in accepted forests) *)
Fixpoint find_super_item (g : ident) (it : sitem) : option (list sitem) :=
  match it with
  | ISuper n _ body =>
      if String.eqb g n then Some body
      else (fix go (l : list sitem) : option (list sitem) :=
              match l with
              | [] => None
              | x :: r => match find_super_item g x with Some b => Some b | None => go r end
              end) body
  | _ => None
  end.
Fixpoint find_super (g : ident) (items : list sitem) : option (list sitem) :=
  match items with
  | [] => None
  | x :: r => match find_super_item g x with Some b => Some b | None => find_super g r end
  end.

(* what a name used as a transition source stands for *)
Definition leaves_under (items : list sitem) (x : ident) : list ident :=
  match find_super x items with
  | Some body => leaves_of body
  | None => if mem x (leaves_of items) then [x] else []
  end.

(* what a name used as a transition target stands for *)
Definition entry_of (items : list sitem) (x : ident) : ident :=
  match find_super x items with
  | Some body => entry_leaf body
  | None => x
  end.

(* superstates that directly or transitively contain the leaf l, outermost first *)
Fixpoint chain_item (l : ident) (it : sitem) : option (list ident) :=
  match it with
  | ILeaf n _ => if String.eqb l n then Some [] else None
  | ISuper n _ body =>
      match (fix go (b : list sitem) : option (list ident) :=
               match b with
               | [] => None
               | x :: r => match chain_item l x with Some c => Some c | None => go r end
               end) body with
      | Some c => Some (n :: c)
      | None => None
      end
  | _ => None
  end.
Fixpoint chain_of (l : ident) (items : list sitem) : option (list ident) :=
  match items with
  | [] => None
  | x :: r => match chain_item l x with Some c => Some c | None => chain_of l r end
  end.

(* storage specs in the order the parser pushes them: pre-order *)
Fixpoint data_of_item (it : sitem) : list (ident * ty) :=
  match it with
  | ILeaf n (Some t) => [(n, t)]
  | ISuper n d body => (match d with Some t => [(n, t)] | None => [] end) ++ flat_map data_of_item body
  | _ => []
  end.
Definition data_of (items : list sitem) : list (ident * ty) := flat_map data_of_item items.

(* the declared transition relation: event e takes leaf s to leaf t *)
Definition delta (items : list sitem) (evs : list event) (s e t : ident) : Prop :=
  exists ev tr src,
    In ev evs /\ e_name ev = e /\ In tr (e_transitions ev) /\ In src (t_sources tr) /\
    In s (leaves_under items src) /\ t = entry_of items (t_target tr).

(* ---------- the effective sections of a definition: the last entry of each key wins ---------- *)

Fixpoint d_get {A} (f : mentry -> option A) (d : defn) : option A :=
  match d with
  | [] => None
  | e :: r => match d_get f r with Some x => Some x | None => f e end
  end.
Definition d_name := d_get (fun e => match e with MName n => Some n | _ => None end).
Definition d_initial := d_get (fun e => match e with MInitial n => Some n | _ => None end).
Definition d_context := d_get (fun e => match e with MContext t => Some t | _ => None end).
Definition d_async_opt := d_get (fun e => match e with MAsync b => Some b | _ => None end).
Definition d_dynamic_opt := d_get (fun e => match e with MDynamic b => Some b | _ => None end).
Definition d_states := d_get (fun e => match e with MStates i => Some i | _ => None end).
Definition d_sevents := d_get (fun e => match e with MEvents l => Some l | _ => None end).
Definition d_async (d : defn) : bool := match d_async_opt d with Some b => b | None => false end.
Definition d_dynamic (d : defn) : bool := match d_dynamic_opt d with Some b => b | None => false end.

(* ---------- declarative well-formedness: the rule list of property C13 ---------- *)

(* no unknown key inside a superstate block, at any depth; no `initial:` / stray key at top level *)
Fixpoint item_keys_ok (top : bool) (it : sitem) : bool :=
  match it with
  | ILeaf _ _ => true
  | ISuper _ _ body => forallb (item_keys_ok false) body
  | IInitial _ => negb top
  | IUnknown _ => false
  end.

(* every superstate block, at any depth, has at least one leaf, and its (last) `initial:` names one
   of its own leaves *)
Fixpoint item_valid_b (it : sitem) : bool :=
  match it with
  | ISuper _ _ body =>
      negb (is_nil (leaves_of body))
      && (match last_init body with Some i => mem i (leaves_of body) | None => true end)
      && forallb item_valid_b body
  | _ => true
  end.

Record forest_wf (items : list sitem) : Prop := {
  fw_keys : forallb (item_keys_ok true) items = true;
  fw_distinct : NoDup (names_of items);                      (* leaf and superstate names pairwise distinct *)
  fw_supers : forallb item_valid_b items = true }.

Definition tentries_wf (ts : list tentry) : Prop :=
  (forall k, ~ In (TUnknownT k) ts) /\ (exists l, In (TFrom l) ts) /\ (exists t, In (TTo t) ts).
Definition sevent_wf (se : sevent) : Prop :=
  (forall k, ~ In (EUnknownE k) (se_entries se)) /\
  (forall ts, In (ETransition ts) (se_entries se) -> tentries_wf ts).

Definition declared (items : list sitem) (x : ident) : Prop :=
  In x (leaves_of items) \/ In x (supers_of items).

Record event_wf (items : list sitem) (ev : event) : Prop := {
  ew_snake : is_snake_case (e_name ev) = true;
  ew_transitions : e_transitions ev <> [];
  ew_sources : forall t, In t (e_transitions ev) -> t_sources t <> [] /\ forall s, In s (t_sources t) -> declared items s;
  ew_target : forall t, In t (e_transitions ev) -> declared items (t_target t) }.

(* at most one transition of an event applies to a leaf *)
Definition deterministic (items : list sitem) (evs : list event) : Prop :=
  forall s e, In s (leaves_of items) ->
    length (flat_map (fun ev => if String.eqb (e_name ev) e
                                then flat_map (fun t => flat_map (fun src => filter (String.eqb s) (leaves_under items src))
                                                                 (t_sources t)) (e_transitions ev)
                                else []) evs) <= 1.
