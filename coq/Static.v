(* Static.v -- the fragment of rustc's static semantics the properties need, as judgements on GIR:
   which inherent methods a state type has, whether two of them collide, which items exist.
   Definitions only. *)
From Coq Require Import String List Bool Arith.
From SM Require Import Ident Ast Front Gir Codegen Sem.
Import ListNotations.
Open Scope string_scope.
Open Scope list_scope.

(* every inherent method name rustc sees on the type M<.., s> for a leaf s *)
Definition inherent_names (g : gir) (s : ident) : list ident :=
  match impl_of g s with
  | Some gi => (match gi_new gi with Some _ => ["new"] | None => [] end) ++ map gm_name (gi_methods gi)
  | None => []
  end
  ++ map fst (gr_storage_accs g)
  ++ flat_map (fun t => if String.eqb (fst (fst t)) s
                        then [snd (fst t); snd (fst t) +++ "_mut"] else []) (gr_state_accs g)
  ++ flat_map (fun si => map gm_name (gs_methods si)) (gr_superimpls g)   (* over-approximation: any blanket impl *)
  ++ match gr_dyn g with Some _ => ["into_dynamic"] | None => [] end.

(* E0592: duplicate definitions with the same name on one type *)
Definition methods_coherent (g : gir) : bool :=
  forallb (fun gi => negb (has_dup (inherent_names g (gi_state gi)))) (gr_impls g).

(* type-namespace items of the expansion *)
Definition type_items (g : gir) : list ident :=
  gr_markers g ++ [gr_name g]
  ++ match gr_dyn g with
     | Some _ => [gr_name g +++ "Event"; "Any" +++ gr_name g +++ "State"; "Dynamic" +++ gr_name g]
     | None => []
     end.
(* E0428: the same type name defined twice *)
Definition items_unique (g : gir) : bool := negb (has_dup (type_items g)).

Definition dyn_methods (gd : gdyn) : list ident :=
  ["new"; "handle"; "current_state"]
  ++ flat_map (fun a => [gc_read a; gc_write a; gc_set a]) (gd_accs gd)
  ++ map fst (gd_into gd).
Definition dyn_coherent (g : gir) : bool :=
  match gr_dyn g with
  | Some gd => negb (has_dup (dyn_methods gd)) && negb (has_dup (map (fun e => fst (fst e)) (gd_events gd)))
  | None => true
  end.

Definition gir_ok (g : gir) : bool :=
  methods_coherent g && items_unique g && dyn_coherent g && is_nil (gr_superimpls g).

(* the whole decision `state_machine!` + rustc's duplicate checks make: 0 accepted,
   100 expanded but rejected by rustc for colliding items, otherwise the front end's diagnostic *)
Definition accept_code (feat : bool) (d : defn) : nat :=
  match front d with
  | Ok m => if gir_ok (codegen m feat) then 0 else 100
  | Err e => S (match e with
      | EUnknownKey => 0 | EMalformed => 1 | EMissingName => 2 | EMissingInitial => 3 | EMissingStates => 4
      | EDuplicateState => 5 | EEmptySuper => 6 | EInitNotDescendant => 7 | ETransMissingFrom => 8
      | ETransMissingTo => 9 | EInitialIsSuper => 10 | EInitialUndeclared => 11 | ENotSnake => 12
      | ENoTransitions => 13 | ENoSources => 14 | ESuperNoInitial => 15 | ETargetUndeclared => 16
      | ESourceUndeclared => 17 | ESourceEmpty => 18 end)
  end.

(* ---------- hygiene: user identifiers against the identifiers the expansion binds (C18) ---------- *)

(* In generic-context mode the expansion binds the type parameter `C` in every impl header, in the
   machine struct, the AnyState enum and the Dynamic wrapper; `S` is bound in the machine struct and
   in the accessor impl.  A user identifier that is used where such a parameter is in scope and has
   the same name resolves to the parameter, not to the user's item. *)
Fixpoint data_types_of_item (it : sitem) : list ty :=
  match it with
  | ILeaf _ (Some t) => [t]
  | ISuper _ d body => (match d with Some t => [t] | None => [] end) ++ flat_map data_types_of_item body
  | _ => []
  end.

Definition payload_types (m : machine) : list ty :=
  flat_map (fun ev => match e_payload ev with Some t => [t] | None => [] end) (m_events m).

Definition captured_names (m : machine) : list ident :=
  match m_context m with
  | None =>       (* generic context: `C` and `S` are parameters *)
      filter (fun x => String.eqb x "C")
             (m_states m ++ all_superstates (m_hier m) ++ map ss_ty (m_storage m) ++ payload_types m)
      ++ filter (fun x => String.eqb x "S") (map ss_ty (m_storage m))
  | Some _ =>     (* concrete context: only `S` is a parameter, and only where data types are mentioned *)
      filter (fun x => String.eqb x "S") (map ss_ty (m_storage m))
  end.

Definition hygienic (m : machine) : bool := is_nil (captured_names m).
