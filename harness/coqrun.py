"""Evaluate model terms with coqc (vm_compute) in parallel shards and parse tagged results."""
import os
import re
import subprocess
import concurrent.futures

COQ_DIR = os.path.join(os.path.dirname(os.path.dirname(os.path.abspath(__file__))), 'coq')
PRELUDE = ('From Coq Require Import String List.\nImport ListNotations.\n'
           'From SM Require Import Ident Ast Front Gir Codegen Sem Dyn Script.\n'
           'Open Scope string_scope.\nOpen Scope list_scope.\n')


def _run_one(path):
    p = subprocess.run(['coqc', '-noglob', '-Q', COQ_DIR, 'SM', path], capture_output=True, text=True, timeout=1800)
    return path, p.returncode, p.stdout, p.stderr


def run_shards(workdir, shards, prelude=PRELUDE, jobs=16):
    """shards: list of coq source bodies.  returns concatenated stdout; raises on coqc failure"""
    os.makedirs(workdir, exist_ok=True)
    paths = []
    for i, body in enumerate(shards):
        p = os.path.join(workdir, 'cases_%03d.v' % i)
        with open(p, 'w') as f:
            f.write(prelude + body)
        paths.append(p)
    outs = []
    jobs = max(1, min(jobs, int(os.environ.get('VERIF_JOBS', '16'))))
    with concurrent.futures.ThreadPoolExecutor(max_workers=jobs) as ex:
        for path, rc, so, se in ex.map(_run_one, paths):
            if rc != 0:
                raise RuntimeError('coqc failed on %s:\n%s' % (path, se[-3000:]))
            outs.append(so)
    for p in paths:
        for ext in ('.vo', '.vok', '.vos', '.glob'):
            q = p[:-2] + ext
            if os.path.exists(q):
                os.remove(q)
    return '\n'.join(outs)


R_RE = re.compile(r'\(\s*"R",\s*(\d+),\s*(\d+),\s*\[([\d;\s]*)\]\s*\)')


def parse_R(out):
    """{(a, b): [ints]}"""
    res = {}
    for m in R_RE.finditer(out):
        body = m.group(3).strip()
        res[(int(m.group(1)), int(m.group(2)))] = [int(x) for x in body.split(';')] if body else []
    return res


STR_RE = re.compile(r'"((?:[^"]|"")*)"')


def parse_L(out):
    """for outputs of the form ("L", a, b, ["..."; "..."]) returns {(a,b): [strings]}"""
    res = {}
    for m in re.finditer(r'\(\s*"L",\s*(\d+),\s*(\d+),\s*\[(.*?)\]\s*\)\s*:', out, re.S):
        strs = [s.replace('""', '"') for s in STR_RE.findall(m.group(3))]
        strs = [re.sub(r'\s*\n\s*', '', s) for s in strs]
        res[(int(m.group(1)), int(m.group(2)))] = strs
    return res
