"""Corpora: machine definitions for the behavioural tie (K2) and the script families each property
runs on them.  Scripts are only *aimed* with a harness-side reading of the DSL (which transition
applies where, how many hooks it has); what must be observed is always computed by the Coq model."""
import itertools
import random
import re
import smgen
from smgen import HOOK_KEYS


# ---------------------------------------------------------------- harness-side reading of a definition

class MI:
    """machine info used to aim scripts"""
    def __init__(self, idx, d, skel):
        self.idx = idx
        self.d = d
        self.skel = skel
        self.name = smgen.get(d, 'name')
        self.initial = smgen.get(d, 'initial')
        self.forest = smgen.get(d, 'states')
        self.leaves = smgen.leaves_of(self.forest)
        self.supers = smgen.supers_of(self.forest)
        self.specs = smgen.data_specs(self.forest)
        self.events = smgen.event_names(d)
        self.is_async = bool(smgen.get(d, 'async', False))
        self.concrete = smgen.get(d, 'context') is not None
        self.dynamic = any(it['k'] == 'struct' and it['name'] == 'Dynamic' + self.name for it in skel.get('items', []))
        self.payload = {e: smgen.event_payload(d, e) for e in self.events}
        self.wide = len(self.leaves) > 40      # very wide machines get a few long directed scripts instead of the generic families
        self._under = {}
        self._index(self.forest)
        self.edges = {}      # (leaf, event) -> (target leaf, hooks dict)
        self._edges()

    def _index(self, items):
        for it in items:
            if it[0] == 'super':
                self._under[it[1]] = (smgen.leaves_of(it[3]), it)
                self._index(it[3])

    def under(self, x):
        return self._under[x][0] if x in self._under else ([x] if x in self.leaves else [])

    def entry(self, x):
        if x in self._under:
            lv, it = self._under[x]
            ini = None
            for c in it[3]:
                if c[0] == 'initial':
                    ini = c[1]
            return ini if ini is not None else lv[0]
        return x

    def _edges(self):
        for (en, es) in (smgen.get(self.d, 'events') or []):
            eh = {k: [] for k in HOOK_KEYS}
            for e in es:
                if e[0] == 'list':
                    eh[e[1]] = list(e[2])
            for e in es:
                if e[0] != 'transition':
                    continue
                th = {k: [] for k in HOOK_KEYS}
                src, tgt = [], None
                for t in e[1]:
                    if t[0] == 'from':
                        src = t[1]
                    elif t[0] == 'to':
                        tgt = t[1]
                    elif t[0] == 'list':
                        th[t[1]] = list(t[2])
                hooks = {k: eh[k] + th[k] for k in HOOK_KEYS}
                for s in src:
                    for leaf in self.under(s):
                        if (leaf, en) not in self.edges:
                            self.edges[(leaf, en)] = (self.entry(tgt), hooks)

    def calls(self, leaf, ev):
        """[(kind, name)] the success path of the edge makes, in order"""
        tgt, h = self.edges[(leaf, ev)]
        return ([('ab', x) for x in h['around']] + [('g', x) for x in h['guards']] + [('u', x) for x in h['unless']]
                + [('b', x) for x in h['before']] + [('a', x) for x in h['after']] + [('aa', x) for x in h['around']])

    def path_to(self, leaf):
        """events leading from the initial state to leaf (BFS), or None"""
        seen = {self.initial: []}
        q = [self.initial]
        while q:
            s = q.pop(0)
            if s == leaf:
                return seen[s]
            for (l, e), (t, _) in self.edges.items():
                if l == s and t not in seen:
                    seen[t] = seen[s] + [e]
                    q.append(t)
        return None


# ---------------------------------------------------------------- K2 machine corpus

def k2_shapes(tier, rnd):
    n = 48 if tier == 'quick' else 400
    shapes = []
    combos = list(itertools.product([False, True], [True, False], [False, True], [0, 1, 2, 3]))
    rnd.shuffle(combos)
    i = 0
    while len(shapes) < n:
        a, dyn, conc, depth = combos[i % len(combos)]
        i += 1
        if not dyn and rnd.random() < 0.5:
            dyn = True        # most machines carry the dynamic wrapper: more properties apply
        shapes.append(smgen.Shape(
            async_=a, dynamic=dyn, concrete=conc, depth=depth,
            nleaves=rnd.randint(2, 5), nevents=rnd.randint(1, 3),
            data=rnd.choice(['none', 'some', 'some', 'all', 'initial']),
            hooks=rnd.choice([0, 1, 2, 2, 3]),
            payload=rnd.choice(['none', 'mixed', 'mixed', 'all'])))
    return shapes


def k2_definitions(tier, seed):
    rnd = random.Random(seed * 7919 + 13)
    defs = list(fixtures())
    for sh in k2_shapes(tier, rnd):
        defs.append(smgen.gen_wellformed(rnd, sh))
    # sync/async twins for C15: the same definition with the async flag flipped
    ntw = 8 if tier == 'quick' else 60
    twins = []
    for i in range(ntw):
        sh = smgen.Shape(async_=True, dynamic=True, concrete=(i % 2 == 0), depth=i % 3,
                         nleaves=rnd.randint(2, 4), nevents=rnd.randint(1, 3), data='some',
                         hooks=rnd.choice([1, 2, 3]), payload='mixed')
        d = smgen.gen_wellformed(rnd, sh)
        ds = [en for en in d if en[0] != 'async']
        twins.append((len(defs), len(defs) + 1))
        defs.append(d)
        defs.append(ds)
    return defs, twins


# ---------------------------------------------------------------- oracle helpers

D = ('-', 0)


def start_ops(mi, rnd, want_dyn=None, ctx=None):
    ctx = ctx if ctx is not None else rnd.randint(1, 9)
    dyn = mi.dynamic if want_dyn is None else (want_dyn and mi.dynamic)
    return ([('dnew', ctx)] if dyn else [('new', mi.initial, ctx)]), dyn


class PL:
    def __init__(self):
        self.n = 10

    def next(self, mi, ev):
        if mi.payload.get(ev):
            self.n += 1
            return self.n
        return None


def call_op(dyn, ev, pl, orc=(), budget=None):
    return ('handle' if dyn else 'typed', ev, pl, list(orc), budget)


def path_ops(mi, leaf, dyn, plc):
    p = mi.path_to(leaf)
    if p is None:
        return None
    return [call_op(dyn, e, plc.next(mi, e)) for e in p]


# ---------------------------------------------------------------- script families


def wide_scripts(mi, rnd):
    """a machine with more than 40 leaves: the whole chain once (every slot looked at after every step), the last state's own
    event, refusals at both ends, writes to the first, the 64th and the last slot, conversions at the far end"""
    if not mi.events:
        return []
    ev0 = mi.events[0]
    n = len(mi.leaves)
    out = []
    for dyn in ([True, False] if mi.dynamic else [False]):
        st, d2 = start_ops(mi, rnd, dyn)
        plc = PL()
        ops = list(st)
        ops.append(call_op(d2, mi.events[-1], plc.next(mi, mi.events[-1])))          # refused at the start (or not: the model says)
        for k in range(n + 1):
            if k in (0, 1, 63, 64, n - 1) and k < len(mi.specs):
                x = mi.specs[min(k, len(mi.specs) - 1)][0]
                ops.append(('set' if d2 else 'tmut', x, 7 + k))
                ops.append(('mut', x, 1))
            ops.append(call_op(d2, ev0, plc.next(mi, ev0)))
        for ev in (mi.events[1:] if len(mi.events) <= 8 else mi.events[-2:]):
            ops.append(call_op(d2, ev, plc.next(mi, ev)))
        ops.append(('drop',))
        out.append(ops)
        if len(mi.events) > 8:
            for ev in (mi.events[1], mi.events[2], mi.events[255], mi.events[256], mi.events[257], mi.events[-2]):
                st, d3 = start_ops(mi, rnd, dyn)
                out.append(list(st) + [call_op(d3, ev, None), call_op(d3, ev0, None), ('drop',)])
    if mi.dynamic:
        plc = PL()
        ops = [('dnew', 3)] + [call_op(True, ev0, plc.next(mi, ev0)) for _ in range(n - 1)]
        last = mi.leaves[-1]
        ops += [('into', mi.leaves[0]), ('into', last), ('tmut', last, 5), ('intodyn',), ('mut', last, 2)]
        for ev in reversed(mi.events):
            ops.append(call_op(True, ev, plc.next(mi, ev)))
        ops.append(('drop',))
        out.append(ops)
    return out


def fam_walk(mi, rnd, tier):
    """every (state, event) pair from a BFS path, then random walks; default oracles"""
    if mi.wide:
        return wide_scripts(mi, rnd)
    out = []
    for dyn in ([True, False] if mi.dynamic else [False]):
        for leaf in mi.leaves:
            for ev in mi.events:
                plc = PL()
                st, d2 = start_ops(mi, rnd, dyn)
                po = path_ops(mi, leaf, d2, plc)
                if po is None:
                    continue
                out.append(st + po + [call_op(d2, ev, plc.next(mi, ev)), call_op(d2, ev, plc.next(mi, ev)), ('drop',)])
    for _ in range((4 if tier == 'quick' else 12) if mi.events else 0):
        plc = PL()
        st, d2 = start_ops(mi, rnd)
        ops = list(st)
        for _ in range(rnd.randint(3, 10)):
            ev = rnd.choice(mi.events)
            ops.append(call_op(d2, ev, plc.next(mi, ev)))
        ops.append(('drop',))
        out.append(ops)
    return out


def fam_guards(mi, rnd, tier):
    """all truth assignments to the conditions of an edge"""
    if mi.wide:
        return wide_scripts(mi, rnd) if 'fam_guards' in ('fam_data', 'fam_conv') else []
    if not mi.events:
        return []
    out = []
    maxn = 5 if tier == 'quick' else 8
    edges = [k for k in mi.edges if any(c[0] in ('g', 'u') for c in mi.calls(*k))]
    rnd.shuffle(edges)
    for (leaf, ev) in edges[: (2 if tier == 'quick' else 6)]:
        calls = mi.calls(leaf, ev)
        nab = len([c for c in calls if c[0] == 'ab'])
        conds = [c for c in calls if c[0] in ('g', 'u')]
        if len(conds) > maxn:
            # too many for the full table: everything passes, each single condition blocks, and a random sample
            n = len(conds)
            passing = ['t' if c[0] == 'g' else 'f' for c in conds]
            table = [tuple(passing)]
            for i in range(n):
                row = list(passing)
                row[i] = 'f' if conds[i][0] == 'g' else 't'
                table.append(tuple(row))
            for _ in range(12):
                table.append(tuple(rnd.choice('tf') for _ in range(n)))
        else:
            table = list(itertools.product('tf', repeat=len(conds)))
        for dyn in ([True, False] if mi.dynamic else [False]):
            for bits in table:
                plc = PL()
                st, d2 = start_ops(mi, rnd, dyn)
                po = path_ops(mi, leaf, d2, plc)
                if po is None:
                    break
                orc = [D] * nab + [(b, 0) for b in bits]
                out.append(st + po + [call_op(d2, ev, plc.next(mi, ev), orc), ('drop',)])
    return out


def rand_answer(rnd, kind, p_block=0.25):
    r = rnd.random()
    if kind in ('g',):
        return ('f', 0) if r < p_block else (('t', 0) if r < 0.5 else D)
    if kind == 'u':
        return ('t', 0) if r < p_block else (('f', 0) if r < 0.5 else D)
    if kind in ('ab',):
        if r < p_block:
            return (rnd.choice([('Ag', 'veto_g'), ('Aa', 'veto_a'), 'Ai']), 0)
        return D
    return D


def fam_refuse(mi, rnd, tier):
    """histories with data modifications and refusals at every position"""
    if mi.wide:
        return wide_scripts(mi, rnd) if 'fam_refuse' in ('fam_data', 'fam_conv') else []
    if not mi.events:
        return []
    out = []
    for _ in range(6 if tier == 'quick' else 20):
        plc = PL()
        st, dyn = start_ops(mi, rnd)
        ops = list(st)
        cur = mi.initial
        for step in range(rnd.randint(3, 8)):
            if mi.specs and rnd.random() < 0.4:
                x = rnd.choice(mi.specs)[0]
                ops.append((rnd.choice(['mut', 'set'] if dyn else ['mut', 'tmut']), x, rnd.randint(1, 99)))
            ev = rnd.choice(mi.events)
            pl = plc.next(mi, ev)
            if (cur, ev) in mi.edges:
                calls = mi.calls(cur, ev)
                blockable = [i for i, c in enumerate(calls) if c[0] in ('ab', 'g', 'u')]
                if blockable and rnd.random() < 0.6:
                    i = rnd.choice(blockable)
                    k = calls[i][0]
                    blk = ('f', 0) if k == 'g' else (('t', 0) if k == 'u' else (rnd.choice([('Ag', 'veto_g'), ('Aa', 'veto_a'), 'Ai']), 0))
                    ops.append(call_op(dyn, ev, pl, [D] * i + [blk]))
                    # retry with a permissive oracle
                    if rnd.random() < 0.7:
                        pl2 = plc.next(mi, ev)
                        ops.append(call_op(dyn, ev, pl2))
                        cur = mi.edges[(cur, ev)][0]
                else:
                    ops.append(call_op(dyn, ev, pl))
                    cur = mi.edges[(cur, ev)][0]
            else:
                ops.append(call_op(dyn, ev, pl))
        ops.append(('drop',))
        out.append(ops)
    # directed: data owned by a superstate, written through the dynamic setter, must survive a refused move between two
    # of its leaves (and the refusal must leave every slot as it was)
    if mi.dynamic:
        done = 0
        for (x, _ty) in mi.specs:
            if x not in mi.supers:
                continue
            inside = set(mi.under(x))
            for (leaf, ev), (tgt, _hooks) in sorted(mi.edges.items()):
                if leaf not in inside or tgt not in inside or done >= (4 if tier == 'quick' else 16):
                    continue
                calls = mi.calls(leaf, ev)
                blockable = [i for i, c in enumerate(calls) if c[0] in ('ab', 'g', 'u')]
                if not blockable:
                    continue
                plc = PL()
                st, d2 = start_ops(mi, rnd, True)
                po = path_ops(mi, leaf, d2, plc)
                if po is None:
                    continue
                i = blockable[-1]
                k = calls[i][0]
                blk = ('f', 0) if k == 'g' else (('t', 0) if k == 'u' else (('Ag', 'veto_g'), 0))
                out.append(st + po + [('set', x, 41), ('mut', x, 1), call_op(d2, ev, plc.next(mi, ev), [D] * i + [blk]),
                                      ('mut', x, 1), call_op(d2, ev, plc.next(mi, ev)), ('mut', x, 1), ('drop',)])
                done += 1
    return out


def fam_around(mi, rnd, tier):
    """abort at every around position, every kind, both stages"""
    if mi.wide:
        return wide_scripts(mi, rnd) if 'fam_around' in ('fam_data', 'fam_conv') else []
    if not mi.events:
        return []
    out = []
    edges = [k for k in mi.edges if any(c[0] == 'ab' for c in mi.calls(*k))]
    rnd.shuffle(edges)
    for (leaf, ev) in edges[: (3 if tier == 'quick' else 10)]:
        calls = mi.calls(leaf, ev)
        for i, c in enumerate(calls):
            if c[0] not in ('ab', 'aa'):
                continue
            for kind in [('Ag', 'veto_g'), ('Aa', 'veto_a'), 'Ai', ('Ag', ''), ('Aa', '')]:
                for dyn in ([True, False] if mi.dynamic else [False]):
                    plc = PL()
                    st, d2 = start_ops(mi, rnd, dyn)
                    po = path_ops(mi, leaf, d2, plc)
                    if po is None:
                        continue
                    out.append(st + po + [call_op(d2, ev, plc.next(mi, ev), [D] * i + [(kind, 0)]),
                                          call_op(d2, ev, plc.next(mi, ev)), ('drop',)])
    return out


def fam_data(mi, rnd, tier):
    """set / mutate / read / transition sequences, typed and dynamic, with conversions"""
    if mi.wide:
        return wide_scripts(mi, rnd) if 'fam_data' in ('fam_data', 'fam_conv') else []
    out = []
    if not mi.specs:
        return out
    # the accessor matrix: from every reachable leaf, every setter / mutable accessor / read, dynamic and typed
    def specs_at(leaf):
        # machines with very many data states: the leaf's own slot, the first and last ones and a sample of the others
        if len(mi.specs) <= 24:
            return mi.specs
        keep = [sp for sp in mi.specs if sp[0] == leaf] + mi.specs[:2] + mi.specs[-2:] + rnd.sample(mi.specs, 4)
        return list(dict.fromkeys(keep))
    for leaf in mi.leaves:
        for dyn0 in ([True, False] if mi.dynamic else [False]):
            plc = PL()
            st, d2 = start_ops(mi, rnd, dyn0)
            po = path_ops(mi, leaf, d2, plc)
            if po is None:
                continue
            ops = st + po
            here = specs_at(leaf)
            for (x, _) in here:
                ops.append(('set' if d2 else 'tmut', x, rnd.randint(1, 99)))
                ops.append(('mut', x, rnd.randint(1, 99)))
            if mi.dynamic and d2:
                ops.append(('into', leaf))
                for (x, _) in here:
                    ops.append(('tmut', x, 3))
                ops.append(('intodyn',))
            for ev in mi.events[:2]:
                ops.append(call_op(d2 or mi.dynamic, ev, plc.next(mi, ev)))
            ops.append(('drop',))
            out.append(ops)
    for _ in range((8 if tier == 'quick' else 30) if mi.events else 0):
        plc = PL()
        st, dyn = start_ops(mi, rnd)
        ops = list(st)
        for step in range(rnd.randint(4, 12)):
            r = rnd.random()
            x = rnd.choice(mi.specs)[0]
            if r < 0.3:
                ops.append(('set' if dyn else 'tmut', x, rnd.randint(1, 99)))
            elif r < 0.5:
                ops.append(('mut', x, rnd.randint(1, 99)))
            elif r < 0.85:
                ev = rnd.choice(mi.events)
                orc = []
                if rnd.random() < 0.2:
                    orc = [('f', 0)]
                ops.append(call_op(dyn, ev, plc.next(mi, ev), orc))
            elif mi.dynamic:
                if dyn:
                    ops.append(('into', rnd.choice(mi.leaves)))
                    # the conversion may or may not succeed; the following ops adapt by being valid for both
                    ops.append(('tmut', x, rnd.randint(1, 99)))
                    ops.append(('intodyn',))
                else:
                    ops.append(('intodyn',))
                    dyn = True
        ops.append(('drop',))
        out.append(ops)
    return out


def fam_pair(mi, rnd, tier):
    """the same configuration, event and hook behaviour through handle() and through the typed method.
    returns scripts in (dynamic, typed) pairs: out[2k], out[2k+1]"""
    if mi.wide:
        return wide_scripts(mi, rnd) if 'fam_pair' in ('fam_data', 'fam_conv') else []
    if not mi.events:
        return []
    out = []
    if not mi.dynamic:
        return out
    pairs = [(l, e) for l in mi.leaves for e in mi.events]
    rnd.shuffle(pairs)
    fixed = mi.idx < len(fixtures())     # the fixtures are compared on every (leaf, event) pair, the others on a sample
    own = dict(mi.specs)
    for (leaf, ev) in (pairs if fixed else pairs[: (8 if tier == 'quick' else 30)]):
        for rep_i in range(1 if fixed and tier == 'quick' else (2 if tier == 'quick' else 4)):
            ctx = rnd.randint(1, 9)
            plc = PL()
            po = path_ops(mi, leaf, True, plc)
            if po is None:
                continue
            pre = [('dnew', ctx)] + po
            if leaf in own and (fixed or rnd.random() < 0.5):
                pre.append(('mut', leaf, rnd.randint(1, 99)))       # the current leaf's own data differs from its default
            elif mi.specs and rnd.random() < 0.5:
                pre.append(('mut', rnd.choice(mi.specs)[0], rnd.randint(1, 99)))
            pl = plc.next(mi, ev)
            if (leaf, ev) in mi.edges:
                orc = [rand_answer(rnd, c[0], 0.2) for c in mi.calls(leaf, ev)]
            else:
                orc = []
            a = pre + [('handle', ev, pl, orc, None), ('into', leaf), ('drop',)]
            b = pre + [('into', leaf), ('typed', ev, pl, orc, None), ('drop',)]
            out.append(a)
            out.append(b)
    return out


def fam_conv(mi, rnd, tier):
    if mi.wide:
        return wide_scripts(mi, rnd) if 'fam_conv' in ('fam_data', 'fam_conv') else []
    out = []
    if not mi.dynamic:
        return out
    for leaf in mi.leaves:
        plc = PL()
        po = path_ops(mi, leaf, True, plc)
        if po is None:
            continue
        ops = [('dnew', rnd.randint(1, 9))] + po
        for (x, _) in (mi.specs if len(mi.specs) <= 24 else [sp for sp in mi.specs if sp[0] == leaf] + mi.specs[:2] + mi.specs[-2:]):
            ops.append(('set', x, rnd.randint(1, 99)))     # make every live slot (leaf and superstate data) differ from its default
        order = list(mi.leaves)
        rnd.shuffle(order)
        for s in order:
            ops.append(('into', s))
            if s == leaf:
                ops.append(('intodyn',))
        ops.append(('into', leaf))
        ops.append(('intodyn',))
        ops.append(('into', leaf))
        for ev in mi.events[:2]:
            ops.append(('typed', ev, plc.next(mi, ev), [], None))
            break
        ops.append(('intodyn',))
        for ev in mi.events[:2]:
            ops.append(('handle', ev, plc.next(mi, ev), [], None))
        ops.append(('drop',))
        out.append(ops)
    # Default vs new(Default::default()): same observations, ctx id 0
    for mk in (('ddefault',), ('dnew', 0)):
        plc = PL()
        ops = [mk]
        for ev in mi.events:
            ops.append(('handle', ev, plc.next(mi, ev), [], None))
        ops.append(('drop',))
        out.append(ops)
    return out


def fam_async(mi, rnd, tier):
    """random walks with random suspension counts per hook (async machines)"""
    if mi.wide:
        return wide_scripts(mi, rnd) if 'fam_async' in ('fam_data', 'fam_conv') else []
    if not mi.events:
        return []
    out = []
    for _ in range(6 if tier == 'quick' else 20):
        plc = PL()
        st, dyn = start_ops(mi, rnd)
        ops = list(st)
        cur = mi.initial
        for _ in range(rnd.randint(2, 7)):
            ev = rnd.choice(mi.events)
            if (cur, ev) in mi.edges:
                orc = []
                for c in mi.calls(cur, ev):
                    v, _ = rand_answer(rnd, c[0], 0.1)
                    orc.append((v, rnd.choice([0, 0, 1, 2, 3])))
                ops.append(call_op(dyn, ev, plc.next(mi, ev), orc))
            else:
                ops.append(call_op(dyn, ev, plc.next(mi, ev)))
            # follow the harness-side reading only when nothing blocked; otherwise stay (aim only)
            if (cur, ev) in mi.edges and all((a[0] == '-' ) for a in ops[-1][3]):
                cur = mi.edges[(cur, ev)][0]
        ops.append(('drop',))
        out.append(ops)
    return out


def fam_abandon(mi, rnd, tier):
    """a hook panics / the future is dropped at a suspension point, then every public operation"""
    if mi.wide:
        return wide_scripts(mi, rnd) if 'fam_abandon' in ('fam_data', 'fam_conv') else []
    if not mi.events:
        return []
    out = []
    if not mi.dynamic:
        return out
    edges = [k for k in mi.edges if mi.calls(*k)]
    rnd.shuffle(edges)

    def followups(plc):
        f = []
        for ev in mi.events[:2]:
            f.append(('handle', ev, plc.next(mi, ev), [], None))
        for (x, _) in mi.specs[:2]:
            f.append(('set', x, 5))
            f.append(('mut', x, 6))
        for s in mi.leaves:
            f.append(('into', s))
        f.append(('drop',))
        return f
    for (leaf, ev) in edges[: (3 if tier == 'quick' else 10)]:
        calls = mi.calls(leaf, ev)
        for i in range(len(calls)):
            plc = PL()
            po = path_ops(mi, leaf, True, plc)
            if po is None:
                break
            susp = rnd.choice([0, 1, 2]) if mi.is_async else 0
            ops = [('dnew', rnd.randint(1, 9))] + po + [('handle', ev, plc.next(mi, ev), [D] * i + [('X', susp)], None)]
            out.append(ops + followups(plc))
        if mi.is_async:
            total = 0
            orc = []
            for c in calls:
                k = rnd.choice([0, 1, 2])
                total += k
                orc.append(('-', k))
            for b in range(1, total + 2):
                plc = PL()
                po = path_ops(mi, leaf, True, plc)
                if po is None:
                    break
                ops = [('dnew', rnd.randint(1, 9))] + po + [('handle', ev, plc.next(mi, ev), orc, b)]
                out.append(ops + followups(plc))
    # a wrapper made by Default::default() was never part of an abandoned call: it is as usable as one made by new()
    plc = PL()
    out.append([('ddefault',)] + followups(plc))
    # a future that is never polled has no effect: the wrapper is as it was (handle borrows it), the typed machine is gone
    if mi.is_async:
        for (leaf, ev) in edges[: (3 if tier == 'quick' else 10)]:
            plc = PL()
            po = path_ops(mi, leaf, True, plc)
            if po is None:
                continue
            out.append([('dnew', rnd.randint(1, 9))] + po + [('unpolled', ev, plc.next(mi, ev)), ('unpolled', ev, plc.next(mi, ev))] + followups(plc))
            plc = PL()
            out.append([('dnew', rnd.randint(1, 9))] + path_ops(mi, leaf, True, plc) + [('into', leaf), ('unpolled', ev, plc.next(mi, ev)), ('drop',)])
    # typed abandonment (no wrapper): the machine is simply gone
    for (leaf, ev) in edges[:2]:
        calls = mi.calls(leaf, ev)
        for i in range(len(calls)):
            plc = PL()
            po = path_ops(mi, leaf, False, plc)
            if po is None:
                break
            out.append([('new', mi.initial, rnd.randint(1, 9))] + po +
                       [('typed', ev, plc.next(mi, ev), [D] * i + [('X', 0)], None), ('drop',)])
    return out


FAMILIES = {
    'walk': fam_walk, 'guards': fam_guards, 'refuse': fam_refuse, 'around': fam_around,
    'data': fam_data, 'pair': fam_pair, 'conv': fam_conv, 'async': fam_async, 'abandon': fam_abandon,
}


# ---------------------------------------------------------------- rule-violating edits (C13)

NON_SNAKE = ['Go', 'goNow', 'GO', 'go_', '_go', 'go__now', 'Go_now', 'go_Now', 'g0_X', 'HTTPRequest', 'enterHalfOpen',
             'X', 'a_B', 'tick_', '__x', 'a__1', 'Stop', 'setThrust', 'IO_done', 'next_']


def _map_forest(items, f):
    """rebuild a forest; f(item, depth) returns a list of replacement items"""
    def go(items, depth):
        out = []
        for it in items:
            if it[0] == 'super':
                it = ('super', it[1], it[2], go(it[3], depth + 1))
            out.extend(f(it, depth))
        return out
    return go(items, 0)


def _set(d, key, val):
    return [(key, val) if en[0] == key else en for en in d]


def _events(d):
    return smgen.get(d, 'events') or []


def mutants(rnd, d):
    """[(rule class, mutated definition)] -- each violates exactly one rule of C13"""
    out = []
    forest = smgen.get(d, 'states')
    leaves = smgen.leaves_of(forest)
    supers = smgen.supers_of(forest)
    evs = _events(d)
    fresh = 'Zq9'
    # 1 missing sections
    for k in ('name', 'initial', 'states'):
        out.append(('missing_' + k, [en for en in d if en[0] != k]))
    out.append(('missing_everything', []))       # `state_machine! {}`
    if evs:
        for (lvl, key) in (('t', 'payload'), ('t', 'transition'), ('t', 'initial'), ('e', 'from'), ('e', 'to'), ('e', 'states'), ('e', 'initial')):
            ne = [(n, list(es)) for (n, es) in evs]
            i = rnd.randrange(len(ne))
            if lvl == 'e':
                ne[i][1].insert(rnd.randint(0, len(ne[i][1])), ('unknown', key))
                out.append(('misplaced_key_event_' + key, _set(d, 'events', ne)))
            else:
                trs = [j for j, e in enumerate(ne[i][1]) if e[0] == 'transition']
                if trs:
                    j = rnd.choice(trs)
                    t = list(ne[i][1][j][1])
                    t.insert(rnd.randint(0, len(t)), ('unknown', key))
                    ne[i][1][j] = ('transition', t)
                    out.append(('misplaced_key_transition_' + key, _set(d, 'events', ne)))
        for key in ('guards', 'payload', 'from', 'transition'):
            nd = list(d)
            nd.insert(rnd.randint(0, len(nd)), ('unknown', key))
            out.append(('misplaced_key_top_' + key, nd))
    # 2 unknown keys at four levels
    pos = rnd.randint(0, len(d))
    out.append(('unknown_top', d[:pos] + [('unknown', 'frobnicate')] + d[pos:]))
    if supers:
        g = rnd.choice(supers)
        out.append(('unknown_block', _set(d, 'states', _map_forest(
            forest, lambda it, dp: [('super', it[1], it[2], it[3] + [('unknown', 'frob')])] if it[0] == 'super' and it[1] == g else [it]))))
    if evs:
        ei = rnd.randrange(len(evs))
        ne = list(evs)
        body = list(ne[ei][1])
        body.insert(rnd.randint(0, len(body)), ('unknown', 'frob'))
        ne[ei] = (ne[ei][0], body)
        out.append(('unknown_event', _set(d, 'events', ne)))
        cands = [(i, j) for i, (n, es) in enumerate(evs) for j, e in enumerate(es) if e[0] == 'transition']
        if cands:
            i, j = rnd.choice(cands)
            ne = [(n, list(es)) for (n, es) in evs]
            t = list(ne[i][1][j][1])
            t.insert(rnd.randint(0, len(t)), ('unknown', 'frob'))
            ne[i][1][j] = ('transition', t)
            out.append(('unknown_transition', _set(d, 'events', ne)))
    # 3 duplicate names: leaf/leaf, superstate/superstate, leaf/superstate both ways, at top and nested
    x = rnd.choice(leaves)
    out.append(('dup_leaf_top', _set(d, 'states', forest + [('leaf', x, None)])))
    out.append(('dup_leaf_front', _set(d, 'states', [('leaf', x, None)] + forest)))
    if supers:
        g = rnd.choice(supers)
        h = rnd.choice(supers)
        out.append(('dup_leaf_nested', _set(d, 'states', _map_forest(
            forest, lambda it, dp: [('super', it[1], it[2], it[3] + [('leaf', x, None)])] if it[0] == 'super' and it[1] == g else [it]))))
        out.append(('dup_super_top', _set(d, 'states', forest + [('super', g, None, [('leaf', fresh, None)])])))
        out.append(('dup_super_front', _set(d, 'states', [('super', g, None, [('leaf', fresh, None)])] + forest)))
        out.append(('dup_super_nested', _set(d, 'states', _map_forest(
            forest, lambda it, dp: [('super', it[1], it[2], it[3] + [('super', g, None, [('leaf', fresh, None)])])] if it[0] == 'super' and it[1] == h else [it]))))
        out.append(('leaf_named_like_super', _set(d, 'states', forest + [('leaf', g, None)])))
        out.append(('leaf_named_like_super_front', _set(d, 'states', [('leaf', g, None)] + forest)))
    out.append(('super_named_like_leaf', _set(d, 'states', forest + [('super', x, None, [('leaf', fresh, None)])])))
    out.append(('super_named_like_leaf_front', _set(d, 'states', [('super', x, None, [('leaf', fresh, None)])] + forest)))
    # 4 initial
    out.append(('initial_undeclared', _set(d, 'initial', fresh)))
    if supers:
        out.append(('initial_is_super', _set(d, 'initial', rnd.choice(supers))))
    # 5 empty superstate at top and nested (also one that only holds an empty one)
    out.append(('empty_super_top', _set(d, 'states', forest + [('super', 'Emp', None, [])])))
    out.append(('empty_super_init_only', _set(d, 'states', forest + [('super', 'Emp', None, [('initial', x)])])))
    if supers:
        g = rnd.choice(supers)
        out.append(('empty_super_nested', _set(d, 'states', _map_forest(
            forest, lambda it, dp: [('super', it[1], it[2], it[3] + [('super', 'Emp', None, [])])] if it[0] == 'super' and it[1] == g else [it]))))
    out.append(('empty_super_chain', _set(d, 'states', forest + [('super', 'Emp', None, [('super', 'Emp2', None, [])])])))
    # 6 superstate initial outside its descendants / naming a nested superstate / undeclared
    if supers:
        g = rnd.choice(supers)
        inside = None
        for it in _flatten_supers(forest):
            if it[1] == g:
                inside = smgen.leaves_of(it[3])
                nested = smgen.supers_of(it[3])
        outside = [l for l in leaves if l not in inside]
        def put_init(name):
            return _set(d, 'states', _map_forest(
                forest, lambda it, dp: [('super', it[1], it[2], [c for c in it[3] if c[0] != 'initial'] + [('initial', name)])] if it[0] == 'super' and it[1] == g else [it]))
        if outside:
            out.append(('super_initial_outside', put_init(rnd.choice(outside))))
        out.append(('super_initial_undeclared', put_init(fresh)))
        if nested:
            out.append(('super_initial_is_nested_super', put_init(rnd.choice(nested))))
        out.append(('super_initial_is_self', put_init(g)))
    # 7 non-snake event names
    if evs:
        for bad in rnd.sample(NON_SNAKE, 4):
            ei = rnd.randrange(len(evs))
            ne = list(evs)
            ne[ei] = (bad, ne[ei][1])
            out.append(('event_not_snake', _set(d, 'events', ne)))
        # 8 event without transitions
        ei = rnd.randrange(len(evs))
        ne = list(evs)
        ne[ei] = (ne[ei][0], [e for e in ne[ei][1] if e[0] != 'transition'])
        out.append(('event_no_transition', _set(d, 'events', ne)))
        out.append(('event_no_transition_extra', _set(d, 'events', evs + [('lonely', [])])))
        out.append(('event_no_transition_same_name', _set(d, 'events', evs + [(evs[rnd.randrange(len(evs))][0], [])])))
        out.append(('event_no_transition_same_name_first', _set(d, 'events', [(evs[rnd.randrange(len(evs))][0], [])] + evs)))
        # 9 / 10 transition defects
        cands = [(i, j) for i, (n, es) in enumerate(evs) for j, e in enumerate(es) if e[0] == 'transition']
        if cands:
            def edit_tr(fn, label):
                i, j = rnd.choice(cands)
                ne = [(n, list(es)) for (n, es) in evs]
                ne[i][1][j] = ('transition', fn(list(ne[i][1][j][1])))
                out.append((label, _set(d, 'events', ne)))
            edit_tr(lambda t: [x for x in t if x[0] != 'from'], 'transition_no_from')
            edit_tr(lambda t: [x for x in t if x[0] != 'to'], 'transition_no_to')
            edit_tr(lambda t: [('from', []) if x[0] == 'from' else x for x in t], 'transition_empty_from')
            edit_tr(lambda t: [('from', x[1] + [fresh]) if x[0] == 'from' else x for x in t], 'source_undeclared')
            edit_tr(lambda t: [('from', [fresh]) if x[0] == 'from' else x for x in t], 'source_undeclared_only')
            if supers:
                g2 = rnd.choice(supers)
                # replacing the list keeps the definition deterministic only by luck; the verdict is what matters here
                edit_tr(lambda t: [('from', [g2, fresh]) if x[0] == 'from' else x for x in t], 'source_undeclared_after_superstate')
                edit_tr(lambda t: [('from', [fresh, g2]) if x[0] == 'from' else x for x in t], 'source_undeclared_before_superstate')
            edit_tr(lambda t: [('to', fresh) if x[0] == 'to' else x for x in t], 'target_undeclared')
            edit_tr(lambda t: [('from', ['r#' + x[1][0]] + list(x[1][1:])) if (x[0] == 'from' and x[1]) else x for x in t], 'source_raw_spelling')
            edit_tr(lambda t: [('to', 'r#' + x[1]) if x[0] == 'to' else x for x in t], 'target_raw_spelling')
    return out


def _flatten_supers(items):
    out = []
    for it in items:
        if it[0] == 'super':
            out.append(it)
            out.extend(_flatten_supers(it[3]))
    return out


def ambiguous_mutants(rnd, d):
    """two transitions of one event applicable to the same leaf: directly, through a superstate,
    through nested superstates.  The front end accepts these; rustc must reject the expansion."""
    out = []
    forest = smgen.get(d, 'states')
    leaves = smgen.leaves_of(forest)
    evs = _events(d)
    if not evs:
        return out
    mi_under = {}
    for it in _flatten_supers(forest):
        mi_under[it[1]] = smgen.leaves_of(it[3])
    ei = rnd.randrange(len(evs))
    n, es = evs[ei]
    trs = [e for e in es if e[0] == 'transition']
    if not trs:
        return out
    src = None
    for t in trs[0][1]:
        if t[0] == 'from':
            src = t[1]
    if not src:
        return out
    s0 = src[0]
    leaf = mi_under[s0][0] if s0 in mi_under else s0
    tgt = rnd.choice(leaves)

    def add(tr, label):
        ne = list(evs)
        ne[ei] = (n, es + [('transition', tr)])
        out.append((label, _set(d, 'events', ne)))
    add([('from', [leaf]), ('to', tgt)], 'ambiguous_direct')
    add([('from', [leaf, leaf]), ('to', tgt)], 'ambiguous_repeated_source')
    for g, lv in mi_under.items():
        if leaf in lv:
            add([('from', [g]), ('to', tgt)], 'ambiguous_via_superstate')
    return out


# ---------------------------------------------------------------- fixed fixtures (always part of the K2 corpus, whatever the seed)
# Each one packs shapes that a specific kind of defect needs in order to manifest (see seeded/*/meta.json).

def _tr(src, to, **hooks):
    t = [('from', list(src)), ('to', to)]
    for k, v in hooks.items():
        t.append(('list', k, list(v)))
    return ('transition', t)


def _ev(name, *body, payload=None, **hooks):
    es = []
    if payload:
        es.append(('payload', payload))
    for k, v in hooks.items():
        es.append(('list', k, list(v)))
    es.extend(body)
    return (name, es)


def fixtures():
    out = []
    for (is_async, concrete) in [(False, False), (True, True), (True, False), (False, True)]:
        tag = ('a' if is_async else 's') + ('c' if concrete else 'g')
        forest = [
            ('leaf', 'Idle', 'D0'),
            ('super', 'Outer', None, [
                ('super', 'Inner', None, [('initial', 'InFlight'), ('leaf', 'InFlight', 'D1'), ('leaf', 'Slow', None), ('initial', 'Slow')]),
                ('leaf', 'Cooldown', 'D2'),
                ('super', 'Deep', None, [('super', 'Mid', None, [('super', 'Deeper', None, [('leaf', 'X1', None)])]), ('leaf', 'Zed', None)]),
            ]),
            ('leaf', 'Done', None),
            ('leaf', 'Flight', 'D3'),      # `InFlight` ends in `_flight`: slot selection must go by state, not by name suffix
        ]
        pl = 'P'
        evs = [
            # superstate target without initial whose first entry is a nested superstate; multi-source with
            # transition-level conditions; hooks of every kind at both levels; payload
            _ev('start', _tr(['Idle', 'Done'], 'Outer', guards=['gt1'], unless=['ut1'], before=['bt1'], after=['at1'], around=['wt1']),
                payload=pl, guards=['ge1', 'fuelOK'], unless=['ue1'], before=['be1'], after=['ae1'], around=['we1']),
            # the same hooks at event and at transition level
            _ev('reset', _tr(['Done'], 'Idle', guards=['gr1'], unless=['ur1'], before=['br1'], around=['wr1']), guards=['gr1', 'gr2'], unless=['ur1'], before=['br1'], around=['wr1']),
            # outer superstate as a source from deep leaves; two transitions, hooks only on the first
            _ev('stop', _tr(['Inner'], 'Idle', guards=['gs1'], after=['as1']), _tr(['Cooldown', 'Deep'], 'Done')),
            # self-loops on data states, directly and through a superstate source
            _ev('tick', _tr(['Inner'], 'InFlight', unless=['uk1']), _tr(['Idle'], 'Idle', before=['bk1'], around=['wk1'], unless=['uk2'])),
            # a second event between the same pair of states as `stop`
            _ev('time_out', _tr(['Cooldown'], 'Done'), _tr(['Slow'], 'Idle')),
            # event name with a digit-led word and single letters
            _ev('go_2_x', _tr(['Outer'], 'Deep', around=['wg1', 'wg2']), payload=pl, guards=['gg2', 'gg1']),
            _ev('enable_2fa', _tr(['Done'], 'Inner')),
            _ev('land', _tr(['Inner', 'Done'], 'Flight'), _tr(['Flight'], 'Inner', after=['al1'])),
            # a self-loop on a data state without any hook or payload (nothing but the state change itself to observe)
            _ev('hold', _tr(['Cooldown'], 'Cooldown')),
        ]
        d = [('name', 'M'), ('initial', 'Idle')]
        if concrete:
            d.append(('context', 'Ctx'))
        if is_async:
            d.append(('async', True))
        d.append(('dynamic', True))
        d.append(('states', forest))
        d.append(('events', evs))
        if concrete:
            # the same definition with its sections in another order: `events` and `states` before `initial`
            d = [en for en in d if en[0] in ('events', 'states')] + [en for en in d if en[0] not in ('events', 'states')]
        out.append(d)
    # typestate-only twin of the first fixture
    d0 = [en for en in out[0] if en[0] != 'dynamic']
    out.append(d0)
    # superstate-level data (outside the quantifier of C08/C11, but part of the generated API): modelled faithfully
    def with_super_data(items):
        res = []
        for it in items:
            if it[0] == 'super':
                res.append(('super', it[1], {'Inner': 'D3', 'Outer': 'D2'}.get(it[1], it[2]), with_super_data(it[3])))
            else:
                res.append(it)
        return res
    out.append([('states', with_super_data(en[1])) if en[0] == 'states' else en for en in out[0]])
    # the dynamic API without any event: no `events` key, and an empty `events {}` block
    out.append([('name', 'M'), ('initial', 'A'), ('dynamic', True), ('states', [('leaf', 'A', 'D0'), ('leaf', 'B', None)])])
    out.append([('name', 'M'), ('initial', 'A'), ('context', 'Ctx'), ('dynamic', True), ('states', [('leaf', 'A', None)]), ('events', [])])
    # typestate-only: one event declared in two blocks with their own event-level hooks (legal without the dynamic
    # wrapper), transition-level lists spelled out empty, a data type that is a reference, the legacy `action:` key
    out.append([('name', 'M'), ('initial', 'Closed'), ('legacy', 'action'),
                ('states', [('leaf', 'Closed', None), ('leaf', 'Open', "&'static str"), ('leaf', 'Locked', 'D1')]),
                ('events', [_ev('toggle', _tr(['Closed'], 'Open', guards=['tg1']), guards=['eg1'], before=['eb1'], around=['ew1']),
                            _ev('lock', _tr(['Closed', 'Open'], 'Locked', guards=[], unless=[], before=[]), guards=['lg1'], unless=['lu1']),
                            _ev('toggle', _tr(['Open'], 'Closed', unless=['tu2']), _tr(['Locked'], 'Open'),
                                guards=['eg2'], unless=['eu2'], after=['ea2'], around=['ew2']),
                            _ev('unlock', _tr(['Locked'], 'Closed', around=[]), around=['uw1'])])])
    # the same shape with the dynamic wrapper (distinct event names), for the accessors and setters of the borrowed data
    out.append([('name', 'M'), ('initial', 'Closed'), ('dynamic', True), ('legacy', 'callbacks'),
                ('states', [('leaf', 'Closed', None), ('leaf', 'Open', "&'static str"), ('leaf', 'Locked', 'D1')]),
                ('events', [_ev('open', _tr(['Closed'], 'Open', guards=['tg1']), guards=['eg1']),
                            _ev('lock', _tr(['Closed', 'Open'], 'Locked', guards=[], unless=[]), guards=['lg1'], unless=['lu1']),
                            _ev('shut', _tr(['Open'], 'Closed', unless=['tu2']), _tr(['Locked'], 'Open')),
                            _ev('stay', _tr(['Open'], 'Open'))])])
    # sizes beyond what the random shapes reach: twelve leaves, five nesting levels, nine events, an edge with six
    # guards, five unless-conditions, five before, five after and five around callbacks spread over both levels
    big_forest = [
        ('leaf', 'G1', 'D0'), ('leaf', 'H1', None),
        ('super', 'L1', None, [
            ('leaf', 'A1', None),
            ('super', 'L2', None, [
                ('leaf', 'B1', 'D1'),
                ('super', 'L3', None, [
                    ('leaf', 'C1', None),
                    ('super', 'L4', None, [('initial', 'E1'), ('leaf', 'D1x', None), ('leaf', 'E1', 'D2'),
                                           ('super', 'L5', None, [('leaf', 'F1', None), ('leaf', 'F2', 'D3')])])])]),
            ('leaf', 'A2', None)]),
        ('leaf', 'I1', None), ('leaf', 'J1', None), ('leaf', 'K1', None)]
    big_events = [
        _ev('big', _tr(['G1', 'L3'], 'L4', guards=['bg6', 'bg7', 'bg8', 'bg9'], unless=['bu6', 'bu7', 'bu8', 'bu9'], before=['bb5', 'bb6', 'bb7'], after=['ba5', 'ba6'], around=['bw5', 'bw6', 'bw7']),
            payload='P', guards=['bg1', 'bg2', 'bg3', 'bg4', 'bg5'], unless=['bu1', 'bu2', 'bu3', 'bu4', 'bu5'], before=['bb1', 'bb2', 'bb3', 'bb4'],
            after=['ba1', 'ba2', 'ba3', 'ba4'], around=['bw1', 'bw2', 'bw3', 'bw4']),
        _ev('e1', _tr(['G1'], 'H1')), _ev('e2', _tr(['H1'], 'I1')), _ev('e3', _tr(['I1'], 'J1')), _ev('e4', _tr(['J1'], 'K1')),
        _ev('e5', _tr(['K1'], 'L1')), _ev('e6', _tr(['L1'], 'G1')), _ev('e7', _tr(['L5'], 'A2'), _tr(['A2', 'B1'], 'L5')),
        _ev('e8', _tr(['L2'], 'L2', guards=['sg1'])),
    ]
    for (is_async, concrete) in ((False, False), (True, True)):
        d = [('name', 'M'), ('initial', 'G1')] + ([('context', 'Ctx')] if concrete else []) + ([('async', True)] if is_async else []) + \
            [('dynamic', True), ('states', big_forest), ('events', big_events)]
        out.append(d)
    # more than 256 (state, event) edges: eighteen leaves under one superstate, fifteen events from the superstate, one from a leaf
    many = ['N%d' % i for i in range(18)]
    out.append([('name', 'M'), ('initial', 'N0'), ('dynamic', True),
                ('states', [('super', 'All_', None, [('leaf', x, 'D2' if x == 'N3' else None) for x in many])]),
                ('events', [_ev('v%d' % k, _tr(['All_'], many[(3 * k + 1) % 18])) for k in range(15)] + [_ev('only0', _tr(['N0'], 'N17'))])])
    # more than 64 leaves, each with its own data slot (the initial one too): a chain, a 65-source list, one event from the last
    wide = ['W%d' % i for i in range(66)]
    out.append([('name', 'M'), ('initial', 'W0'), ('dynamic', True),
                ('states', [('leaf', x, 'D%d' % (i % 4)) for i, x in enumerate(wide)]),
                ('events', [('step', [('transition', [('from', [wide[i]]), ('to', wide[(i + 1) % 66])]) for i in range(66)]),
                            _ev('home', _tr(wide[1:], 'W0')), _ev('only_last', _tr(['W65'], 'W1'))])])
    # more than 256 leaves and more than 256 events (indices that do not fit a byte): a chain through every leaf, and 257
    # events out of the first leaf
    huge = ['S%d' % i for i in range(258)]
    out.append([('name', 'M'), ('initial', 'S0'), ('dynamic', True),
                ('states', [('leaf', x, 'D1' if i in (0, 257) else None) for i, x in enumerate(huge)]),
                ('events', [('step', [('transition', [('from', [huge[i]]), ('to', huge[i + 1])]) for i in range(257)])] +
                           [_ev('x%d' % k, _tr(['S0'], 'S2')) for k in range(257)] + [_ev('last', _tr(['S257', 'S256'], 'S0'))])])
    # states called like the Ruby DSL's keywords (capitalised as states are): sources, targets, superstate
    out.append([('name', 'M'), ('initial', 'Idle'), ('dynamic', True),
                ('states', [('leaf', 'Idle', None), ('leaf', 'Any', 'D0'), ('super', 'All', None, [('leaf', 'Same', None), ('leaf', 'Different', 'D1')]), ('leaf', 'Done', None)]),
                ('events', [_ev('finish', _tr(['Any'], 'Done')), _ev('matched', _tr(['Idle', 'Different'], 'Same')),
                            _ev('pick', _tr(['Idle'], 'Any')), _ev('regroup', _tr(['All'], 'Idle')), _ev('split', _tr(['Same'], 'Different'))])])
    # a superstate and a leaf whose names glue to the same string as another pair: "Power"+"OnHold" = "PowerOn"+"Hold"
    # (and "Power"+"On"... : a key made of an ancestor and a leaf must keep them apart)
    out.append([('name', 'M'), ('initial', 'Off'), ('dynamic', True),
                ('states', [('super', 'Power', None, [('leaf', 'OnHold', None), ('leaf', 'Off', None),
                                                      ('super', 'PowerOn', None, [('leaf', 'Hold', 'D1'), ('leaf', 'Run', None)])])]),
                ('events', [_ev('go', _tr(['Off'], 'PowerOn')), _ev('pause', _tr(['PowerOn'], 'OnHold')),
                            _ev('resume', _tr(['OnHold'], 'Run')), _ev('halt', _tr(['Power'], 'Off'))])])
    # names whose concatenations coincide, one state a prefix of another: "Tasks"+"end" = "Task"+"send" in lower case,
    # "Open"+"HalfClose" = "OpenHalf"+"Close" in PascalCase and "open"_"half_close" = "open_half"_"close" in snake_case
    # (a key built by gluing a state to an event, with or without a separator, identifies two different pairs)
    out.append([('name', 'M'), ('initial', 'Task'), ('dynamic', True),
                ('states', [('leaf', 'Task', None), ('leaf', 'Tasks', 'D1'), ('leaf', 'Load', None), ('leaf', 'Loaded', None),
                            ('leaf', 'Open', None), ('leaf', 'OpenHalf', 'D0')]),
                ('events', [_ev('end', _tr(['Tasks'], 'Load')), _ev('send', _tr(['Task'], 'Tasks')),
                            _ev('ed', _tr(['Load'], 'Loaded')), _ev('d', _tr(['Loaded'], 'Open')),
                            _ev('half_close', _tr(['Open'], 'OpenHalf')), _ev('close', _tr(['OpenHalf'], 'Task'))])])
    # typestate-only look-alikes: two states with one snake_case spelling, exactly one carrying data
    out.append([('name', 'M'), ('initial', 'IOReady'),
                ('states', [('leaf', 'IOReady', 'D2'), ('leaf', 'IoReady', None), ('leaf', 'Idle', None)]),
                ('events', [_ev('go', _tr(['IOReady'], 'IoReady')), _ev('back', _tr(['IoReady', 'Idle'], 'IOReady')), _ev('rest', _tr(['IoReady'], 'Idle'))])])
    return out


def name_fixture_indices():
    """positions (in the K2 corpus) of the fixtures whose point is the identifiers they use"""
    n = len(fixtures())
    return [n - 3, n - 2, n - 1]


def fam_names(mi, rnd, tier):
    """everything observable on the look-alike-identifier fixtures (C18)"""
    if mi.idx not in name_fixture_indices():
        return []
    return fam_walk(mi, rnd, tier) + fam_data(mi, rnd, tier) + fam_conv(mi, rnd, tier) + fam_guards(mi, rnd, tier)


FAMILIES['names'] = fam_names
