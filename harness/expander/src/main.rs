//! K1 driver: runs the real macro front end and code generator of /repo as an ordinary library
//! (the sources are #[path]-included from the working tree) on a file of definitions and prints,
//! per definition, the verdict and a structural skeleton of the generated items as one JSON line.
#![allow(dead_code)]
#[path = "/repo/state-machines-macro/src/codegen/mod.rs"]
mod codegen;
#[path = "/repo/state-machines-macro/src/parser.rs"]
mod parser;
#[path = "/repo/state-machines-macro/src/types.rs"]
mod types;
#[path = "/repo/state-machines-macro/src/validation.rs"]
mod validation;

use proc_macro2::{Delimiter, TokenStream, TokenTree};
use std::fmt::Write as _;
use std::io::Read;

fn esc(s: &str) -> String {
    let mut o = String::with_capacity(s.len() + 2);
    o.push('"');
    for c in s.chars() {
        match c {
            '"' => o.push_str("\\\""),
            '\\' => o.push_str("\\\\"),
            '\n' => o.push_str("\\n"),
            '\t' => o.push_str("\\t"),
            c if (c as u32) < 0x20 => {
                let _ = write!(o, "\\u{:04x}", c as u32);
            }
            c => o.push(c),
        }
    }
    o.push('"');
    o
}

/// token text with no whitespace except between two word characters
fn norm(ts: &TokenStream) -> String {
    let mut out = String::new();
    fn push(out: &mut String, s: &str) {
        let a = out.chars().last();
        let b = s.chars().next();
        let w = |c: char| c.is_alphanumeric() || c == '_' || c == '"' || c == '\'';
        if let (Some(a), Some(b)) = (a, b) {
            if w(a) && w(b) {
                out.push(' ');
            }
        }
        out.push_str(s);
    }
    fn go(out: &mut String, ts: &TokenStream) {
        for t in ts.clone() {
            match t {
                TokenTree::Group(g) => {
                    let (o, c) = match g.delimiter() {
                        Delimiter::Parenthesis => ("(", ")"),
                        Delimiter::Brace => ("{", "}"),
                        Delimiter::Bracket => ("[", "]"),
                        Delimiter::None => ("", ""),
                    };
                    push(out, o);
                    go(out, &g.stream());
                    out.push_str(c);
                }
                TokenTree::Ident(i) => push(out, &i.to_string()),
                TokenTree::Punct(p) => out.push(p.as_char()),
                TokenTree::Literal(l) => push(out, &l.to_string()),
            }
        }
    }
    go(&mut out, ts);
    out
}

fn n<T: quote::ToTokens>(t: &T) -> String {
    norm(&quote::quote!(#t))
}

fn derives(attrs: &[syn::Attribute]) -> Vec<String> {
    let mut v = Vec::new();
    for a in attrs {
        if a.path().is_ident("derive") {
            let _ = a.parse_nested_meta(|m| {
                v.push(n(&m.path));
                Ok(())
            });
        }
    }
    v
}

fn list(v: &[String]) -> String {
    format!("[{}]", v.iter().map(|s| esc(s)).collect::<Vec<_>>().join(","))
}

fn generics(g: &syn::Generics) -> String {
    let ps: Vec<String> = g.params.iter().map(|p| n(p)).collect();
    list(&ps)
}

fn vis(v: &syn::Visibility) -> &'static str {
    match v {
        syn::Visibility::Public(_) => "pub",
        syn::Visibility::Inherited => "",
        _ => "other",
    }
}

fn item_json(it: &syn::Item) -> String {
    match it {
        syn::Item::Struct(s) => {
            let fields: Vec<String> = s
                .fields
                .iter()
                .map(|f| {
                    format!(
                        "[{},{},{}]",
                        esc(vis(&f.vis)),
                        esc(&f.ident.as_ref().map(|i| i.to_string()).unwrap_or_default()),
                        esc(&n(&f.ty))
                    )
                })
                .collect();
            format!(
                "{{\"k\":\"struct\",\"vis\":{},\"name\":{},\"derives\":{},\"generics\":{},\"unit\":{},\"fields\":[{}]}}",
                esc(vis(&s.vis)),
                esc(&s.ident.to_string()),
                list(&derives(&s.attrs)),
                generics(&s.generics),
                matches!(s.fields, syn::Fields::Unit),
                fields.join(",")
            )
        }
        syn::Item::Enum(e) => {
            let vars: Vec<String> = e
                .variants
                .iter()
                .map(|v| {
                    let tys: Vec<String> = v.fields.iter().map(|f| n(&f.ty)).collect();
                    format!("[{},{}]", esc(&v.ident.to_string()), list(&tys))
                })
                .collect();
            format!(
                "{{\"k\":\"enum\",\"vis\":{},\"name\":{},\"derives\":{},\"generics\":{},\"variants\":[{}]}}",
                esc(vis(&e.vis)),
                esc(&e.ident.to_string()),
                list(&derives(&e.attrs)),
                generics(&e.generics),
                vars.join(",")
            )
        }
        syn::Item::Impl(i) => {
            let fns: Vec<String> = i
                .items
                .iter()
                .map(|ii| match ii {
                    syn::ImplItem::Fn(f) => {
                        let inputs: Vec<String> = f.sig.inputs.iter().map(|a| n(a)).collect();
                        let out = match &f.sig.output {
                            syn::ReturnType::Default => String::new(),
                            syn::ReturnType::Type(_, t) => n(&**t),
                        };
                        let stmts: Vec<String> = f.block.stmts.iter().map(|s| n(s)).collect();
                        format!(
                            "{{\"vis\":{},\"name\":{},\"async\":{},\"const\":{},\"generics\":{},\"inputs\":{},\"output\":{},\"stmts\":{}}}",
                            esc(vis(&f.vis)),
                            esc(&f.sig.ident.to_string()),
                            f.sig.asyncness.is_some(),
                            f.sig.constness.is_some(),
                            generics(&f.sig.generics),
                            list(&inputs),
                            esc(&out),
                            list(&stmts)
                        )
                    }
                    other => format!("{{\"other\":{}}}", esc(&n(other))),
                })
                .collect();
            let tr = match &i.trait_ {
                Some((_, p, _)) => esc(&n(p)),
                None => "null".to_string(),
            };
            let wh = match &i.generics.where_clause {
                Some(w) => esc(&n(w)),
                None => "\"\"".to_string(),
            };
            format!(
                "{{\"k\":\"impl\",\"generics\":{},\"trait\":{},\"self\":{},\"where\":{},\"fns\":[{}]}}",
                generics(&i.generics),
                tr,
                esc(&n(&*i.self_ty)),
                wh,
                fns.join(",")
            )
        }
        other => format!("{{\"k\":\"other\",\"text\":{}}}", esc(&n(other))),
    }
}

fn run_one(src: &str) -> String {
    let ts: TokenStream = match src.parse() {
        Ok(t) => t,
        Err(e) => return format!("{{\"ok\":false,\"stage\":\"lex\",\"err\":{}}}", esc(&e.to_string())),
    };
    let machine = match syn::parse2::<types::StateMachine>(ts) {
        Ok(m) => m,
        Err(e) => return format!("{{\"ok\":false,\"stage\":\"parse\",\"err\":{}}}", esc(&e.to_string())),
    };
    let out = match machine.expand() {
        Ok(t) => t,
        Err(e) => return format!("{{\"ok\":false,\"stage\":\"validate\",\"err\":{}}}", esc(&e.to_string())),
    };
    match syn::parse2::<syn::File>(out.clone()) {
        Ok(f) => {
            let items: Vec<String> = f.items.iter().map(item_json).collect();
            format!("{{\"ok\":true,\"items\":[{}]}}", items.join(","))
        }
        Err(e) => format!(
            "{{\"ok\":true,\"unparsed\":{},\"err\":{}}}",
            esc(&norm(&out)),
            esc(&e.to_string())
        ),
    }
}

fn main() {
    // name functions mode: `names` reads identifiers, prints snake/pascal per line
    let args: Vec<String> = std::env::args().collect();
    let mut input = String::new();
    std::io::stdin().read_to_string(&mut input).unwrap();
    if args.get(1).map(|s| s.as_str()) == Some("names") {
        for l in input.lines() {
            println!(
                "{}\t{}\t{}",
                l,
                codegen::utils::to_snake_case(l),
                codegen::utils::to_pascal_case(l)
            );
        }
        return;
    }
    let feature = cfg!(feature = "dynamic");
    for (i, src) in input.split("\n=====\n").enumerate() {
        // an empty chunk is skipped unless it is marked as the empty definition (`state_machine! {}`)
        if src.trim().is_empty() {
            continue;
        }
        let src = if src.trim() == "/*empty*/" { "" } else { src };
        let r = std::panic::catch_unwind(|| run_one(src));
        match r {
            Ok(j) => println!("{{\"i\":{},\"feature\":{},\"r\":{}}}", i, feature, j),
            Err(_) => println!("{{\"i\":{},\"feature\":{},\"r\":{{\"ok\":false,\"stage\":\"panic\",\"err\":\"panic\"}}}}", i, feature),
        }
    }
}
