#!/usr/bin/env python3
"""harmlessrun.py <dir> [<dir> ...]: apply a behaviour-preserving refactoring of /repo (harmless/<id>/patch.diff),
run every check at the quick tier, undo it.  A check that reports a violation here is a false alarm of the
machinery (to be repaired), unless the line ends with no-failing-input-found, which is the documented verdict
for a broken tie with no failing input (DESIGN.md section 3)."""
import concurrent.futures
import json
import os
import subprocess
import sys

PROPS = ['C%02d' % i for i in range(1, 20)]


def run(p):
    q = subprocess.run(['/verif/check', p, '--tier', 'quick'], capture_output=True, text=True, cwd='/verif')
    v = [l for l in q.stdout.splitlines() if l.startswith('VIOLATION')]
    detail = [l for l in q.stdout.splitlines() if l.startswith('  ')][:3]
    return p, q.returncode, v, detail


def main():
    out = {}
    for d in sys.argv[1:]:
        patch = os.path.abspath(os.path.join(d, 'patch.diff'))
        st = subprocess.run(['git', '-C', '/repo', 'status', '--porcelain'], capture_output=True, text=True).stdout.strip()
        if st:
            print('refusing: /repo has local changes:\n' + st)
            sys.exit(2)
        r = subprocess.run(['git', '-C', '/repo', 'apply', patch], capture_output=True, text=True)
        if r.returncode != 0:
            print(d, 'patch does not apply:', r.stderr)
            continue
        res = {}
        try:
            # the first check builds the shared stages; the rest run in parallel
            first = run(PROPS[0])
            res[first[0]] = first[1:]
            with concurrent.futures.ThreadPoolExecutor(6) as ex:
                for p, rc, v, detail in ex.map(run, PROPS[1:]):
                    res[p] = (rc, v, detail)
        finally:
            subprocess.run(['git', '-C', '/repo', 'checkout', '--', '.'])
        alarms = {p: r for p, r in res.items() if r[0] != 0}
        hard = {p: r for p, r in alarms.items() if not all(l.rstrip().endswith('no-failing-input-found') for l in r[1])}
        print('%s: %d/19 pass, %d alarms (%d with a claimed failing input)' % (d, 19 - len(alarms), len(alarms), len(hard)))
        for p, r in sorted(alarms.items()):
            print('   ', p, 'rc=%d' % r[0], (r[1][:1] or [''])[0][:160])
            for l in r[2][:2]:
                print('       ', l[:260])
        out[os.path.basename(d.rstrip('/'))] = {p: {'rc': r[0], 'violations': r[1][:3], 'detail': r[2][:2]} for p, r in alarms.items()}
        sys.stdout.flush()
    json.dump(out, open('/tmp/harmless_result.json', 'w'), indent=1)


main()
