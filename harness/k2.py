"""K2: behavioural correspondence.  Generates a Rust crate with one module per machine (the real
state_machine! invocation + instrumented hooks + a script driver), runs op scripts on it, and has
Coq evaluate the same scripts on the model; lines are compared inside Coq."""
import os
import re
import subprocess
import smgen
from smgen import to_snake, to_pascal

RT_SRC = os.path.join(os.path.dirname(os.path.abspath(__file__)), 'k2rt', 'rt.rs')


# ---------------------------------------------------------------- skeleton readers

def skel_typed_methods(skel, name, concrete):
    """{state: [fn names]} from the real expansion: inherent impls of M<C,X> / M<X>"""
    out = {}
    pat = re.compile(r'^%s<(?:C,)?(\w+)>$' % re.escape(name))
    for it in skel.get('items', []):
        if it['k'] == 'impl' and it['trait'] is None and 'S' not in it['generics']:
            m = pat.match(it['self'])
            if m:
                out.setdefault(m.group(1), [])
                for f in it['fns']:
                    if 'name' in f:
                        out[m.group(1)].append(f['name'])
    return out


def skel_has_dynamic(skel, name):
    return any(it['k'] == 'struct' and it['name'] == 'Dynamic' + name for it in skel.get('items', []))


# ---------------------------------------------------------------- rust module for one machine

def rust_module(idx, d, skel):
    name = smgen.get(d, 'name')
    initial = smgen.get(d, 'initial')
    concrete = smgen.get(d, 'context') is not None
    is_async = bool(smgen.get(d, 'async', False))
    forest = smgen.get(d, 'states')
    leaves = smgen.leaves_of(forest)
    specs = smgen.data_specs(forest)          # (state, ty)
    events = smgen.event_names(d)
    dynamic = skel_has_dynamic(skel, name)
    methods = skel_typed_methods(skel, name, concrete)
    hooks = smgen.hook_names(d)
    hpl = smgen.hooks_with_payload(d)

    MT = (lambda s: '%s<%s>' % (name, s)) if concrete else (lambda s: '%s<Ctx, %s>' % (name, s))
    DM = ('Dynamic%s' % name) if concrete else ('Dynamic%s<Ctx>' % name)
    o = []
    w = o.append
    w('#[allow(non_camel_case_types, non_snake_case, dead_code, unused_variables, unused_mut, unused_imports, private_interfaces, unreachable_patterns, clippy::all)]')
    w('pub mod m%d {' % idx)
    w('use crate::rt::{self, Ctx, P, D0, D1, D2, D3, DV};')
    w('use std::panic::{catch_unwind, AssertUnwindSafe};')
    w('use state_machines::state_machine;')
    w('use state_machines::core::{AroundOutcome, AroundStage, TransitionError, TransitionErrorKind};')
    w('state_machine! {\n    %s\n}' % smgen.dsl_defn(d, vary=True))
    # hooks
    if concrete:
        w('impl<S> %s<S> {' % name)
        ctxty = 'Ctx'
    else:
        w('impl<C, S> %s<C, S> {' % name)
        ctxty = 'C'
    snap = ', '.join('rt::opt_str(self.state_data_%s().map(|d| d.get()))' % to_snake(s) for (s, _) in specs)
    w('  fn __snap(&self) -> String { let v: Vec<String> = vec![%s]; v.join("/") }' % snap)
    # async machines with an even index get hooks written as ordinary functions that do their bookkeeping when
    # CALLED and return the future (`fn g(&self, ..) -> impl Future`), the others get `async fn` hooks whose body
    # runs when first polled: generated code that creates a hook future before the previous hook completed is
    # visible with the first kind (rt::begin flags the overlap), code that drops one unpolled with both
    eager = is_async and idx % 2 == 0
    af = 'async fn' if is_async else 'fn'
    aw = ' rt::Susp(a.susp).await;' if is_async else ''

    def hook_fn(name, args, ret, begin, tail):
        """one instrumented hook; [begin] is the rt::begin(..) call, [tail] the expression it evaluates to"""
        if eager:
            lt_args = args.replace('&self', "&'h self").replace(': &', ": &'h ")
            w("  fn %s<'h>(%s) -> impl core::future::Future<Output = %s> + 'h { let (r, a) = %s; async move { rt::Susp(a.susp).await; rt::check_panic(&a, \"%s\"); rt::end(r); %s } }"
              % (name, lt_args, ret, begin, name, tail))
        else:
            w('  %s %s(%s)%s { let (r, a) = %s;%s rt::check_panic(&a, "%s"); rt::end(r); %s }'
              % (af, name, args, (' -> ' + ret) if ret != '()' else '', begin, aw, name, tail))

    for g in sorted(set(hooks['guards'] + hooks['unless'])):
        kind = 'g' if g in hooks['guards'] else 'u'
        val = 'rt::guard_val(&a)' if kind == 'g' else 'rt::unless_val(&a)'
        plarg = ', pl: &P' if hpl.get(g) else ''
        plv = 'Some(pl.0)' if hpl.get(g) else 'None'
        hook_fn(g, '&self, ctx: &%s%s' % (ctxty, plarg), 'bool',
                'rt::begin("%s", "%s", rt::sname::<S>(), self.__snap(), rt::ctx_id(ctx), %s)' % (kind, g, plv), val)
    for cb in sorted(set(hooks['before'] + hooks['after'])):
        kind = 'b' if cb in hooks['before'] else 'a'
        plarg = ', pl: &P' if hpl.get(cb) else ''
        plv = 'Some(pl.0)' if hpl.get(cb) else 'None'
        hook_fn(cb, '&self%s' % plarg, '()',
                'rt::begin("%s", "%s", rt::sname::<S>(), self.__snap(), rt::ctx_id(&self.ctx), %s)' % (kind, cb, plv), '()')
    # what a legacy key (`action: legacy_value`) names: the generated code must never call it
    if any(en[0] == 'legacy' for en in d):
        w('  fn legacy_value(&mut self) { rt::stray("legacy_value"); }')
    for cb in hooks['around']:
        outcome = ('match a.val { rt::AnsVal::AbortGuard(n) => AroundOutcome::Abort(TransitionError { from: %s, event: "xx_ev", kind: TransitionErrorKind::GuardFailed { guard: n } }), '
                   'rt::AnsVal::AbortAction(n) => AroundOutcome::Abort(TransitionError { from: %s, event: "xx_ev", kind: TransitionErrorKind::ActionFailed { action: n } }), '
                   'rt::AnsVal::AbortInvalid => AroundOutcome::Abort(TransitionError { from: %s, event: "xx_ev", kind: TransitionErrorKind::InvalidTransition }), '
                   '_ => AroundOutcome::Proceed }' % (initial, initial, initial))
        hook_fn(cb, '&self, stage: AroundStage', 'AroundOutcome<%s>' % initial,
                'rt::begin(match stage { AroundStage::Before => "ab", AroundStage::AfterSuccess => "aa" }, "%s", rt::sname::<S>(), self.__snap(), rt::ctx_id(&self.ctx), None)' % cb,
                outcome)
    w('}')
    # typed holder
    w('pub enum Typed_ { %s }' % ', '.join('%s(%s)' % (s, MT(s)) for s in leaves))
    w('trait IntoT_ { fn into_t(self) -> Typed_; }')
    for s in leaves:
        w('impl IntoT_ for %s { fn into_t(self) -> Typed_ { Typed_::%s(self) } }' % (MT(s), s))
    if dynamic:
        w('pub enum Holder_ { N, T(Typed_), D(%s) }' % DM)
    else:
        w('pub enum Holder_ { N, T(Typed_) }')
    w('pub struct Drv { h: Holder_ }')
    w('impl Drv { pub fn new() -> Self { Drv { h: Holder_::N } } }')
    w('impl rt::Driver for Drv {')
    w('  fn reset(&mut self) { self.h = Holder_::N; }')
    w('  fn op(&mut self, op: &rt::Op) -> String {')
    w('    let h = std::mem::replace(&mut self.h, Holder_::N);')
    w('    let budget = op.budget;')
    w('    match (op.name.as_str(), h) {')
    # new
    w('      ("new", old) => { let ctx: u32 = op.a2.parse().unwrap(); match op.a1.as_str() {')
    for s in leaves:
        if 'new' in methods.get(s, []):
            w('        "%s" => { drop(old); self.h = Holder_::T(Typed_::%s(<%s>::new(Ctx(ctx)))); "ok".to_string() }' % (s, s, MT(s)))
    w('        _ => { self.h = old; "nomethod".to_string() } } }')
    # typed
    w('      ("typed", Holder_::T(t)) => { let pl = rt::pl_of(&op.a2); match (t, op.a1.as_str()) {')
    for s in leaves:
        for ev in events:
            if ev in methods.get(s, []):
                arg = 'P(pl.unwrap_or(0))' if smgen.event_payload(d, ev) else ''
                if is_async:
                    w('        (Typed_::%s(m), "%s") => { match catch_unwind(AssertUnwindSafe(move || rt::drive(m.%s(%s), budget))) {' % (s, ev, ev, arg))
                    w('            Ok(Some(Ok(n))) => { self.h = Holder_::T(n.into_t()); "ok".to_string() }')
                    w('            Ok(Some(Err((o, e)))) => { self.h = Holder_::T(o.into_t()); rt::gerr_str(&e) }')
                    w('            Ok(None) => "abandoned".to_string(),')
                    w('            Err(p) => rt::panic_str(p) } }')
                else:
                    w('        (Typed_::%s(m), "%s") => { match catch_unwind(AssertUnwindSafe(move || m.%s(%s))) {' % (s, ev, ev, arg))
                    w('            Ok(Ok(n)) => { self.h = Holder_::T(n.into_t()); "ok".to_string() }')
                    w('            Ok(Err((o, e))) => { self.h = Holder_::T(o.into_t()); rt::gerr_str(&e) }')
                    w('            Err(p) => rt::panic_str(p) } }')
    w('        (t, _) => { self.h = Holder_::T(t); "nomethod".to_string() } } }')
    if is_async:
        # the future of a typed call, created and dropped without a single poll
        w('      ("unpolled", Holder_::T(t)) => { let pl = rt::pl_of(&op.a2); match (t, op.a1.as_str()) {')
        for s in leaves:
            for ev in events:
                if ev in methods.get(s, []):
                    arg = 'P(pl.unwrap_or(0))' if smgen.event_payload(d, ev) else ''
                    w('        (Typed_::%s(m), "%s") => { match catch_unwind(AssertUnwindSafe(move || { let f = m.%s(%s); drop(f); })) { Ok(()) => "abandoned".to_string(), Err(p) => rt::panic_str(p) } }'
                      % (s, ev, ev, arg))
        w('        (t, _) => { self.h = Holder_::T(t); "nomethod".to_string() } } }')
    # typed mut via Option accessor
    w('      ("mut", Holder_::T(mut t)) => { let v: u64 = op.a2.parse().unwrap(); let r = match op.a1.as_str() {')
    for (s, ty) in specs:
        acc = 'state_data_%s_mut' % to_snake(s)
        arms = ', '.join('Typed_::%s(m) => m.%s().map(|d| rt::bump(d, v)).is_some()' % (l, acc) for l in leaves)
        w('        "%s" => { let b = match &mut t { %s }; if b { "wrote:1" } else { "wrote:0" } }' % (s, arms))
    w('        _ => "nomethod" }; self.h = Holder_::T(t); r.to_string() }')
    # typed infallible mut
    w('      ("tmut", Holder_::T(mut t)) => { let v: u64 = op.a2.parse().unwrap(); let r = match (&mut t, op.a1.as_str()) {')
    for (s, ty) in specs:
        if s in leaves and (to_snake(s) + '_data_mut') in methods.get(s, []):
            w('        (Typed_::%s(m), "%s") => match catch_unwind(AssertUnwindSafe(|| { rt::bump(m.%s_data_mut(), v); })) { Ok(()) => "ok", Err(_) => "panic:msg" },' % (s, s, to_snake(s)))
    w('        _ => "nomethod" }; self.h = Holder_::T(t); r.to_string() }')
    if dynamic:
        w('      ("dnew", old) => { drop(old); let ctx: u32 = op.a1.parse().unwrap(); self.h = Holder_::D(<%s>::new(Ctx(ctx))); "ok".to_string() }' % DM)
        w('      ("ddefault", old) => { drop(old); self.h = Holder_::D(<%s as Default>::default()); "ok".to_string() }' % DM)
        w('      ("handle", Holder_::D(mut d)) => { let pl = rt::pl_of(&op.a2); let ev = match op.a1.as_str() {')
        for ev in events:
            if smgen.event_payload(d, ev):
                w('          "%s" => %sEvent::%s(P(pl.unwrap_or(0))),' % (ev, name, to_pascal(ev)))
            else:
                w('          "%s" => %sEvent::%s,' % (ev, name, to_pascal(ev)))
        w('          _ => { self.h = Holder_::D(d); return "badop".to_string(); } };')
        if is_async:
            w('        let r = catch_unwind(AssertUnwindSafe(|| rt::drive(d.handle(ev), budget)));')
            w('        self.h = Holder_::D(d);')
            w('        match r { Ok(Some(Ok(()))) => "ok".to_string(), Ok(Some(Err(e))) => rt::derr_str(&e), Ok(None) => "abandoned".to_string(), Err(p) => rt::panic_str(p) } }')
        else:
            w('        let r = catch_unwind(AssertUnwindSafe(|| d.handle(ev)));')
            w('        self.h = Holder_::D(d);')
            w('        match r { Ok(Ok(())) => "ok".to_string(), Ok(Err(e)) => rt::derr_str(&e), Err(p) => rt::panic_str(p) } }')
        if is_async:
            w('      ("unpolled", Holder_::D(mut d)) => { let pl = rt::pl_of(&op.a2); let ev = match op.a1.as_str() {')
            for ev in events:
                if smgen.event_payload(d, ev):
                    w('          "%s" => %sEvent::%s(P(pl.unwrap_or(0))),' % (ev, name, to_pascal(ev)))
                else:
                    w('          "%s" => %sEvent::%s,' % (ev, name, to_pascal(ev)))
            w('          _ => { self.h = Holder_::D(d); return "badop".to_string(); } };')
            w('        let r = catch_unwind(AssertUnwindSafe(|| { let f = d.handle(ev); drop(f); }));')
            w('        self.h = Holder_::D(d);')
            w('        match r { Ok(()) => "abandoned".to_string(), Err(p) => rt::panic_str(p) } }')
        w('      ("set", Holder_::D(mut d)) => { let v: u64 = op.a2.parse().unwrap(); let r = match op.a1.as_str() {')
        for (s, ty) in specs:
            w('        "%s" => match d.set_%s_data(<%s as DV>::make(v)) { Ok(()) => "ok".to_string(), Err(e) => rt::derr_str(&e) },' % (s, to_snake(s), ty))
        w('        _ => "nomethod".to_string() }; self.h = Holder_::D(d); r }')
        w('      ("mut", Holder_::D(mut d)) => { let v: u64 = op.a2.parse().unwrap(); let r = match op.a1.as_str() {')
        for (s, ty) in specs:
            w('        "%s" => if d.%s_data_mut().map(|x| rt::bump(x, v)).is_some() { "wrote:1" } else { "wrote:0" },' % (s, to_snake(s)))
        w('        _ => "nomethod" }; self.h = Holder_::D(d); r.to_string() }')
        w('      ("into", Holder_::D(d)) => { match op.a1.as_str() {')
        for s in leaves:
            w('        "%s" => match d.into_%s() { Ok(m) => { self.h = Holder_::T(Typed_::%s(m)); "conv:ok".to_string() } Err(d) => { self.h = Holder_::D(d); "conv:err".to_string() } },' % (s, to_snake(s), s))
        w('        _ => { self.h = Holder_::D(d); "nomethod".to_string() } } }')
        w('      ("intodyn", Holder_::T(t)) => { self.h = Holder_::D(match t { %s }); "conv:ok".to_string() }'
          % ', '.join('Typed_::%s(m) => m.into_dynamic()' % s for s in leaves))
    w('      ("drop", old) => { drop(old); "ok".to_string() }')
    w('      (_, h) => { self.h = h; "badop".to_string() }')
    w('    }')
    w('  }')
    w('  fn holder(&mut self) -> String {')
    w('    match &self.h {')
    w('      Holder_::N => "N".to_string(),')
    w('      Holder_::T(t) => match t {')
    for s in leaves:
        if any(x == s for (x, _) in specs) and (to_snake(s) + '_data') in methods.get(s, []):
            acc = 'match catch_unwind(AssertUnwindSafe(|| m.%s_data().get())) { Ok(v) => v.to_string(), Err(_) => "PANIC".to_string() }' % to_snake(s)
        else:
            acc = '"-".to_string()'
        w('        Typed_::%s(m) => format!("T:%s:{}:{}", m.__snap(), %s),' % (s, s, acc))
    w('      },')
    if dynamic:
        accs = ', '.join('rt::opt_str(d.%s_data().map(|x| x.get()))' % to_snake(s) for (s, _) in specs)
        w('      Holder_::D(d) => { let cur = match catch_unwind(AssertUnwindSafe(|| d.current_state())) { Ok(s) => s.to_string(), Err(_) => "!".to_string() };')
        w('        let v: Vec<String> = vec![%s]; format!("D:{}:{}", cur, v.join("/")) }' % accs)
    w('    }')
    w('  }')
    w('}')
    w('}')
    return '\n'.join(o)


def write_crate(dirpath, modules, feature_dynamic=False):
    os.makedirs(os.path.join(dirpath, 'src'), exist_ok=True)
    feats = ', features = ["dynamic"]' if feature_dynamic else ''
    with open(os.path.join(dirpath, 'Cargo.toml'), 'w') as f:
        f.write('[package]\nname = "sm-k2"\nversion = "0.0.0"\nedition = "2024"\n\n[workspace]\n\n'
                '[dependencies]\nstate-machines = { path = "/repo/state-machines"%s }\n\n'
                '[profile.dev]\ndebug = false\nopt-level = 0\nincremental = false\n' % feats)
    with open(RT_SRC) as f:
        rt = f.read()
    rt += '\npub fn ctx_id<C>(c: &C) -> u32 {\n    if core::any::type_name::<C>() == core::any::type_name::<Ctx>() { unsafe { (*(c as *const C as *const Ctx)).0 } } else { 0 }\n}\n'
    with open(os.path.join(dirpath, 'src', 'rt.rs'), 'w') as f:
        f.write(rt)
    main = ['#![allow(unused)]', 'mod rt;']
    for i, src in modules:
        with open(os.path.join(dirpath, 'src', 'm%d.rs' % i), 'w') as f:
            f.write(src)
        main.append('#[path = "m%d.rs"] mod mf%d; use mf%d::m%d;' % (i, i, i, i))
    main.append('fn main() {')
    main.append('    let mut ds: Vec<Option<Box<dyn rt::Driver>>> = Vec::new();')
    mx = max([i for i, _ in modules] + [-1])
    present = {i for i, _ in modules}
    main.append('    let mut v: Vec<Box<dyn rt::Driver>> = Vec::new();')
    for i in range(mx + 1):
        if i in present:
            main.append('    v.push(Box::new(m%d::Drv::new()));' % i)
        else:
            main.append('    v.push(Box::new(rt::NoDriver));')
    main.append('    rt::run(&mut v);')
    main.append('}')
    with open(os.path.join(dirpath, 'src', 'main.rs'), 'w') as f:
        f.write('\n'.join(main) + '\n')


# ---------------------------------------------------------------- scripts

def ans_tok(a):
    """a = (val, susp); val in '-', 't', 'f', 'X', 'Ai', ('Ag', name), ('Aa', name)"""
    v, k = a
    s = v if isinstance(v, str) else '%s:%s' % v
    return s + ('@%d' % k if k else '')


def ans_coq(a):
    v, k = a
    if v == '-':
        c = 'ADefault'
    elif v == 't':
        c = '(ABool true)'
    elif v == 'f':
        c = '(ABool false)'
    elif v == 'X':
        c = 'APanic'
    elif v == 'Ai':
        c = '(AAbort AKInvalid)'
    elif v[0] == 'Ag':
        c = '(AAbort (AKGuard "%s"))' % v[1]
    elif v[0] == 'Aa':
        c = '(AAbort (AKAction "%s"))' % v[1]
    else:
        raise ValueError(a)
    return '(Build_ans %s %d)' % (c, k)


def op_text(op):
    k = op[0]
    if k == 'new':
        return 'new %s %d' % (op[1], op[2])
    if k == 'dnew':
        return 'dnew %d' % op[1]
    if k == 'ddefault':
        return 'ddefault'
    if k in ('typed', 'handle'):
        _, ev, pl, orc, budget = op
        return '%s %s %s %s b=%s' % (k, ev, '-' if pl is None else pl,
                                     ','.join(ans_tok(a) for a in orc) if orc else '.',
                                     '-' if budget is None else budget)
    if k in ('set', 'mut', 'tmut'):
        return '%s %s %d' % (k, op[1], op[2])
    if k == 'into':
        return 'into %s' % op[1]
    if k == 'intodyn':
        return 'intodyn'
    if k == 'drop':
        return 'drop'
    if k == 'unpolled':
        return 'unpolled %s %s' % (op[1], '-' if op[2] is None else op[2])
    raise ValueError(op)


def op_coq(op):
    k = op[0]
    on = lambda o: 'None' if o is None else '(Some %d)' % o
    if k == 'new':
        return '(ONew "%s" %d)' % (op[1], op[2])
    if k == 'dnew':
        return '(ODynNew %d)' % op[1]
    if k == 'ddefault':
        return 'ODynDefault'
    if k in ('typed', 'handle'):
        _, ev, pl, orc, budget = op
        return '(%s "%s" %s [%s] %s)' % ('OTyped' if k == 'typed' else 'OHandle', ev, on(pl),
                                         '; '.join(ans_coq(a) for a in orc), on(budget))
    if k == 'set':
        return '(OSet "%s" %d)' % (op[1], op[2])
    if k == 'mut':
        return '(OMut "%s" %d)' % (op[1], op[2])
    if k == 'tmut':
        return '(OTMut "%s" %d)' % (op[1], op[2])
    if k == 'into':
        return '(OInto "%s")' % op[1]
    if k == 'intodyn':
        return 'OIntoDyn'
    if k == 'drop':
        return 'ODrop'
    if k == 'unpolled':
        return '(OUnpolled "%s" %s)' % (op[1], on(op[2]))
    raise ValueError(op)


def run_scripts(binary, jobs):
    """jobs: [(machine idx, [script])], script = [op].  returns {(mi, si): [lines]}"""
    inp = []
    for mi, scripts in jobs:
        inp.append('M %d' % mi)
        for s in scripts:
            inp.append('S')
            for op in s:
                inp.append(op_text(op))
    p = subprocess.run([binary], input='\n'.join(inp) + '\n', capture_output=True, text=True, timeout=600)
    if p.returncode != 0:
        raise RuntimeError('k2 binary failed: rc=%s\n%s' % (p.returncode, p.stderr[-2000:]))
    out = {}
    cur_m = None
    si = -1
    for line in p.stdout.splitlines():
        if line.startswith('#M '):
            cur_m = int(line[3:])
            si = -1
        elif line == '#S':
            si += 1
            out[(cur_m, si)] = []
        else:
            out[(cur_m, si)].append(line)
    return out
