//! Runtime of the behavioural correspondence check (K2): trace + oracle + drop accounting for the
//! instrumented hooks, a poll-loop executor that can abandon a future, and the script driver.
#![allow(dead_code)]
use std::cell::RefCell;
use std::future::Future;
use std::pin::Pin;
use std::task::{Context, Poll, RawWaker, RawWakerVTable, Waker};

#[derive(Clone, Debug)]
pub enum AnsVal {
    Default,
    Bool(bool),
    AbortGuard(&'static str),
    AbortAction(&'static str),
    AbortInvalid,
    Panic,
}
#[derive(Clone, Debug)]
pub struct Ans {
    pub val: AnsVal,
    pub susp: u32,
}

pub struct Rec {
    pub text: String,
    pub done: bool,
}

#[derive(Default)]
pub struct Rt {
    pub oracle: Vec<Ans>,
    pub idx: usize,
    pub trace: Vec<Rec>,
    pub cdrops: Vec<u32>,
    pub pdrops: Vec<u32>,
    pub pend: u32,
    pub overlap: bool,
}

thread_local! {
    pub static RT: RefCell<Rt> = RefCell::new(Rt::default());
}

// ---- resources with identity

#[derive(Debug)]
pub struct Ctx(pub u32);
impl Default for Ctx {
    fn default() -> Self {
        Ctx(0)
    }
}
/// as for `D3`: an inherent `default()` that is not the `Default` impl (`<Ctx>::default()` finds this one)
impl Ctx {
    #[allow(clippy::should_implement_trait)]
    pub fn default() -> Self {
        Ctx(99)
    }
}
/// a clone is a different value (another identity, its own drop): the generated code has no reason to make one
impl Clone for Ctx {
    fn clone(&self) -> Self {
        Ctx(self.0 + 1000)
    }
}
impl Drop for Ctx {
    fn drop(&mut self) {
        let id = self.0;
        let _ = RT.try_with(|r| r.borrow_mut().cdrops.push(id));
    }
}
pub trait HasId {
    fn id(&self) -> u32;
}
impl HasId for Ctx {
    fn id(&self) -> u32 {
        self.0
    }
}

#[derive(Debug)]
pub struct P(pub u32);
impl Clone for P {
    fn clone(&self) -> Self {
        P(self.0 + 1000)
    }
}
impl Drop for P {
    fn drop(&mut self) {
        let id = self.0;
        let _ = RT.try_with(|r| r.borrow_mut().pdrops.push(id));
    }
}

macro_rules! data_ty {
    ($n:ident) => {
        #[derive(Debug, Default, PartialEq, Clone)]
        pub struct $n(pub u64);
    };
}
data_ty!(D0);
data_ty!(D1);
data_ty!(D2);
data_ty!(D3);
/// an inherent associated function that shadows the trait method for the path `<D3>::default()` /
/// `D3::default()`: generated code must create state data through the `Default` trait, not through whatever
/// `default` resolves to on the user's type
impl D3 {
    #[allow(clippy::should_implement_trait)]
    pub fn default() -> Self {
        D3(77)
    }
}

/// state data as the harness sees it: a number that can be read and written, whatever the Rust type
pub trait DV {
    fn get(&self) -> u64;
    fn make(v: u64) -> Self;
}
macro_rules! dv_newtype {
    ($n:ident) => {
        impl DV for $n {
            fn get(&self) -> u64 {
                self.0
            }
            fn make(v: u64) -> Self {
                $n(v)
            }
        }
    };
}
dv_newtype!(D0);
dv_newtype!(D1);
dv_newtype!(D2);
dv_newtype!(D3);
/// a borrowed data type that implements Default: the value is the length of the string
impl DV for &'static str {
    fn get(&self) -> u64 {
        self.len() as u64
    }
    fn make(v: u64) -> Self {
        Box::leak("x".repeat(v as usize).into_boxed_str())
    }
}
pub fn bump<T: DV>(slot: &mut T, v: u64) {
    *slot = T::make(slot.get() + v);
}

/// a method of the user's impl that the generated code has no business calling (the target of a legacy key)
pub fn stray(name: &str) {
    RT.with(|r| r.borrow_mut().trace.push(Rec { text: format!("stray.{}", name), done: true }));
}

pub fn opt_str(o: Option<u64>) -> String {
    match o {
        Some(v) => v.to_string(),
        None => "-".to_string(),
    }
}

pub fn sname<S>() -> &'static str {
    let n = core::any::type_name::<S>();
    n.rsplit("::").next().unwrap_or(n)
}

// ---- hooks

pub fn begin(kind: &str, name: &str, state: &str, slots: String, ctx: u32, pl: Option<u32>) -> (usize, Ans) {
    RT.with(|r| {
        let mut r = r.borrow_mut();
        if let Some(last) = r.trace.last() {
            if !last.done {
                r.overlap = true;
            }
        }
        let a = if r.idx < r.oracle.len() {
            r.oracle[r.idx].clone()
        } else {
            Ans { val: AnsVal::Default, susp: 0 }
        };
        r.idx += 1;
        let text = format!(
            "{}.{}.{}.{}.{}.{}",
            kind,
            name,
            state,
            slots,
            ctx,
            match pl {
                Some(p) => p.to_string(),
                None => "-".to_string(),
            }
        );
        r.trace.push(Rec { text, done: false });
        (r.trace.len() - 1, a)
    })
}

pub fn end(rec: usize) {
    RT.with(|r| r.borrow_mut().trace[rec].done = true);
}

pub fn check_panic(a: &Ans, name: &str) {
    if let AnsVal::Panic = a.val {
        panic!("HOOKPANIC:{}", name);
    }
}
pub fn guard_val(a: &Ans) -> bool {
    match a.val {
        AnsVal::Bool(b) => b,
        _ => true,
    }
}
pub fn unless_val(a: &Ans) -> bool {
    match a.val {
        AnsVal::Bool(b) => b,
        _ => false,
    }
}

/// a future that returns Pending `0` times, then Ready
pub struct Susp(pub u32);
impl Future for Susp {
    type Output = ();
    fn poll(mut self: Pin<&mut Self>, cx: &mut Context<'_>) -> Poll<()> {
        if self.0 == 0 {
            Poll::Ready(())
        } else {
            self.0 -= 1;
            cx.waker().wake_by_ref();
            Poll::Pending
        }
    }
}

fn noop_raw() -> RawWaker {
    fn clone(_: *const ()) -> RawWaker {
        noop_raw()
    }
    fn noop(_: *const ()) {}
    static VT: RawWakerVTable = RawWakerVTable::new(clone, noop, noop, noop);
    RawWaker::new(core::ptr::null(), &VT)
}

/// poll to completion, or drop the future at its `budget`-th Pending
pub fn drive<F: Future>(f: F, budget: Option<u32>) -> Option<F::Output> {
    let waker = unsafe { Waker::from_raw(noop_raw()) };
    let mut cx = Context::from_waker(&waker);
    let mut f = Box::pin(f);
    let mut n = 0u32;
    loop {
        match f.as_mut().poll(&mut cx) {
            Poll::Ready(v) => return Some(v),
            Poll::Pending => {
                n += 1;
                RT.with(|r| r.borrow_mut().pend += 1);
                if Some(n) == budget {
                    return None;
                }
            }
        }
    }
}

// ---- results

pub fn kind_str(k: &state_machines::core::TransitionErrorKind) -> String {
    use state_machines::core::TransitionErrorKind as K;
    match k {
        K::GuardFailed { guard } => format!("gf({})", guard),
        K::ActionFailed { action } => format!("af({})", action),
        K::InvalidTransition => "inv".to_string(),
    }
}
pub fn gerr_str(e: &state_machines::core::GuardError) -> String {
    format!("err:G({},{},{})", e.guard, e.event, kind_str(&e.kind))
}
pub fn derr_str(e: &state_machines::DynamicError) -> String {
    use state_machines::DynamicError as D;
    match e {
        D::InvalidTransition { from, event } => format!("err:IT({},{})", from, event),
        D::GuardFailed { guard, event } => format!("err:GF({},{})", guard, event),
        D::ActionFailed { action, event } => format!("err:AF({},{})", action, event),
        D::WrongState { expected, actual, operation } => format!("err:WS({},{},{})", expected, actual, operation),
    }
}
pub fn panic_str(p: Box<dyn std::any::Any + Send>) -> String {
    let msg = if let Some(s) = p.downcast_ref::<String>() {
        s.clone()
    } else if let Some(s) = p.downcast_ref::<&'static str>() {
        s.to_string()
    } else {
        String::new()
    };
    if let Some(n) = msg.strip_prefix("HOOKPANIC:") {
        return format!("panic:hook({})", n);
    }
    let parts: Vec<&str> = msg.split('\'').collect();
    if parts.len() >= 5 {
        return format!("panic:q({},{})", parts[1], parts[3]);
    }
    "panic:msg".to_string()
}

// ---- script driver

pub struct Op {
    pub name: String,
    pub a1: String,
    pub a2: String,
    pub budget: Option<u32>,
}

pub trait Driver {
    fn reset(&mut self);
    /// performs the op, returns the result field
    fn op(&mut self, op: &Op) -> String;
    fn holder(&mut self) -> String;
}

fn leak(s: &str) -> &'static str {
    Box::leak(s.to_string().into_boxed_str())
}

fn parse_oracle(s: &str) -> Vec<Ans> {
    if s == "." || s.is_empty() {
        return Vec::new();
    }
    s.split(',')
        .map(|t| {
            let (v, susp) = match t.split_once('@') {
                Some((v, k)) => (v, k.parse().unwrap()),
                None => (t, 0),
            };
            let val = if v == "-" {
                AnsVal::Default
            } else if v == "t" {
                AnsVal::Bool(true)
            } else if v == "f" {
                AnsVal::Bool(false)
            } else if v == "X" {
                AnsVal::Panic
            } else if v == "Ai" {
                AnsVal::AbortInvalid
            } else if let Some(n) = v.strip_prefix("Ag:") {
                AnsVal::AbortGuard(leak(n))
            } else if let Some(n) = v.strip_prefix("Aa:") {
                AnsVal::AbortAction(leak(n))
            } else {
                panic!("bad oracle token {}", v)
            };
            Ans { val, susp }
        })
        .collect()
}

pub fn pl_of(s: &str) -> Option<u32> {
    if s == "-" { None } else { Some(s.parse().unwrap()) }
}

pub fn run(drivers: &mut [Box<dyn Driver>]) {
    use std::io::BufRead;
    std::panic::set_hook(Box::new(|_| {}));
    let stdin = std::io::stdin();
    let mut cur = 0usize;
    let out = std::io::stdout();
    let mut out = std::io::BufWriter::new(out.lock());
    use std::io::Write;
    for line in stdin.lock().lines() {
        let line = line.unwrap();
        let w: Vec<&str> = line.split_whitespace().collect();
        if w.is_empty() {
            continue;
        }
        match w[0] {
            "M" => {
                cur = w[1].parse().unwrap();
                drivers[cur].reset();
                writeln!(out, "#M {}", cur).unwrap();
                continue;
            }
            "S" => {
                drivers[cur].reset();
                RT.with(|r| *r.borrow_mut() = Rt::default());
                writeln!(out, "#S").unwrap();
                continue;
            }
            _ => {}
        }
        // op a1 a2 oracle b=..
        let name = w[0].to_string();
        let a1 = w.get(1).unwrap_or(&"-").to_string();
        let a2 = w.get(2).unwrap_or(&"-").to_string();
        let oracle = parse_oracle(w.get(3).unwrap_or(&"."));
        let budget = match w.get(4) {
            Some(b) => {
                let v = b.strip_prefix("b=").unwrap();
                if v == "-" { None } else { Some(v.parse().unwrap()) }
            }
            None => None,
        };
        RT.with(|r| {
            let mut r = r.borrow_mut();
            *r = Rt::default();
            r.oracle = oracle;
        });
        let op = Op { name, a1, a2, budget };
        let res = drivers[cur].op(&op);
        let holder = drivers[cur].holder();
        RT.with(|r| {
            let r = r.borrow();
            let tr: Vec<String> = r
                .trace
                .iter()
                .map(|x| if x.done { x.text.clone() } else { format!("{}!", x.text) })
                .collect();
            let mut c = r.cdrops.clone();
            c.sort();
            let mut p = r.pdrops.clone();
            p.sort();
            let js = |v: &Vec<u32>| v.iter().map(|x| x.to_string()).collect::<Vec<_>>().join(",");
            writeln!(
                out,
                "{}|{}{}|c={}|p={}|n={}|{}",
                res,
                tr.join(","),
                if r.overlap { ",OVERLAP" } else { "" },
                js(&c),
                js(&p),
                r.pend,
                holder
            )
            .unwrap();
        });
    }
}

pub struct NoDriver;
impl Driver for NoDriver {
    fn reset(&mut self) {}
    fn op(&mut self, _op: &Op) -> String {
        "nomachine".to_string()
    }
    fn holder(&mut self) -> String {
        "N".to_string()
    }
}
