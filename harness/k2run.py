"""K2 stages: build the behaviour crate for the corpus, run a script family on it, compare with the model."""
import os
import random
import re
import shutil
import subprocess
import corpus
import coqrun
import k2
import smgen
import stages


def k2_build(ctx):
    defs, twins = corpus.k2_definitions(ctx.tier, ctx.seed)
    exp = ctx.stage('expander', lambda: stages.expander_build(ctx.dir))
    if not exp['ok']:
        return {'ok': False, 'why': 'expander does not build against /repo', 'log': exp['log']}
    skels = stages.expand(exp['bins'][False], [smgen.dsl_defn(d, vary=True) for d in defs])
    rejected = [i for i, s in enumerate(skels) if not s.get('ok') or 'items' not in s]
    live = [i for i in range(len(defs)) if i not in rejected]
    crate = os.path.join(ctx.dir, 'k2crate')
    tgt = os.path.join(stages.CACHE, 'target-k2')
    compile_errors = {}
    log = ''
    for attempt in range(4):
        if os.path.exists(crate):
            shutil.rmtree(crate)
        mods = [(i, k2.rust_module(i, defs[i], skels[i])) for i in live]
        k2.write_crate(crate, mods)
        shutil.copy(os.path.join(stages.REPO, 'Cargo.lock'), os.path.join(crate, 'Cargo.lock'))
        rc, so, se = stages.sh(['cargo', 'build', '--offline'], cwd=crate,
                               env=dict(stages.ENV, CARGO_TARGET_DIR=tgt), timeout=3000)
        log = se[-8000:]
        if rc == 0:
            break
        bad = set(int(m) for m in re.findall(r'--> src/m(\d+)\.rs', se))
        if not bad:
            return {'ok': False, 'why': 'behaviour crate does not build', 'log': log}
        for b in bad:
            msgs = re.findall(r'(error[^\n]*\n\s*--> src/m%d\.rs[^\n]*)' % b, se)
            compile_errors[b] = msgs[:3]
        live = [i for i in live if i not in bad]
    else:
        return {'ok': False, 'why': 'behaviour crate does not build', 'log': log}
    binp = os.path.join(ctx.dir, 'k2bin')
    shutil.copy(os.path.join(tgt, 'debug', 'sm-k2'), binp)
    return {'ok': True, 'defs': defs, 'skels': skels, 'twins': twins, 'bin': binp, 'live': live,
            'rejected': rejected, 'compile_errors': compile_errors}


def _coq_defs(b, idxs):
    out = []
    for i in idxs:
        out.append('Definition d%d : defn := %s.' % (i, smgen.coq_defn(b['defs'][i])))
        out.append('Definition g%d := Eval vm_compute in (gir_of false d%d).' % (i, i))
    return out


def k2_family(ctx, fam):
    b = ctx.stage('k2build', lambda: k2_build(ctx))
    if not b['ok']:
        return {'ok': False, 'why': b['why'], 'log': b.get('log', '')}
    jobs = []
    mis = {}
    for i in b['live']:
        mi = corpus.MI(i, b['defs'][i], b['skels'][i])
        if fam == 'async' and not mi.is_async:
            # sync twins of async machines run the async family too (same scripts, see C15)
            if not any(i == t[1] for t in b['twins']):
                continue
        mis[i] = mi
    for i, mi in mis.items():
        rnd = random.Random('%d|%s|%d' % (ctx.seed, fam, i))
        if fam == 'async' and any(i == t[1] for t in b['twins']):
            continue   # filled from the async twin below
        scripts = corpus.FAMILIES[fam](mi, rnd, ctx.tier)
        if scripts:
            jobs.append((i, scripts))
    if fam == 'async':
        byi = dict(jobs)
        for (a, s) in b['twins']:
            if a in byi and s in mis:
                jobs.append((s, byi[a]))
    real = k2.run_scripts(b['bin'], jobs)
    # model side, sharded over 16 coqc
    shards = [[] for _ in range(16)]
    order = sorted(jobs, key=lambda j: -sum(len(s) for s in j[1]))
    loads = [0] * 16
    for (i, scripts) in order:
        k = loads.index(min(loads))
        loads[k] += sum(len(s) for s in scripts) + 5
        body = _coq_defs(b, [i])
        for si, s in enumerate(scripts):
            body.append('Eval vm_compute in ("R", %d, %d, chk g%d [%s] [%s]).' % (
                i, si, i, '; '.join(k2.op_coq(o) for o in s),
                '; '.join('"%s"' % l.replace('"', "'") for l in real[(i, si)])))
        shards[k].extend(body)
    out = coqrun.run_shards(os.path.join(ctx.dir, 'coq_' + fam), ['\n'.join(s) for s in shards if s])
    R = coqrun.parse_R(out)
    nscripts = sum(len(s) for _, s in jobs)
    nlines = sum(len(s) for _, ss in jobs for s in ss)
    missing = [(i, si) for i, ss in jobs for si in range(len(ss)) if (i, si) not in R]
    bad = {k: v for k, v in R.items() if v}
    mism = []
    if bad:
        keys = sorted(bad)[:40]
        body = _coq_defs(b, sorted(set(i for i, _ in keys)))
        byi = dict(jobs)
        for (i, si) in keys:
            body.append('Eval vm_compute in ("L", %d, %d, model_lines g%d [%s]).' % (
                i, si, i, '; '.join(k2.op_coq(o) for o in byi[i][si])))
        out2 = coqrun.run_shards(os.path.join(ctx.dir, 'coq_' + fam + '_L'), ['\n'.join(body)])
        L = coqrun.parse_L(out2)
        for (i, si) in keys:
            mism.append({'machine': i, 'script': si, 'dsl': smgen.dsl_defn(b['defs'][i]), 'defn': b['defs'][i],
                         'ops': [k2.op_text(o) for o in byi[i][si]],
                         'model': L.get((i, si), []), 'real': real[(i, si)], 'lines': bad[(i, si)]})
    samples = []
    for (i, ss) in jobs[:2]:
        samples.append({'machine': i, 'dsl': smgen.dsl_defn(b['defs'][i]),
                        'script': [k2.op_text(o) for o in ss[0]], 'observed': real[(i, 0)]})
    distinct = len(set((i, tuple(k2.op_text(o) for o in s)) for i, ss in jobs for s in ss))
    return {'ok': True, 'family': fam, 'machines': len(jobs), 'scripts': nscripts, 'lines': nlines,
            'distinct_scripts': distinct, 'n_bad_scripts': len(bad), 'missing': missing, 'mismatches': mism,
            'samples': samples, 'jobs_index': [(i, len(ss)) for i, ss in jobs],
            'real': real if fam in ('pair', 'async') else None,
            'jobs': jobs if fam in ('pair', 'async') else None}
