//! K4: every core constructor, the GuardError -> DynamicError conversion and the abort helper macros,
//! on the product of the three error kinds with a pool of names.  One canonical line per call.
use state_machines::core::{AroundOutcome, GuardError, TransitionContext, TransitionError, TransitionErrorKind};
use state_machines::{abort_guard, abort_with, DynamicError};

#[derive(Debug, Clone, Copy, PartialEq, Eq)]
struct St(&'static str);

fn kind_str(k: &TransitionErrorKind) -> String {
    match k {
        TransitionErrorKind::GuardFailed { guard } => format!("gf({})", guard),
        TransitionErrorKind::ActionFailed { action } => format!("af({})", action),
        TransitionErrorKind::InvalidTransition => "inv".to_string(),
    }
}
fn te(e: &TransitionError<St>) -> String {
    format!("TE({},{},{})", e.from.0, e.event, kind_str(&e.kind))
}
fn ge(e: &GuardError) -> String {
    format!("G({},{},{})", e.guard, e.event, kind_str(&e.kind))
}
fn de(e: &DynamicError) -> String {
    match e {
        DynamicError::InvalidTransition { from, event } => format!("IT({},{})", from, event),
        DynamicError::GuardFailed { guard, event } => format!("GF({},{})", guard, event),
        DynamicError::ActionFailed { action, event } => format!("AF({},{})", action, event),
        DynamicError::WrongState { expected, actual, operation } => format!("WS({},{},{})", expected, actual, operation),
    }
}
fn ao(o: &AroundOutcome<St>) -> String {
    match o {
        AroundOutcome::Proceed => "Proceed".to_string(),
        AroundOutcome::Abort(e) => format!("Abort({})", te(e)),
    }
}
fn leak(s: &str) -> &'static str {
    Box::leak(s.to_string().into_boxed_str())
}

mod guard_names {
    pub const BY_PATH: &str = "named_by_a_path";
}

fn main() {
    use std::io::BufRead;
    let names: Vec<&'static str> = std::io::stdin().lock().lines().map(|l| leak(l.unwrap().trim())).filter(|s| !s.is_empty()).collect();
    for &a in &names {
        for &b in &names {
            println!("te_invalid|{}|{}|{}", a, b, te(&TransitionError::invalid_transition(St(a), b)));
            println!("ge_new|{}|{}|{}", a, b, ge(&GuardError::new(a, b)));
            println!("de_invalid|{}|{}|{}", a, b, de(&DynamicError::invalid_transition(a, b)));
            println!("de_guard|{}|{}|{}", a, b, de(&DynamicError::guard_failed(a, b)));
            println!("de_action|{}|{}|{}", a, b, de(&DynamicError::action_failed(a, b)));
            println!("dbg_de_invalid|{}|{}|{:?}", a, b, DynamicError::invalid_transition(a, b));
            println!("dbg_de_guard|{}|{}|{:?}", a, b, DynamicError::guard_failed(a, b));
            println!("dbg_de_action|{}|{}|{:?}", a, b, DynamicError::action_failed(a, b));
            println!("dbg_ge|{}|{}|{:?}", a, b, GuardError::new(a, b));
            for &c in &names {
                println!("te_guard|{}|{}|{}|{}", a, b, c, te(&TransitionError::guard_failed(St(a), b, c)));
                println!("de_wrong|{}|{}|{}|{}", a, b, c, de(&DynamicError::wrong_state(a, b, c)));
                println!("dbg_de_wrong|{}|{}|{}|{:?}", a, b, c, DynamicError::wrong_state(a, b, c));
                println!("eq_de|{}|{}|{}|{}{}{}{}{}", a, b, c,
                    (DynamicError::wrong_state(a, b, "op") == DynamicError::wrong_state(a, c, "op")) as u8,
                    (DynamicError::wrong_state(b, a, "op") == DynamicError::wrong_state(c, a, "op")) as u8,
                    (DynamicError::wrong_state(a, "x", b) == DynamicError::wrong_state(a, "x", c)) as u8,
                    (DynamicError::invalid_transition(a, b) == DynamicError::invalid_transition(a, c)) as u8,
                    (DynamicError::guard_failed(b, a) == DynamicError::action_failed(b, a)) as u8);
                println!("eq_ge|{}|{}|{}|{}{}", a, b, c,
                    (GuardError::new(a, b) == GuardError::new(a, c)) as u8,
                    (GuardError::with_kind(a, "e", TransitionErrorKind::GuardFailed { guard: b }) == GuardError::with_kind(a, "e", TransitionErrorKind::GuardFailed { guard: c })) as u8);
                let kinds = [
                    TransitionErrorKind::GuardFailed { guard: c },
                    TransitionErrorKind::ActionFailed { action: c },
                    TransitionErrorKind::InvalidTransition,
                ];
                for k in kinds.iter() {
                    println!("ge_with|{}|{}|{}|{}", a, b, kind_str(k), ge(&GuardError::with_kind(a, b, k.clone())));
                    println!("from_ge|{}|{}|{}|{}", a, b, kind_str(k), de(&DynamicError::from_guard_error(GuardError::with_kind(a, b, k.clone()))));
                    let ctx = TransitionContext::new(St(a), St("to"), b);
                    println!("abort_with|{}|{}|{}|{}", a, b, kind_str(k), ao(&abort_with!(ctx, k.clone())));
                    // the kind held in a local variable: a bare identifier as the macro's second argument
                    let ctx = TransitionContext::new(St(a), St("to"), b);
                    let kind_in_a_local = k.clone();
                    println!("abort_with_var|{}|{}|{}|{}", a, b, kind_str(k), ao(&abort_with!(ctx, kind_in_a_local)));
                }
                let ctx = TransitionContext::new(St(a), St("to"), b);
                println!("abort_guard_expr|{}|{}|{}|{}", a, b, c, ao(&abort_guard!(ctx, (c))));
            }
            let ctx = TransitionContext::new(St(a), St("to"), b);
            println!("abort_guard_ident|{}|{}|{}", a, b, ao(&abort_guard!(ctx, some_guard_ident)));
            let ctx = TransitionContext::new(St(a), St("to"), b);
            println!("abort_guard_lit|{}|{}|{}", a, b, ao(&abort_guard!(ctx, "a_string_literal")));
            let ctx = TransitionContext::new(St(a), St("to"), b);
            println!("abort_guard_path|{}|{}|{}", a, b, ao(&abort_guard!(ctx, guard_names::BY_PATH)));
        }
    }
}
