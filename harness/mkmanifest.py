#!/usr/bin/env python3
"""Writes /verif/MANIFEST.json from the table below (kept in one place so it stays valid)."""
import json
import os
import subprocess

VERIF = os.path.dirname(os.path.dirname(os.path.abspath(__file__)))

CLAIMED = {
    'C01': ('Theorems C01_one_step_follows_delta / C01_history_is_fold_of_delta (Rocq): for every accepted definition, every event '
            'sequence, payload and hook behaviour, the wrapper state is the declared relation folded over the accepted events; '
            'tied to the code by K1 (front-end verdicts, real macro as a library) and K2 (compiled machines, BFS to every (state,event) pair).',
            'proof over the model + differential correspondence'),
    'C03': ('Theorems C03_stops_at_first_blocking_condition / C03_fires_iff_no_condition_blocks / C03_condition_order (Rocq) for every '
            'edge, input and oracle; K2 runs all truth assignments of up to 5 (quick) / 8 (thorough) conditions per edge on compiled machines.',
            'proof over the model + exhaustive truth tables on compiled machines'),
    'C04': ('Theorems C04_success_trace / C04_documented_order / C04_views / C04_event_level_first (Rocq); K2 compares complete hook traces '
            'with views (state, slots, context id, payload id) on compiled sync and async machines.',
            'proof over the model + trace correspondence'),
    'C05': ('Theorems C05_refused_typed_call_returns_the_machine_intact / C05_retry_after_refusal_succeeds / C05_refused_handle_leaves_wrapper_unchanged / '
            'C05_refusal_is_a_noop_anywhere_in_a_history (Rocq); K2 inserts refusals at every position of histories with modified data.',
            'proof over the model + history correspondence'),
    'C06': ('Theorems C06_abort_before_vetoes / C06_abort_after_panics / C06_after_stage_only_after_success / '
            'C06_refused_runs_no_later_hook (Rocq); K2 aborts at every around position, kind and stage, typed and dynamic; K4 checks the abort macros that build the aborts.',
            'proof over the model + abort matrix on compiled machines'),
    'C07': ('Theorems C07_sources_and_targets_resolve / C07_graph_is_declared_relation / C07_substate_of_exactly_containing_superstates '
            '(Rocq, induction on the forest, no depth bound); K1 verdicts + K2 reachable matrix.',
            'proof over the model (unbounded forests) + correspondence'),
    'C09': ('Theorem C09_handle_is_the_typed_call_wrapped (Rocq): handle() is the typed call wrapped, or the InvalidTransition refusal '
            'when no method exists; K2 runs the same call through both modes and also compares the two real runs with each other.',
            'proof over the model + pairwise differential runs'),
    'C08': ('Theorems C08_data_present_iff_in_state_along_every_history (invariant by induction over op histories) / C08_entry_creates_default / '
            'C08_new_creates_default / C08_infallible_accessor_never_panics / C08_modification_kept (Rocq); K2 reads every slot through every '
            'accessor after every step of histories with re-entry, self-transitions, refusals, mutations and conversions.',
            'proof over the model (invariant over histories) + slot-by-slot correspondence'),
    'C10': ('Theorems C10_conversions_exact / C10_into_state_lossless / C10_conversions_keep_context / C10_default_is_new_of_default (Rocq); '
            'K2 tries every into_<s>() from every reachable state, interleaved with transitions, Default vs new(Default::default()).',
            'proof over the model + conversion matrix on compiled machines'),
    'C11': ('Theorems C11_accessors_gated_by_state / C11_accessor_is_generated / C11_typed_accessor_after_conversion (Rocq); K2 runs '
            'set/mutate/read/transition sequences with several data states per machine.',
            'proof over the model + accessor sequences on compiled machines'),
    'C16': ('Theorems C16_hooks_see_the_machines_context_and_the_callers_payload / C16_transition_carries_the_context / '
            'C16_context_conserved_by_every_operation / C16_context_dropped_exactly_once_over_a_history (Rocq); K2 uses drop-counting, Clone-tracking context and payload values with identities in the walk, refuse, conv, abandon and around families.',
            'proof over the model + drop accounting on compiled machines'),
    'C02': ('Theorems C02_method_exists_iff_transition_applies / C02_methods_are_the_edges_of_the_event / C02_new_only_on_initial_state / '
            'C02_infallible_accessors_on_own_state_only / C02_no_method_through_a_superstate_bound (Rocq) about the inherent methods each generated state impl carries. PARTIAL: '
            '"can be called" is rustc method resolution -- decided by K3: per machine one positive or negative probe per (leaf, event), '
            'per state a `new` probe, per (state, data state) an accessor probe; rustc\'s error lines must equal the model\'s. K1 compares '
            'the generated signatures with the model for every corpus definition.',
            'proof over the model + rustc probe matrix (positive and negative)'),
    'C12': ('Theorems C12_guard_errors_carry_declared_names / C12_invalid_transition_names_current_state / '
            'C12_event_variants_and_methods_named_as_declared / C12_core_functions_and_macros_preserve_names (Rocq, all names, three kinds); '
            'K2 compares error fields on refusals; K4 calls every core constructor, from_guard_error, abort_guard! (both arms) and abort_with! '
            'on kinds x a name pool.',
            'proof over the model + exhaustive core-algebra table'),
    'C13': ('Theorems C13_accepted_definitions_are_well_formed (every rule of the list, by contraposition) / '
            'C13_coherent_expansion_is_unambiguous / C13_accepted_means_what_it_says (Rocq); K1 runs the real front end on every rule class x '
            'position mutant of the corpus (model verdict = macro verdict); K3 compiles the rejected definitions and the ambiguous ones: each '
            'must produce a compiler diagnostic.',
            'proof over the model + mutant corpus through the real macro and rustc'),
    'C14': ('Theorems C14_front_end_accepts_exactly_the_well_formed_definitions (iff) / C14_dynamic_api_iff_requested / '
            'C14_generated_item_names_follow_the_convention (Rocq). PARTIAL: type/borrow/trait checking of emitted bodies is rustc\'s -- decided '
            'by K3: the compile corpus over the option product in both dynamic configurations, drivers using only documented item names; K1 '
            'compares all generated items with the model.',
            'proof over the model (front end: exact characterisation) + compile corpus'),
    'C15': ('Theorems C15_async_equals_sync / C15_hooks_awaited_one_at_a_time / C15_await_on_every_call / '
            'C15_dropped_future_is_abandoned_or_identical (Rocq, every suspension count / budget); K2 runs async machines under a poll-loop '
            'executor with 0..3 suspensions per hook and compares with sync twins. PARTIAL for the Send clause: decided by K3 Send probes on every '
            'typed method future and handle(), with a non-Send-context control.',
            'proof over the model + async/sync twin runs + Send probes'),
    'C17': ('Theorems C17_markers_are_exactly_leaves_and_superstates / C17_machine_without_data_is_its_context (Rocq, field-level). PARTIAL: '
            'no_std acceptance, zero-sized markers, MachineState bounds and size_of are rustc facts -- decided by K3: every corpus machine built '
            'in a #![no_std] crate without alloc, with const size assertions and bound probes.',
            'proof over the model (emitted items) + no_std build with const assertions'),
    'C18': ('Theorems C18_front_end_is_natural_in_identifiers (front (rn d) = rn (front d) for every injective renaming that respects '
            'snake_case-ness) / C18_renamed_definition_is_the_relabelled_twin (codegen commutes with the renaming, derived names re-derived) / '
            'C18_renamed_definition_behaves_like_its_twin (dispatch, typed methods, construction, conversion, accessors) / '
            'C18_method_run_is_natural_in_identifiers / C18_dispatch_is_natural_in_identifiers / C18_success_does_not_depend_on_hook_names / '
            'C18_hygienic_characterisation / C18_refuted_by_generic_parameter_capture (Rocq). The twin theorems assume injective relabellings '
            'of the derived namespaces compatible with the renaming (absent exactly on the name-collision class). Which shadowings rustc '
            'rejects and the capture by the generated type parameters are rustc facts decided by K3: every role x an adversarial identifier '
            'pool is compiled; every variant that compiles is run against the model of the renamed definition. The generic-parameter '
            'capture is a recorded known finding.',
            'proof over the model (equivariance of front end, code generator and run-time semantics; refutation witness) + adversarial renaming through rustc'),
    'C19': ('Theorems C19_outcomes_of_handle / C19_poisoned_wrapper_is_unavailable / C19_dropped_handle_future_poisons_or_is_the_complete_call / '
            'C19_future_dropped_before_its_first_poll_has_no_effect / C19_completed_dispatch_stays_in_a_declared_state (Rocq, all budgets); K2 panics '
            'every hook and drops the async future at every suspension point and before its first poll, then tries every public op.',
            'proof over the model + fault enumeration on compiled machines'),
}

LEVEL_NOTE = ('Trusted: Coq 8.16.1 kernel (vm_compute for evaluation), no axioms; the hand-written Gallina model of the macro and of the '
              'generated code\'s run-time behaviour; the correspondence harness (expander crate, K2 crate generator/runtime, Python '
              'printers) and rustc. Assumed: Rust evaluates statements in order, match takes the first arm, moves/drops/unwinding/.await '
              'behave as stated in DESIGN.md 3.6 (exercised by K2 on every run).')

ALL = ['C%02d' % i for i in range(1, 20)]


def main():
    commits = subprocess.run(['git', '-C', '/repo', 'log', '--format=%h %s', '796ab40..HEAD'],
                             capture_output=True, text=True).stdout.strip().splitlines()
    checks = []
    for p in ALL:
        if p not in CLAIMED:
            continue
        text, tech = CLAIMED[p]
        checks.append({
            'property_id': p,
            'quick_cmd': './check %s --tier quick' % p,
            'thorough_cmd': './check %s --tier thorough' % p,
            'evidence_file': '/verif/evidence/%s.json' % p,
            'replay_cmd_template': './check %s --replay {path}' % p,
            'engine': 'rocq+correspondence',
            'level_claimed': {'category': 'proof', 'text': text, 'design_ref': 'DESIGN.md section 4 (%s)' % p},
            'level_note': LEVEL_NOTE,
            'technique': 'machine-checked proof in Rocq (Coq 8.16) about a model of the macro; ' + tech,
        })
    na = [{'property_id': p, 'reason': 'not claimed'} for p in ALL if p not in CLAIMED]
    man = {
        'version': 1,
        'setup_cmd': './check --setup',
        'hooks': {
            'guard': 'state_machines_rs_verif',
            'enable': 'none needed: the macro is driven as a library through #[path] includes and the generated code through its public API',
            'baseline_off_cmd': 'cd /repo && cargo test --workspace --no-fail-fast --offline',
            'source_commits': commits,
            'add_only': True,
        },
        'engines': [{'name': 'rocq+correspondence', 'path': '/verif/check', 'serves_properties': [c['property_id'] for c in checks],
                     'kind_free_text': 'Rocq proofs (coq/) + differential correspondence checks K1/K2 (harness/)'}],
        'checks': checks,
        'not_applicable': na,
        'notes': 'source_commits lists the unguarded fix: commits made to /repo (no hook commits exist).',
    }
    with open(os.path.join(VERIF, 'MANIFEST.json'), 'w') as f:
        json.dump(man, f, indent=1)
    print('wrote MANIFEST.json with', len(checks), 'checks')


if __name__ == '__main__':
    main()
