#!/usr/bin/env python3
"""Pins the property statements: records the sha256 of every coq/Properties/Cnn.v in PINS.json; the proof
gate refuses a property file whose hash differs (so a statement cannot be weakened without re-pinning)."""
import hashlib
import json
import os

d = os.path.join(os.path.dirname(os.path.dirname(os.path.abspath(__file__))), 'coq', 'Properties')
pins = {}
for f in sorted(os.listdir(d)):
    if f.endswith('.v'):
        with open(os.path.join(d, f), 'rb') as fh:
            pins[f[:-2]] = hashlib.sha256(fh.read()).hexdigest()
with open(os.path.join(d, 'PINS.json'), 'w') as fh:
    json.dump(pins, fh, indent=1)
print('pinned', len(pins), 'property files')
