#!/usr/bin/env python3
"""mkseedindex.py [<seed id> <nsrun result.json> ...]: merges re-run results into seeded/<id>/meta.json (a check that was
strengthened after the first evaluation of a seed) and regenerates seeded/INDEX.md from the meta files."""
import glob
import json
import os
import sys

args = sys.argv[1:]
for sid, path in zip(args[0::2], args[1::2]):
    mp = os.path.join('/verif/seeded', sid, 'meta.json')
    m = json.load(open(mp))
    res = json.load(open(path))
    for p, r in res.items():
        old = m['checks'].get(p, {})
        m['checks'][p] = {'rc': r['rc'], 'violations': len(r['violations']),
                          'first': (r['detail'][0].strip()[:300] if r['detail'] else ''),
                          'no_failing_input_found': any('no-failing-input-found' in l for l in r['violations']),
                          'rerun_after_strengthening': True, 'first_evaluation_rc': old.get('rc')}
    m['detected_by'] = sorted(p for p, c in m['checks'].items() if c['rc'] != 0)
    json.dump(m, open(mp, 'w'), indent=1)

rows = ['| seed | change | needs | caught by (own property first; * = with a concrete failing input) |', '|---|---|---|---|']
n = 0
for d in sorted(glob.glob('/verif/seeded/*/meta.json')):
    m = json.load(open(d))
    own = m.get('property')
    det = m.get('detected_by', [])
    det = ([own] if own in det else []) + [p for p in det if p != own]

    def star(p):
        c = m.get('checks', {}).get(p, {})
        return p + ('' if c.get('no_failing_input_found') else '*')
    rows.append('| %s | %s | %s | %s |' % (m['id'], (m.get('summary') or '')[:170].replace('|', '/').replace('\n', ' '),
                                         (m.get('needs') or '')[:150].replace('|', '/').replace('\n', ' '),
                                         ', '.join(star(p) for p in det) or 'MISSED'))
    n += 1
open('/verif/seeded/INDEX.md', 'w').write('\n'.join(rows) + '\n')
print('indexed', n, 'seeds')
