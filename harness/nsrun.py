#!/usr/bin/env python3
"""nsrun.py <id> <patch.diff|-> <outdir> <prop> [<prop> ...]

Development aid (not used by any registered check): runs checks against a PATCHED COPY of /repo without touching
/repo, so that several seeded changes / refactorings can be evaluated at the same time.  A scratch git worktree of
/repo's HEAD gets the patch; inside a private mount namespace it is bind-mounted over /repo, a private copy of the
build cache over /verif/.cache, and scratch directories over /verif/evidence and /verif/replays; the unchanged
/verif/check then runs exactly as it does on /repo.  Everything scratch lives under /tmp/ns_<id>* and is removed
at the end (results stay in <outdir>)."""
import concurrent.futures
import json
import os
import shutil
import subprocess
import sys


def main():
    ident, patch, outdir = sys.argv[1], sys.argv[2], os.path.abspath(sys.argv[3])
    props = sys.argv[4:]
    par = int(os.environ.get('NSRUN_PAR', '4'))
    wt, cache, scratch = '/tmp/ns_%s_wt' % ident, '/tmp/ns_%s_cache' % ident, '/tmp/ns_%s_scratch' % ident
    os.makedirs(outdir, exist_ok=True)
    for d in (cache, scratch):
        shutil.rmtree(d, ignore_errors=True)
    subprocess.run(['git', '-C', '/repo', 'worktree', 'remove', '--force', wt], capture_output=True)
    r = subprocess.run(['git', '-C', '/repo', 'worktree', 'add', '-q', '--detach', wt, 'HEAD'], capture_output=True, text=True)
    if r.returncode != 0:
        print('worktree:', r.stderr)
        sys.exit(2)
    try:
        if patch != '-':
            r = subprocess.run(['git', '-C', wt, 'apply', os.path.abspath(patch)], capture_output=True, text=True)
            if r.returncode != 0:
                print('patch does not apply:', r.stderr)
                sys.exit(2)
        if not os.path.exists(os.path.join(wt, 'Cargo.lock')):      # untracked in the repository
            shutil.copy('/repo/Cargo.lock', os.path.join(wt, 'Cargo.lock'))
        os.makedirs(os.path.join(scratch, 'evidence'))
        os.makedirs(os.path.join(scratch, 'replays'))
        os.makedirs(cache)
        for d in os.listdir('/verif/.cache'):
            if d.startswith('target-'):
                subprocess.run(['cp', '-a', os.path.join('/verif/.cache', d), os.path.join(cache, d)])
        os.makedirs('/verif/replays', exist_ok=True)

        def run(p):
            inner = ('mount --bind %s /repo && mount --bind %s /verif/.cache && mount --bind %s/evidence /verif/evidence '
                     '&& mount --bind %s/replays /verif/replays && cd /verif && exec ./check %s --tier %s'
                     % (wt, cache, scratch, scratch, p, os.environ.get('NSRUN_TIER', 'quick')))
            q = subprocess.run(['unshare', '--mount', 'bash', '-c', inner], capture_output=True, text=True)
            with open(os.path.join(outdir, p + '.log'), 'w') as f:
                f.write(q.stdout + '\n--- stderr\n' + q.stderr[-3000:])
            v = [l for l in q.stdout.splitlines() if l.startswith('VIOLATION')]
            det = [l for l in q.stdout.splitlines() if l.startswith('  ')][:3]
            return p, q.returncode, v, det

        res = {}
        first = run(props[0])
        res[first[0]] = first[1:]
        with concurrent.futures.ThreadPoolExecutor(par) as ex:
            for p, rc, v, det in ex.map(run, props[1:]):
                res[p] = (rc, v, det)
        alarms = {p: r for p, r in res.items() if r[0] != 0}
        hard = [p for p, r in alarms.items() if not all(l.rstrip().endswith('no-failing-input-found') for l in r[1])]
        print('%s: %d/%d pass; alarms: %s; with failing input: %s' % (
            ident, len(res) - len(alarms), len(res), ' '.join(sorted(alarms)) or '-', ' '.join(sorted(hard)) or '-'))
        for p, r in sorted(alarms.items()):
            for l in r[2][:1]:
                print('    %s %s' % (p, l.strip()[:240]))
        # keep replays of alarms
        rp = os.path.join(scratch, 'replays')
        if os.listdir(rp):
            shutil.copytree(rp, os.path.join(outdir, 'replays'), dirs_exist_ok=True)
        json.dump({p: {'rc': r[0], 'violations': r[1][:3], 'detail': r[2][:2]} for p, r in res.items()},
                  open(os.path.join(outdir, 'result.json'), 'w'), indent=1)
    finally:
        subprocess.run(['git', '-C', '/repo', 'worktree', 'remove', '--force', wt], capture_output=True)
        shutil.rmtree(wt, ignore_errors=True)
        shutil.rmtree(cache, ignore_errors=True)
        shutil.rmtree(scratch, ignore_errors=True)


main()
