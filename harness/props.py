"""Per-property checks: proof gate + ties + known findings + evidence."""
import hashlib
import json
import os
import re
import subprocess
import sys
import time

import stages
import k2run

VERIF = stages.VERIF
COQ = stages.COQ
FIELDS = ['res', 'trace', 'c', 'p', 'n', 'holder']
ALL = set(FIELDS)

FORBIDDEN = re.compile(r'\b(Admitted|admit|Axiom|Axioms|Parameter|Parameters|Conjecture|Conjectures|'
                       r'Unset\s+Guard|bypass_check|Admit\s+Obligations|type-in-type|impredicative-set|'
                       r'Unset\s+Universe\s+Checking|Unset\s+Positivity)\b')
AXIOM_ALLOW = []      # names of standard-library axioms the development is allowed to depend on (none needed)

TRUSTED_BASE = [
    'Rocq/Coq 8.16.1 kernel (coqc, full .vo build via coq_makefile/make; vm_compute used for evaluating the model; no native_compute)',
    'axioms: none (every property theorem prints "Closed under the global context")',
    'hand-written Gallina model of the macro (coq/Ident,Ast,Front,Gir,Codegen,Sem,Dyn,Script .v) - modelled, not verified code',
    'correspondence machinery: harness/expander (the real macro sources #[path]-included and run as a library), '
    'harness/k2.py + k2rt/rt.rs (instrumented hooks, executor, script driver), harness/smgen.py (DSL and Coq-term printers), '
    'harness/coqrun.py (coqc runs, output parsing); rustc/cargo as the oracle for what compiles and runs',
    'no OCaml extraction (no Extract directives)',
]

# property -> description of its checks
PROPS = {
    'C01': dict(k2=[('walk', {'res', 'holder'})], k1=['verdict', 'struct']),
    'C02': dict(k2=[], k1=['struct'], k3=['methods']),
    'C03': dict(k1s=True, k2=[('guards', {'res', 'trace'})], k1=[], k3=['types']),
    'C04': dict(k1s=True, k2=[('walk', {'res', 'trace'}), ('async', {'res', 'trace'})], k1=[], k3=['types']),
    'C05': dict(k1s=True, k2=[('refuse', {'res', 'trace', 'holder'})], k1=[]),
    'C06': dict(k1s=True, k2=[('around', {'res', 'trace', 'holder'})], k1=[], k4=True),
    'C07': dict(k2=[('walk', {'res', 'holder'})], k1=['verdict', 'struct', 'forest'], k3=['substate', 'methods']),
    'C08': dict(k1s=True, k2=[('data', {'res', 'trace', 'holder'}), ('walk', {'holder', 'trace'})], k1=[], k3=['types']),
    'C09': dict(k2=[('pair', ALL)], k1=[], direct=['pair'], k4=True, k3=['types']),
    'C10': dict(k1s=True, names=True, k2=[('conv', {'res', 'holder', 'c'})], k1=[], k3=['types']),
    'C11': dict(k1s=True, names=True, k2=[('data', {'res', 'holder'}), ('abandon', {'res', 'holder'})], k1=[], k3=['types'], k4=True),
    'C12': dict(names=True, k2=[('guards', {'res'}), ('around', {'res'}), ('walk', {'res'})], k1=[], k4=True, k3=['rename']),
    'C13': dict(k2=[], k1=['verdict', 'mutants'], k3=['reject']),
    'C14': dict(names=True, k2=[], k1=['verdict', 'struct'], k3=['compile']),
    'C15': dict(k1s=True, k2=[('async', ALL)], k1=[], direct=['twin'], k3=['send', 'types']),
    'C16': dict(k1s=True, k2=[('walk', {'c', 'p', 'trace'}), ('refuse', {'c', 'p', 'trace'}), ('conv', {'c', 'p'}),
                              ('abandon', {'c', 'p'}), ('around', {'c', 'p'})], k1=[]),
    'C17': dict(k2=[], k1=['struct'], k3=['nostd', 'types']),
    'C18': dict(k1s=True, k2=[('names', ALL)], k1=[], k3=['rename']),
    'C19': dict(k1s=True, k2=[('abandon', ALL), ('refuse', ALL), ('walk', {'res', 'holder'})], k1=[]),
}


# ---------------------------------------------------------------- proof gate

def theorem_names(path):
    with open(path) as f:
        src = f.read()
    return re.findall(r'^\s*(?:Theorem|Corollary)\s+(\w+)', src, re.M)


def forbidden_scan():
    hits = []
    for f in stages._walk(COQ, ('.v',)):
        with open(f) as fh:
            src = fh.read()
        src_nc = re.sub(r'\(\*.*?\*\)', lambda m: ' ' * len(m.group(0)), src, flags=re.S)
        for m in FORBIDDEN.finditer(src_nc):
            line = src_nc.count('\n', 0, m.start()) + 1
            hits.append('%s:%d: %s' % (os.path.relpath(f, VERIF), line, m.group(0)))
        # Variable/Hypothesis outside a section
        depth = 0
        for ln, l in enumerate(src_nc.splitlines(), 1):
            if re.match(r'\s*Section\s+\w+', l):
                depth += 1
            elif re.match(r'\s*End\s+\w+', l):
                depth = max(0, depth - 1)
            elif depth == 0 and re.match(r'\s*(Variable|Variables|Hypothesis|Hypotheses|Context)\b', l):
                hits.append('%s:%d: %s outside a section' % (os.path.relpath(f, VERIF), ln, l.strip()))
    with open(os.path.join(COQ, '_CoqProject')) as fh:
        cp = fh.read()
    for bad in ('-type-in-type', '-impredicative-set', '-vos', '-vok'):
        if bad in cp:
            hits.append('_CoqProject: ' + bad)
    return hits


def proof_gate(prop):
    res = {'ok': False, 'obligations': 0, 'discharged': 0, 'theorems': [], 'assumptions': '', 'why': ''}
    ok, log = stages.coq_build()
    if not ok:
        m = re.search(r'File "\./([^"]+)", line (\d+)', log)
        res['why'] = 'the Rocq development does not build' + (' (%s line %s)' % (m.group(1), m.group(2)) if m else '')
        res['log'] = log[-3000:]
        return res
    hits = forbidden_scan()
    if hits:
        res['why'] = 'forbidden construct in the development: ' + '; '.join(hits[:5])
        return res
    pf = os.path.join(COQ, 'Properties', prop + '.v')
    if not os.path.exists(pf):
        res['why'] = 'no property file ' + pf
        return res
    names = theorem_names(pf)
    res['theorems'] = names
    res['obligations'] = len(names)
    if not names:
        res['why'] = 'property file states no theorem'
        return res
    tmp = os.path.join(stages.CACHE, 'gate')
    os.makedirs(tmp, exist_ok=True)
    src = 'From SM Require Import Properties.%s.\n' % prop + ''.join(
        'Print Assumptions %s.\n' % n for n in names)
    path = os.path.join(tmp, 'PA_%s_%d.v' % (prop, os.getpid()))
    with open(path, 'w') as f:
        f.write(src)
    rc, so, se = stages.sh(['coqc', '-noglob', '-Q', COQ, 'SM', path], timeout=600)
    for ext in ('.v', '.vo', '.vok', '.vos'):
        try:
            os.remove(path[:-2] + ext)
        except OSError:
            pass
    if rc != 0:
        res['why'] = 'Print Assumptions failed: ' + se[-500:]
        return res
    res['assumptions'] = so.strip()
    closed = so.count('Closed under the global context')
    ax = re.findall(r'^(\w[\w\.]*)\s*:', so, re.M)
    bad_ax = [a for a in ax if a not in AXIOM_ALLOW]
    res['discharged'] = closed
    if closed != len(names) or bad_ax:
        res['why'] = 'theorems depend on axioms: ' + ', '.join(bad_ax)
        return res
    # statement pins
    pins_path = os.path.join(COQ, 'Properties', 'PINS.json')
    if os.path.exists(pins_path):
        with open(pins_path) as f:
            pins = json.load(f)
        with open(pf, 'rb') as f:
            h = hashlib.sha256(f.read()).hexdigest()
        if prop in pins and pins[prop] != h:
            res['why'] = 'property file %s differs from its pinned statement hash' % prop
            return res
    res['ok'] = True
    return res


def coqchk_gate(prop):
    """thorough tier: the compiled property file and everything it depends on re-checked by the independent
    checker; its context summary must list no axiom and no assumed guard/positivity/universe condition"""
    rc, so, se = stages.sh(['timeout', '1500', 'coqchk', '-o', '-silent', '-Q', COQ, 'SM', 'SM.Properties.' + prop],
                           timeout=1600)
    out = so + se
    i = out.find('CONTEXT SUMMARY')
    summary = ' '.join(out[i:].split()) if i >= 0 else out[-800:]
    if rc != 0 or i < 0:
        return {'ok': False, 'why': 'coqchk exited %d' % rc, 'summary': summary}
    want = ['Axioms: <none>', 'type-in-type: <none>', 'unsafe (co)fixpoints: <none>', 'positivity is assumed: <none>']
    missing = [w for w in want if w not in summary]
    if missing:
        return {'ok': False, 'why': 'context summary lacks ' + '; '.join(missing), 'summary': summary}
    return {'ok': True, 'why': '', 'summary': summary}


# ---------------------------------------------------------------- K2 tie

def split_fields(line):
    parts = line.split('|')
    if len(parts) != 6:
        return {'res': line}
    return dict(zip(FIELDS, parts))


def relevant_diff(model_line, real_line, fields):
    a, b = split_fields(model_line), split_fields(real_line)
    return sorted(f for f in fields if a.get(f) != b.get(f))


def tie_k2(ctx, prop, fam, fields, rep):
    r = ctx.stage('k2_' + fam, lambda: k2run.k2_family(ctx, fam))
    if not r['ok']:
        rep.violate('tie', 'K2 could not run: ' + r['why'], {'log': r.get('log', '')[-3000:]}, no_input=True)
        return
    rep.cov['k2_' + fam] = {k: r[k] for k in ('machines', 'scripts', 'lines', 'distinct_scripts', 'n_bad_scripts')}
    rep.evals += r['lines']
    rep.distinct += r['distinct_scripts']
    rep.samples.extend(r['samples'][:1])
    if r['missing']:
        rep.violate('tie', 'model evaluation produced no result for %d scripts' % len(r['missing']),
                    {'missing': r['missing'][:10]}, no_input=True)
    ignored = 0
    for mm in r['mismatches']:
        hit = None
        for li in mm['lines']:
            if li >= len(mm['model']) or li >= len(mm['real']):
                hit = (li, ['length'])
                break
            df = relevant_diff(mm['model'][li], mm['real'][li], fields)
            if df:
                hit = (li, df)
                break
        if hit is None:
            ignored += 1
            continue
        li, df = hit
        rep.violate('k2', 'family %s: machine %d script %d op %d (%s): implementation differs from the model in %s'
                    % (fam, mm['machine'], mm['script'], li, mm['ops'][li] if li < len(mm['ops']) else '?', ','.join(df)),
                    {'kind': 'k2', 'family': fam, 'machine': mm['machine'], 'dsl': mm['dsl'], 'defn': mm['defn'], 'ops': mm['ops'], 'line': li, 'fields': df,
                     'required(model)': mm['model'], 'observed(implementation)': mm['real']})
    if r['n_bad_scripts'] > len(r['mismatches']):
        rep.note('%d further mismatching scripts not expanded' % (r['n_bad_scripts'] - len(r['mismatches'])))
    rep.cov['k2_' + fam]['mismatches_outside_projection'] = ignored


# ---------------------------------------------------------------- report

class Report:
    def __init__(self, prop, tier, seed):
        self.prop, self.tier, self.seed = prop, tier, seed
        self.violations = []
        self.known = []
        self.notes = []
        self.cov = {}
        self.evals = 0
        self.distinct = 0
        self.samples = []

    def violate(self, kind, what, payload, no_input=False):
        self.violations.append({'kind': kind, 'what': what, 'payload': payload, 'no_input': no_input})

    def note(self, s):
        self.notes.append(s)


def write_replay(prop, v):
    d = os.path.join(VERIF, 'replays')
    os.makedirs(d, exist_ok=True)
    body = json.dumps({'property': prop, 'what': v['what'], 'kind': v['kind'], 'no_failing_input_found': v['no_input'],
                       'detail': v['payload']}, indent=1, sort_keys=True, default=str)
    h = hashlib.sha256(body.encode()).hexdigest()[:12]
    p = os.path.join(d, '%s-%s.json' % (prop, h))
    with open(p, 'w') as f:
        f.write(body)
    return p


def load_known():
    p = os.path.join(VERIF, 'known_findings.json')
    if not os.path.exists(p):
        return []
    with open(p) as f:
        return json.load(f).get('findings', [])


def run_check(prop, tier, seed, t0):
    ctx = stages.Ctx(tier, seed)
    rep = Report(prop, tier, seed)
    spec = PROPS[prop]
    gate = proof_gate(prop)
    if gate['ok'] and tier == 'thorough':
        chk = ctx.stage('coqchk_' + prop, lambda: coqchk_gate(prop))
        gate['coqchk'] = chk['summary']
        if not chk['ok']:
            gate['ok'] = False
            gate['why'] = 'coqchk: ' + chk['why']
            gate['log'] = chk['summary']
    if not gate['ok']:
        rep.violate('proof', 'proof gate: ' + gate['why'],
                    {'theorems': gate['theorems'], 'log': gate.get('log', ''), 'assumptions': gate['assumptions']},
                    no_input=True)
    import ties
    try:
        for (fam, fields) in spec.get('k2', []):
            tie_k2(ctx, prop, fam, fields, rep)
        ties.run_extra(ctx, prop, spec, rep)
    except Exception as e:   # machinery failure: the property is not shown on this tree
        import traceback
        rep.violate('machinery', 'check machinery failed: %r' % (e,), {'traceback': traceback.format_exc()[-4000:]},
                    no_input=True)
    # known findings
    known = [k for k in load_known() if k.get('property') == prop and k.get('status') == 'known']
    final = []
    for v in rep.violations:
        kf = ties.match_known(v, known)
        if kf is not None:
            rep.known.append((kf, v))
        else:
            final.append(v)
    printed = set()
    for kf, v in rep.known:
        if kf['id'] not in printed:
            printed.add(kf['id'])
            print('KNOWN-FINDING: property=%s %s' % (prop, kf['what']))
    rc = 0
    # concrete failing inputs first
    final.sort(key=lambda v: 1 if v['no_input'] else 0)
    for v in final[:20]:
        p = write_replay(prop, v)
        print('VIOLATION property=%s replay=%s%s' % (prop, p, ' no-failing-input-found' if v['no_input'] else ''))
        print('  ' + v['what'][:400])
        rc = 1
    wall = time.time() - t0
    cov = {
        'obligations': max(1, gate['obligations']),
        'discharged': gate['discharged'] if gate['ok'] else 0,
        'checker_cmd': 'make -C /verif/coq (coq_makefile, coqc 8.16.1) && coqc Print Assumptions on Properties/%s.v theorems: %s'
                       % (prop, ', '.join(gate['theorems'])),
        'trusted_base': TRUSTED_BASE + ['Print Assumptions output: ' + gate['assumptions'].replace('\n', ' | ')[:600]] +
                        (['coqchk -o: ' + gate['coqchk'][:400]] if gate.get('coqchk') else []),
        'theorems': gate['theorems'],
        'evaluations': max(1, rep.evals),
        'distinct_nontrivial': rep.distinct,
        'rule': 'tie coverage: evaluations = observation lines (one per script op) compared between the rustc-compiled '
                'machines / the macro run as a library and the Coq model; distinct_nontrivial = distinct (machine, script) '
                'pairs or distinct definitions, each exercising the mechanism of the property',
        'samples': rep.samples[:4] or [{'note': 'no tie sample'}],
        'ties': rep.cov,
        'notes': rep.notes + ctx.log,
        'known_findings_reported': [kf['id'] for kf, _ in rep.known],
    }
    ev = {'property_id': prop, 'tier': tier, 'seed': seed, 'level': 'proof', 'coverage': cov,
          'assumptions': ['the Gallina model is tied to the code only by the correspondence checks listed under coverage.ties',
                          'Rust dynamic semantics (statement order, moves, drops, unwinding, .await) as stated in DESIGN.md 3.6'],
          'wall_s': round(wall, 2), 'violations': len(final)}
    os.makedirs(os.path.join(VERIF, 'evidence'), exist_ok=True)
    with open(os.path.join(VERIF, 'evidence', prop + '.json'), 'w') as f:
        json.dump(ev, f, indent=1, default=str)
    if rc == 0:
        print('OK property=%s tier=%s seed=%d theorems=%d evaluations=%d wall=%.1fs' % (
            prop, tier, seed, gate['obligations'], rep.evals, wall))
    return rc


def run_replay(prop, path):
    import ties
    return ties.replay(prop, path)


def setup():
    t0 = time.time()
    ok, log = stages.coq_build()
    print('coq build:', 'ok' if ok else 'FAILED')
    if not ok:
        print(log[-3000:])
        return 1
    ctx = stages.Ctx('quick', int(os.environ.get('VERIF_SEED', '0') or 0))
    exp = ctx.stage('expander', lambda: stages.expander_build(ctx.dir))
    print('expander build:', 'ok' if exp['ok'] else 'FAILED')
    b = ctx.stage('k2build', lambda: k2run.k2_build(ctx))
    print('k2 build:', 'ok' if b['ok'] else 'FAILED: ' + b.get('why', ''))
    import ties
    ties.setup(ctx)
    print('setup done in %.1fs' % (time.time() - t0))
    return 0
