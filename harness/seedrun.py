#!/usr/bin/env python3
"""seedrun.py <patch.diff> <prop> [<prop> ...]: apply a seeded change to /repo, run the checks, undo it."""
import subprocess
import sys
import os

patch = os.path.abspath(sys.argv[1])
props = sys.argv[2:]
st = subprocess.run(['git', '-C', '/repo', 'status', '--porcelain'], capture_output=True, text=True).stdout.strip()
if st:
    print('refusing: /repo has local changes:\n' + st)
    sys.exit(2)
r = subprocess.run(['git', '-C', '/repo', 'apply', patch], capture_output=True, text=True)
if r.returncode != 0:
    print('patch does not apply:', r.stderr)
    sys.exit(2)
res = {}
try:
    for p in props:
        q = subprocess.run(['/verif/check', p, '--tier', 'quick'], capture_output=True, text=True, cwd='/verif')
        lines = [l for l in q.stdout.splitlines() if l.startswith(('VIOLATION', 'OK', 'KNOWN')) or l.startswith('  ')]
        res[p] = (q.returncode, lines[:4])
        print(p, 'rc=%d' % q.returncode)
        for l in lines[:4]:
            print('   ', l[:300])
finally:
    subprocess.run(['git', '-C', '/repo', 'checkout', '--', '.'])
    print('reverted; repo status:', subprocess.run(['git', '-C', '/repo', 'status', '--porcelain'], capture_output=True, text=True).stdout.strip() or 'clean')
