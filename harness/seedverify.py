#!/usr/bin/env python3
"""seedverify.py <mutation dir> <seed id> <prop> [more props]
Confirms a seeded change independently in a scratch worktree (compiles, existing suite passes, demo fails
with it and passes without it), stores it under /verif/seeded/<id>/, then runs the given checks against it
in /repo (apply, run, undo) and records which ones raise an alarm."""
import json
import os
import shutil
import subprocess
import sys

mut, sid, props = os.path.abspath(sys.argv[1]), sys.argv[2], sys.argv[3:]
WT = '/tmp/wt_verify'
ENV = dict(os.environ, CARGO_NET_OFFLINE='true', CARGO_TARGET_DIR='/tmp/wt_verify_target')


def sh(cmd, cwd=None):
    p = subprocess.run(cmd, cwd=cwd, capture_output=True, text=True, env=ENV)
    return p.returncode, p.stdout + p.stderr


if not os.path.exists(WT):
    rc, out = sh(['git', '-C', '/repo', 'worktree', 'add', '-q', '--detach', WT, 'HEAD'])
    assert rc == 0, out
sh(['git', '-C', WT, 'checkout', '-q', '--detach', subprocess.run(['git', '-C', '/repo', 'rev-parse', 'HEAD'], capture_output=True, text=True).stdout.strip()])
sh(['git', '-C', WT, 'checkout', '--', '.'])
demo_dst = os.path.join(WT, 'state-machines', 'tests', 'demo_mut.rs')
if os.path.exists(demo_dst):
    os.remove(demo_dst)
patch = os.path.join(mut, 'patch.diff')
meta = json.load(open(os.path.join(mut, 'meta.json')))
ran = {}
rc, out = sh(['git', '-C', WT, 'apply', patch])
assert rc == 0, 'patch does not apply: ' + out
rc, out = sh(['git', '-C', WT, 'diff', '--stat'])
ran['diffstat'] = out.strip()
rc, out = sh(['cargo', 'test', '--workspace', '--offline'], cwd=WT)
ran['suite_with_change_rc'] = rc
ran['suite_with_change'] = [l for l in out.splitlines() if l.startswith('test result')]
assert rc == 0, 'existing suite fails with the change:\n' + out[-3000:]
shutil.copy(os.path.join(mut, 'demo.rs'), demo_dst)
rc, out = sh(['cargo', 'test', '-p', 'state-machines', '--test', 'demo_mut', '--offline'], cwd=WT)
ran['demo_with_change_rc'] = rc
ran['demo_with_change'] = [l for l in out.splitlines() if l.startswith('test result') or 'panicked' in l][:6]
assert rc != 0, 'demo passes with the change'
sh(['git', '-C', WT, 'apply', '-R', patch])
rc, out = sh(['cargo', 'test', '-p', 'state-machines', '--test', 'demo_mut', '--offline'], cwd=WT)
ran['demo_without_change_rc'] = rc
ran['demo_without_change'] = [l for l in out.splitlines() if l.startswith('test result')]
assert rc == 0, 'demo fails without the change:\n' + out[-3000:]
os.remove(demo_dst)
sh(['git', '-C', WT, 'checkout', '--', '.'])
dst = os.path.join('/verif/seeded', sid)
os.makedirs(dst, exist_ok=True)
shutil.copy(patch, os.path.join(dst, 'patch.diff'))
shutil.copy(os.path.join(mut, 'demo.rs'), os.path.join(dst, 'demo.rs'))
# run our checks against it
caught = {}
st = subprocess.run(['git', '-C', '/repo', 'status', '--porcelain'], capture_output=True, text=True).stdout.strip()
assert not st, '/repo dirty'
rc, out = sh(['git', '-C', '/repo', 'apply', patch])
assert rc == 0, out
try:
    for p in props:
        q = subprocess.run(['/verif/check', p, '--tier', 'quick'], capture_output=True, text=True, cwd='/verif')
        v = [l for l in q.stdout.splitlines() if l.startswith('VIOLATION')]
        what = [l.strip() for l in q.stdout.splitlines() if l.startswith('  ')]
        caught[p] = {'rc': q.returncode, 'violations': len(v), 'first': (what[0][:300] if what else ''),
                     'no_failing_input_found': any('no-failing-input-found' in l for l in v)}
        print(p, 'rc=%d' % q.returncode, (what[0][:200] if what else ''))
finally:
    subprocess.run(['git', '-C', '/repo', 'checkout', '--', '.'])
meta_out = {'id': sid, 'property': meta.get('property'), 'summary': meta.get('summary'), 'needs': meta.get('needs'),
            'files': meta.get('files'), 'what_was_run': ran, 'checks': caught,
            'detected_by': [p for p, c in caught.items() if c['rc'] != 0]}
json.dump(meta_out, open(os.path.join(dst, 'meta.json'), 'w'), indent=1)
print('stored', dst, 'detected_by', meta_out['detected_by'])
