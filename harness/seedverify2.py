#!/usr/bin/env python3
"""seedverify2.py <mutation dir> <seed id> <prop> [more props]
Like seedverify.py, but entirely outside /repo, so that several seeds can be processed at once: the change is
confirmed in its own scratch worktree (compiles, the existing suite passes, the demonstration fails with it and
passes without it), stored under /verif/seeded/<id>/, and the given checks are run against it through
nsrun.py (a patched copy of /repo bind-mounted over /repo in a private mount namespace)."""
import json
import os
import shutil
import subprocess
import sys

mut, sid, props = os.path.abspath(sys.argv[1]), sys.argv[2], sys.argv[3:]
WT = '/tmp/sv_%s_wt' % sid
TGT = '/tmp/sv_%s_target' % sid
ENV = dict(os.environ, CARGO_NET_OFFLINE='true', CARGO_TARGET_DIR=TGT)


def sh(cmd, cwd=None):
    p = subprocess.run(cmd, cwd=cwd, capture_output=True, text=True, env=ENV)
    return p.returncode, p.stdout + p.stderr


def fail(msg):
    print('REJECTED', sid, msg[:1500])
    cleanup()
    sys.exit(3)


def cleanup():
    subprocess.run(['git', '-C', '/repo', 'worktree', 'remove', '--force', WT], capture_output=True)
    shutil.rmtree(WT, ignore_errors=True)
    shutil.rmtree(TGT, ignore_errors=True)


cleanup()
rc, out = sh(['git', '-C', '/repo', 'worktree', 'add', '-q', '--detach', WT, 'HEAD'])
assert rc == 0, out
shutil.copy('/repo/Cargo.lock', os.path.join(WT, 'Cargo.lock'))
demo_dst = os.path.join(WT, 'state-machines', 'tests', 'demo_mut.rs')
patch = os.path.join(mut, 'patch.diff')
meta = json.load(open(os.path.join(mut, 'meta.json')))
ran = {}
rc, out = sh(['git', '-C', WT, 'apply', patch])
if rc != 0:
    fail('patch does not apply: ' + out)
rc, out = sh(['git', '-C', WT, 'diff', '--stat'])
ran['diffstat'] = out.strip()
rc, out = sh(['cargo', 'test', '--workspace', '--offline'], cwd=WT)
ran['suite_with_change_rc'] = rc
ran['suite_with_change'] = [l for l in out.splitlines() if l.startswith('test result')]
if rc != 0:
    fail('existing suite fails with the change:\n' + out[-1500:])
if not os.path.exists(os.path.join(mut, 'demo.rs')):
    fail('no demo.rs (non-standard demonstration; confirm by hand)')
shutil.copy(os.path.join(mut, 'demo.rs'), demo_dst)
rc, out = sh(['cargo', 'test', '-p', 'state-machines', '--test', 'demo_mut', '--offline'], cwd=WT)
ran['demo_with_change_rc'] = rc
ran['demo_with_change'] = [l for l in out.splitlines() if l.startswith('test result') or 'panicked' in l or l.startswith('error')][:6]
if rc == 0:
    fail('demo passes with the change')
sh(['git', '-C', WT, 'apply', '-R', patch])
rc, out = sh(['cargo', 'test', '-p', 'state-machines', '--test', 'demo_mut', '--offline'], cwd=WT)
ran['demo_without_change_rc'] = rc
ran['demo_without_change'] = [l for l in out.splitlines() if l.startswith('test result')]
if rc != 0:
    fail('demo fails without the change:\n' + out[-1500:])
cleanup()
dst = os.path.join('/verif/seeded', sid)
os.makedirs(dst, exist_ok=True)
shutil.copy(patch, os.path.join(dst, 'patch.diff'))
shutil.copy(os.path.join(mut, 'demo.rs'), os.path.join(dst, 'demo.rs'))
outdir = '/tmp/nsout/s_' + sid
subprocess.run([sys.executable, '/verif/harness/nsrun.py', 's_' + sid, patch, outdir] + props, capture_output=True, text=True)
res = json.load(open(os.path.join(outdir, 'result.json')))
caught = {}
for p, r in res.items():
    caught[p] = {'rc': r['rc'], 'violations': len(r['violations']), 'first': (r['detail'][0].strip()[:300] if r['detail'] else ''),
                 'no_failing_input_found': any('no-failing-input-found' in l for l in r['violations'])}
meta_out = {'id': sid, 'property': meta.get('property'), 'summary': meta.get('summary'), 'needs': meta.get('needs'),
            'files': meta.get('files'), 'what_was_run': ran, 'checks': caught,
            'detected_by': sorted(p for p, c in caught.items() if c['rc'] != 0)}
json.dump(meta_out, open(os.path.join(dst, 'meta.json'), 'w'), indent=1)
own = meta.get('property')
print('STORED %s own=%s detected_by=%s%s' % (sid, own, ' '.join(meta_out['detected_by']) or '-',
                                           '' if own in meta_out['detected_by'] else '   <-- MISSED by its own property'))
