"""DSL trees for state_machine!{}, printers to DSL text and to Coq terms, and corpus generators.

Tree shapes (mirrors coq/Ast.v):
  defn   = [mentry]
  mentry = ('name',n) | ('initial',n) | ('context',ty) | ('async',b) | ('dynamic',b)
         | ('states',[sitem]) | ('events',[sevent]) | ('legacy',k) | ('unknown',k)
  sitem  = ('leaf',n,data|None) | ('super',n,data|None,[sitem]) | ('initial',n) | ('unknown',k)
  sevent = (name,[eentry])
  eentry = ('payload',ty) | ('list',key,[ids]) | ('transition',[tentry]) | ('unknown',k)
  tentry = ('from',[ids]) | ('to',id) | ('list',key,[ids]) | ('unknown',k)
"""
import random

HOOK_KEYS = ['guards', 'unless', 'before', 'after', 'around']
COQ_KEY = {'guards': 'KGuards', 'unless': 'KUnless', 'before': 'KBefore', 'after': 'KAfter', 'around': 'KAround'}

# ---------------------------------------------------------------- DSL text

def _ids(l, rnd=None):
    if len(l) == 1 and rnd is not None and rnd.random() < 0.4:
        return l[0]
    tc = ',' if (l and rnd is not None and rnd.random() < 0.25) else ''      # `[a, b,]`
    return '[' + ', '.join(l) + tc + ']'


def dsl_sitem(it, top, rnd=None):
    k = it[0]
    if k == 'leaf':
        s = it[1] if top else 'state ' + it[1]
        if it[2] is not None:
            s += '(%s)' % it[2]
        return s
    if k == 'super':
        s = 'superstate ' + it[1]
        if it[2] is not None:
            s += '(%s)' % it[2]
        tc = ',' if (it[3] and rnd is not None and rnd.random() < 0.25) else ''
        return s + ' { ' + ', '.join(dsl_sitem(x, False, rnd) for x in it[3]) + tc + ' }'
    if k == 'initial':
        return 'initial: ' + it[1]
    if k == 'unknown':
        return it[1] + ' Zz'
    raise ValueError(it)


def dsl_tentry(t, rnd=None):
    k = t[0]
    if k == 'from':
        return 'from: ' + _ids(t[1], rnd)
    if k == 'to':
        return 'to: ' + t[1]
    if k == 'list':
        return '%s: %s' % (t[1], _ids(t[2], rnd))
    if k == 'unknown':
        return t[1] + ': Zz'
    raise ValueError(t)


def dsl_eentry(e, rnd=None):
    k = e[0]
    if k == 'payload':
        return 'payload: ' + e[1]
    if k == 'list':
        return '%s: %s' % (e[1], _ids(e[2], rnd))
    if k == 'transition':
        tc = ',' if (e[1] and rnd is not None and rnd.random() < 0.25) else ''
        return 'transition: { ' + ', '.join(dsl_tentry(t, rnd) for t in e[1]) + tc + ' }'
    if k == 'unknown':
        return e[1] + ': Zz'
    raise ValueError(e)


def dsl_defn(d, rnd=None, vary=False):
    """DSL text of a definition.  With vary=True the equivalent surface forms the parser accepts are chosen
    pseudo-randomly but reproducibly from the definition itself (single identifier vs bracketed list,
    `events {` vs `events: {`, trailing commas, commas between events)."""
    if vary and rnd is None:
        rnd = random.Random(repr(d))
    out = []
    nocomma = any(en[0] == '_nocomma' for en in d)       # a marker entry: print the states list without commas (not part of the definition)
    for en in d:
        k = en[0]
        if k == '_nocomma':
            continue
        if k in ('name', 'initial', 'context'):
            out.append('%s: %s' % (k, en[1]))
        elif k in ('async', 'dynamic'):
            out.append('%s: %s' % (k, 'true' if en[1] else 'false'))
        elif k == 'states':
            tc = ',' if (rnd is not None and rnd.random() < 0.3 and en[1]) else ''
            ssep = ' ' if (nocomma or (rnd is not None and rnd.random() < 0.15)) else ', '      # the commas of the states list are optional
            out.append('states: [' + ssep.join(dsl_sitem(x, True, rnd) for x in en[1]) + (tc if ssep == ', ' else '') + ']')
        elif k == 'events':
            evs = []
            for (n, es) in en[1]:
                tc = ',' if (rnd is not None and rnd.random() < 0.3 and es) else ''
                evs.append(n + ' { ' + ', '.join(dsl_eentry(e, rnd) for e in es) + tc + ' }')
            sep = ', ' if (rnd is not None and rnd.random() < 0.3) else ' '
            kw = 'events:' if (rnd is not None and rnd.random() < 0.4) else 'events'
            out.append(kw + ' { ' + sep.join(evs) + ' }')
        elif k == 'legacy':
            if rnd is not None and rnd.random() < 0.5:
                out.append('%s: { }' % en[1])
            else:
                out.append('%s: legacy_value' % en[1])
        elif k == 'unknown':
            out.append('%s: Zz' % en[1])
        else:
            raise ValueError(en)
    tail = ',' if (rnd is not None and rnd.random() < 0.3) else ''
    return ',\n    '.join(out) + tail


# ---------------------------------------------------------------- Coq terms

def cq(s):
    assert '"' not in s
    return '"%s"' % s


def cq_list(l, f=cq):
    return '[' + '; '.join(f(x) for x in l) + ']'


def cq_opt(o, f=cq):
    return 'None' if o is None else '(Some %s)' % f(o)


def coq_sitem(it):
    k = it[0]
    if k == 'leaf':
        return '(ILeaf %s %s)' % (cq(it[1]), cq_opt(it[2]))
    if k == 'super':
        return '(ISuper %s %s %s)' % (cq(it[1]), cq_opt(it[2]), cq_list(it[3], coq_sitem))
    if k == 'initial':
        return '(IInitial %s)' % cq(it[1])
    if k == 'unknown':
        return '(IUnknown %s)' % cq(it[1])
    raise ValueError(it)


def coq_tentry(t):
    k = t[0]
    if k == 'from':
        return '(TFrom %s)' % cq_list(t[1])
    if k == 'to':
        return '(TTo %s)' % cq(t[1])
    if k == 'list':
        return '(TList %s %s)' % (COQ_KEY[t[1]], cq_list(t[2]))
    if k == 'unknown':
        return '(TUnknownT %s)' % cq(t[1])
    raise ValueError(t)


def coq_eentry(e):
    k = e[0]
    if k == 'payload':
        return '(EPayload %s)' % cq(e[1])
    if k == 'list':
        return '(EList %s %s)' % (COQ_KEY[e[1]], cq_list(e[2]))
    if k == 'transition':
        return '(ETransition %s)' % cq_list(e[1], coq_tentry)
    if k == 'unknown':
        return '(EUnknownE %s)' % cq(e[1])
    raise ValueError(e)


def coq_defn(d):
    out = []
    for en in d:
        k = en[0]
        if k == 'name':
            out.append('MName %s' % cq(en[1]))
        elif k == 'initial':
            out.append('MInitial %s' % cq(en[1]))
        elif k == 'context':
            out.append('MContext %s' % cq(en[1]))
        elif k == 'async':
            out.append('MAsync %s' % ('true' if en[1] else 'false'))
        elif k == 'dynamic':
            out.append('MDynamic %s' % ('true' if en[1] else 'false'))
        elif k == 'states':
            out.append('MStates %s' % cq_list(en[1], coq_sitem))
        elif k == 'events':
            out.append('MEvents %s' % cq_list(
                en[1], lambda ev: '(Build_sevent %s %s)' % (cq(ev[0]), cq_list(ev[1], coq_eentry))))
        elif k == 'legacy':
            out.append('MLegacy %s' % cq(en[1]))
        elif k == 'unknown':
            out.append('MUnknown %s' % cq(en[1]))
        elif k == '_nocomma':
            pass                       # printing marker, not part of the definition
        else:
            raise ValueError(en)
    return '[' + ';\n  '.join(out) + ']'

# ---------------------------------------------------------------- simple readers (harness-side, no model logic)

def get(d, key, default=None):
    """last entry with that key (the parser's last-wins)"""
    r = default
    for en in d:
        if en[0] == key:
            r = en[1]
    return r


def leaves_of(items):
    out = []
    for it in items:
        if it[0] == 'leaf':
            out.append(it[1])
        elif it[0] == 'super':
            out.extend(leaves_of(it[3]))
    return out


def supers_of(items):
    out = []
    for it in items:
        if it[0] == 'super':
            out.append(it[1])
            out.extend(supers_of(it[3]))
    return out


def data_specs(items):
    """(state-or-superstate name, type) in storage order (pre-order, as the parser pushes them)"""
    out = []
    for it in items:
        if it[0] == 'leaf' and it[2] is not None:
            out.append((it[1], it[2]))
        elif it[0] == 'super':
            if it[2] is not None:
                out.append((it[1], it[2]))
            out.extend(data_specs(it[3]))
    return out


def depth_of(items):
    d = 0
    for it in items:
        if it[0] == 'super':
            d = max(d, 1 + depth_of(it[3]))
    return d


def event_names(d):
    return [n for (n, _) in (get(d, 'events') or [])]


def event_payload(d, ev):
    p = None
    for (n, es) in (get(d, 'events') or []):
        if n == ev:
            for e in es:
                if e[0] == 'payload':
                    p = e[1]
            return p
    return None


def hook_names(d):
    """{kind: set(names)} over all events and transitions"""
    out = {k: [] for k in HOOK_KEYS}
    for (_, es) in (get(d, 'events') or []):
        for e in es:
            if e[0] == 'list':
                out[e[1]].extend(e[2])
            elif e[0] == 'transition':
                for t in e[1]:
                    if t[0] == 'list':
                        out[t[1]].extend(t[2])
    return {k: sorted(set(v)) for k, v in out.items()}


def hooks_with_payload(d):
    """{hook name: payload type or None} (generator keeps each hook inside one event)"""
    out = {}
    for (_, es) in (get(d, 'events') or []):
        p = None
        for e in es:
            if e[0] == 'payload':
                p = e[1]
        for e in es:
            if e[0] == 'list':
                for h in e[2]:
                    out[h] = p
            elif e[0] == 'transition':
                for t in e[1]:
                    if t[0] == 'list':
                        for h in t[2]:
                            out[h] = p
    return out

# ---------------------------------------------------------------- name pools

STATE_POOL = ['A', 'B', 'D', 'E', 'F', 'Idle', 'Active', 'HTTPServer', 'Phase2', 'X1', 'IOWait', 'Zed', 'Q', 'Écluse', 'ÉtatFinal',
              'InFlight', 'Running', 'Done', 'K9', 'LaunchPrep', 'Off', 'On']
SUPER_POOL = ['G', 'H', 'J', 'Grp', 'Outer', 'Inner', 'Flight', 'Mode2', 'Sub', 'Top']
EVENT_POOL = ['go', 'stop', 'tick', 'enter_half_open', 'http_request', 'e1', 'reset', 'a_1', 'set_thrust',
              'launch', 'x', 'step2', 'io_done', 'next', 'abort', 'b2b', 'enable_2fa', 'x_y', 'step_2', 'go_2_x',
              'send_3ds_challenge', 'a_b_c', 'démarrer', 'öffne_tür']
NAME_POOL = ['M', 'Machine1', 'FlightDeck', 'HTTPClient', 'Sm', 'Ctl', 'LinkState', 'DoorEvent', 'AnyThing', 'DynamicDuo', 'StateOf', 'EventLog', 'Any', 'Dynamic']
DATA_TYPES = ['D0', 'D1', 'D2', 'D3']


def to_pascal(s):
    return ''.join((w[:1].upper() + w[1:]) for w in s.split('_'))


def to_snake(s):
    out = []
    cs = list(s[2:] if s.startswith('r#') else s)      # a raw identifier contributes its bare name
    for i, ch in enumerate(cs):
        if ch.isupper():
            prev_l = i > 0 and cs[i - 1].islower()
            prev_us = i > 0 and cs[i - 1] == '_'
            next_l = i + 1 < len(cs) and cs[i + 1].islower()
            if i > 0 and not prev_us and (prev_l or next_l):
                prev_u = i > 0 and cs[i - 1].isupper()
                if (not prev_u) or next_l:
                    out.append('_')
            out.append(ch.lower())
        else:
            out.append(ch)
    return ''.join(out)

# ---------------------------------------------------------------- well-formed random definitions

class Shape:
    """knobs of one generated definition"""
    def __init__(self, **kw):
        self.async_ = kw.get('async_', False)
        self.dynamic = kw.get('dynamic', True)
        self.concrete = kw.get('concrete', False)
        self.depth = kw.get('depth', 0)
        self.nleaves = kw.get('nleaves', 3)
        self.nevents = kw.get('nevents', 2)
        self.data = kw.get('data', 'some')       # none | some | all | initial
        self.hooks = kw.get('hooks', 1)          # max hooks per list
        self.payload = kw.get('payload', 'mixed')  # none | all | mixed
        self.super_data = kw.get('super_data', False)
        self.cross_kind = kw.get('cross_kind', False)   # a guard also used as an unless-condition (K1 only: one hook, two roles)
        self.data_tys = kw.get('data_tys')              # spellings of the data types (K1 only: lifetimes, generics with commas, unit)
        self.pl_ty = kw.get('pl_ty', 'P')               # spelling of the payload type (K1 only: `C`, `()`, a reference)
        self.ctx_ty = kw.get('ctx_ty', 'Ctx')           # spelling of the concrete context type (K1 only: `()`, `u8`, a path)
        self.hook_event = kw.get('hook_event', False)   # a hook named like an event of the machine (K1 only: with hooks in the
                                                        # blanket impl rustc rejects the clash; the expansion must not care)


def gen_forest(rnd, shape, names, snames):
    """returns items; consumes names"""
    def block(depth, nmin):
        items = []
        n = rnd.randint(nmin, max(nmin, 3))
        made_super = False
        for i in range(n):
            if depth > 0 and (not made_super or rnd.random() < 0.3) and snames and names and (i == n - 1 or rnd.random() < 0.5):
                sn = snames.pop()
                body = block(depth - 1, 1)
                lv = leaves_of(body)
                if not lv:          # ran out of names: no empty superstate in a well-formed definition
                    continue
                r = rnd.random()
                if r < 0.5 and lv:
                    body.insert(rnd.randint(0, len(body)), ('initial', rnd.choice(lv)))
                    if rnd.random() < 0.3:      # a second `initial:` in the same block: the last one wins
                        body.insert(rnd.randint(0, len(body)), ('initial', rnd.choice(lv)))
                items.append(('super', sn, None, body))
                made_super = True
            elif names:
                items.append(('leaf', names.pop(), None))
        if not leaves_of(items) and names:
            items.append(('leaf', names.pop(), None))
        return items
    return block(shape.depth, 2)


def assign_data(rnd, items, mode, initial, super_data=False, tys=None):
    DATA_TYPES = tys or globals()['DATA_TYPES']

    def go(items):
        out = []
        for it in items:
            if it[0] == 'leaf':
                d = None
                if mode == 'all' or (mode == 'some' and rnd.random() < 0.5) or (mode == 'initial' and it[1] == initial):
                    d = rnd.choice(DATA_TYPES)
                elif mode == 'some' and it[1] == initial and rnd.random() < 0.5:
                    d = rnd.choice(DATA_TYPES)
                out.append(('leaf', it[1], d))
            elif it[0] == 'super':
                d = rnd.choice(DATA_TYPES) if (super_data and rnd.random() < 0.5) else None
                out.append(('super', it[1], d, go(it[3])))
            else:
                out.append(it)
        return out
    return go(items)


def gen_wellformed(rnd, shape, idx=0):
    names = rnd.sample(STATE_POOL, min(len(STATE_POOL), 12))
    snames = rnd.sample(SUPER_POOL, len(SUPER_POOL))
    forest = gen_forest(rnd, shape, names, snames)
    while len(leaves_of(forest)) < shape.nleaves and names:
        forest.insert(rnd.randint(0, len(forest)), ('leaf', names.pop(), None))
    leaves = leaves_of(forest)
    supers = supers_of(forest)
    initial = rnd.choice(leaves)
    forest = assign_data(rnd, forest, shape.data, initial, shape.super_data, shape.data_tys)
    # transitions: deterministic per (event, leaf)
    # event names are sampled without a PascalCase collision (`step2`/`step_2`): that class is the known finding
    # F5a, exercised by its own probes (ties_k3b.k3_known_probes), not by the well-formed corpus
    evnames, seen_pc = [], set()
    for en in rnd.sample(EVENT_POOL, len(EVENT_POOL)):
        if len(evnames) < shape.nevents and to_pascal(en) not in seen_pc:
            evnames.append(en)
            seen_pc.add(to_pascal(en))
    events = []
    hook_ctr = [0]

    def under(name):
        def find(items):
            for it in items:
                if it[0] == 'super':
                    if it[1] == name:
                        return leaves_of(it[3])
                    r = find(it[3])
                    if r is not None:
                        return r
            return None
        r = find(forest)
        return r if r is not None else [name]

    for ei, en in enumerate(evnames):
        has_pl = shape.payload == 'all' or (shape.payload == 'mixed' and rnd.random() < 0.5)
        es = []
        if has_pl:
            es.append(('payload', shape.pl_ty))

        ev_level = {}

        def mk_hooks(level):
            out = []
            for k in HOOK_KEYS:
                n = rnd.randint(0, shape.hooks)
                if n == 0 and rnd.random() < 0.15:
                    out.append(('list', k, []))      # `guards: []` spelled out: the same as leaving the key out
                    continue
                if n == 0 or rnd.random() < 0.3:
                    continue
                hs = []
                for _ in range(n):
                    if hs and rnd.random() < 0.15:
                        hs.append(rnd.choice(hs))
                    elif level == 't' and ev_level.get(k) and rnd.random() < 0.2:
                        hs.append(rnd.choice(ev_level[k]))       # the same hook at event and at transition level
                    elif shape.hook_event and rnd.random() < 0.2:
                        hs.append(rnd.choice(evnames))               # a hook that shares its identifier with an event
                    elif shape.cross_kind and level == 't' and k == 'unless' and ev_level.get('guards') and rnd.random() < 0.3:
                        hs.append(rnd.choice(ev_level['guards']))  # a guard also listed as an unless-condition
                    else:
                        hook_ctr[0] += 1
                        # some hook identifiers are not snake_case (`g0_e1OK`): errors must report them as declared
                        hs.append('%s%d_%s%d%s' % ({'guards': 'g', 'unless': 'u', 'before': 'b', 'after': 'a', 'around': 'w'}[k], ei, level, hook_ctr[0],
                                                   rnd.choice(['', '', '', 'OK', 'GPSLock'])))
                if rnd.random() < 0.12:
                    # the key written twice in one block: the earlier list is overridden (and its hooks never called)
                    hook_ctr[0] += 1
                    out.append(('list', k, ['%s%d_%s%dx' % (k[0], ei, level, hook_ctr[0])] + (hs[:1] if rnd.random() < 0.5 else [])))
                out.append(('list', k, hs))
                if level == 'e':
                    ev_level[k] = list(hs)
            return out
        ehooks = mk_hooks('e')
        covered = set()
        ntr = rnd.randint(1, 3)
        trs = []
        for ti in range(ntr):
            cands = [x for x in leaves + supers if not (set(under(x)) & covered)]
            if not cands:
                break
            srcs = []
            for _ in range(rnd.randint(1, 2)):
                cands = [x for x in leaves + supers if not (set(under(x)) & covered)]
                if not cands:
                    break
                s = rnd.choice(cands)
                srcs.append(s)
                covered |= set(under(s))
            tgt = rnd.choice(leaves + supers)
            t = [('from', srcs), ('to', tgt)] + mk_hooks('t')
            rnd.shuffle(t)
            trs.append(('transition', t))
        body = es + ehooks + trs
        # payload first is not required; shuffle entry order
        rnd.shuffle(body)
        events.append((en, body))
    d = [('name', rnd.choice(NAME_POOL) if idx < 0 else 'M'), ('initial', initial)]
    if shape.concrete:
        d.append(('context', shape.ctx_ty))
    if shape.async_:
        d.append(('async', True))
    elif rnd.random() < 0.25:
        d.append(('async', False))         # the key spelled out with its default value
    if shape.dynamic:
        d.append(('dynamic', True))
    elif rnd.random() < 0.25:
        d.append(('dynamic', False))
    d.append(('states', forest))
    if rnd.random() < 0.15:
        d.insert(rnd.randint(0, len(d)), ('legacy', rnd.choice(['state', 'action', 'callbacks'])))
    d.append(('events', events))
    if rnd.random() < 0.4:
        rnd.shuffle(d)          # the top-level keys may come in any order (`states` before `initial`, `events` first, ...)
    return d
