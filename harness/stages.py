"""Shared, cached build stages of the checks (everything is rebuilt from /repo's working tree;
the cache key is a hash of the sources, so an edit to /repo or /verif invalidates it)."""
import fcntl
import hashlib
import json
import os
import pickle
import shutil
import subprocess
import sys
import time

VERIF = os.path.dirname(os.path.dirname(os.path.abspath(__file__)))
REPO = '/repo'
CACHE = os.path.join(VERIF, '.cache')
COQ = os.path.join(VERIF, 'coq')
ENV = dict(os.environ, CARGO_NET_OFFLINE='true')


def _hash_files(paths):
    h = hashlib.sha256()
    for p in sorted(paths):
        h.update(p.encode())
        try:
            with open(p, 'rb') as f:
                h.update(f.read())
        except OSError:
            h.update(b'<missing>')
    return h.hexdigest()


def _walk(root, exts, skip=()):
    out = []
    for dp, dn, fn in os.walk(root):
        dn[:] = [d for d in dn if d not in ('target', '.git', '.cache', '__pycache__') and d not in skip]
        for f in fn:
            if f.endswith(exts):
                out.append(os.path.join(dp, f))
    return out


def repo_hash():
    files = []
    for c in ('state-machines', 'state-machines-core', 'state-machines-macro'):
        files += _walk(os.path.join(REPO, c), ('.rs', '.toml', '.md'), skip=('tests', 'benches', 'examples'))
    files += [os.path.join(REPO, 'Cargo.toml'), os.path.join(REPO, 'Cargo.lock')]
    return _hash_files(files)


def verif_hash():
    files = _walk(os.path.join(VERIF, 'harness'), ('.py', '.rs', '.toml'))
    files += _walk(COQ, ('.v',)) + [os.path.join(COQ, '_CoqProject'), os.path.join(VERIF, 'check')]
    return _hash_files(files)


def coq_hash():
    return _hash_files(_walk(COQ, ('.v',)) + [os.path.join(COQ, '_CoqProject')])


class Ctx:
    def __init__(self, tier, seed):
        self.tier = tier
        self.seed = seed
        self.rh = repo_hash()
        self.vh = verif_hash()
        self.key = hashlib.sha256(('%s|%s|%s|%d' % (self.rh, self.vh, tier, seed)).encode()).hexdigest()[:20]
        self.dir = os.path.join(CACHE, 'run', self.key)
        os.makedirs(self.dir, exist_ok=True)
        self.log = []
        self._prune()

    def _prune(self):
        root = os.path.join(CACHE, 'run')
        try:
            ds = sorted((os.path.getmtime(os.path.join(root, d)), d) for d in os.listdir(root))
        except OSError:
            return
        for _, d in ds[:-4]:
            if d != self.key:
                shutil.rmtree(os.path.join(root, d), ignore_errors=True)

    def stage(self, name, fn):
        """run fn once per cache key (file lock so parallel checks share the work)"""
        path = os.path.join(self.dir, name + '.pkl')
        lock = os.path.join(self.dir, name + '.lock')
        with open(lock, 'w') as lf:
            fcntl.flock(lf, fcntl.LOCK_EX)
            try:
                if os.path.exists(path):
                    with open(path, 'rb') as f:
                        return pickle.load(f)
                t0 = time.time()
                res = fn()
                with open(path + '.tmp', 'wb') as f:
                    pickle.dump(res, f)
                os.replace(path + '.tmp', path)
                self.log.append('stage %s: %.1fs' % (name, time.time() - t0))
                return res
            finally:
                fcntl.flock(lf, fcntl.LOCK_UN)


def sh(cmd, cwd=None, timeout=3600, env=None):
    p = subprocess.run(cmd, cwd=cwd, capture_output=True, text=True, timeout=timeout, env=env or ENV)
    return p.returncode, p.stdout, p.stderr


# ---------------------------------------------------------------- Coq build (proof gate, part 1)

def coq_build():
    """full .vo build of the development through coq_makefile/make; lock-protected, incremental"""
    lock = os.path.join(COQ, '.build.lock')     # beside the .vo files it protects (the cache directory may be private)
    os.makedirs(CACHE, exist_ok=True)
    with open(lock, 'w') as lf:
        fcntl.flock(lf, fcntl.LOCK_EX)
        try:
            if not os.path.exists(os.path.join(COQ, 'Makefile')) or \
               os.path.getmtime(os.path.join(COQ, 'Makefile')) < os.path.getmtime(os.path.join(COQ, '_CoqProject')):
                rc, so, se = sh(['coq_makefile', '-f', '_CoqProject', '-o', 'Makefile'], cwd=COQ)
                if rc != 0:
                    return False, so + se
            rc, so, se = sh(['timeout', '3000', 'make', '-j16'], cwd=COQ, timeout=3100)
            return rc == 0, (so + se)[-6000:]
        finally:
            fcntl.flock(lf, fcntl.LOCK_UN)


# ---------------------------------------------------------------- expander (K1)

def expander_build(dest=None):
    """builds both feature configurations against /repo's working tree; the binaries are copied into [dest] (the
    run directory keyed by the source hashes) so that a cached stage never points at a later build"""
    src = os.path.join(VERIF, 'harness', 'expander')
    shutil.copy(os.path.join(REPO, 'Cargo.lock'), os.path.join(src, 'Cargo.lock'))
    bins = {}
    for feat in (False, True):
        tgt = os.path.join(CACHE, 'target-expander' + ('-dyn' if feat else ''))
        cmd = ['cargo', 'build', '--offline', '--release']
        if feat:
            cmd += ['--features', 'dynamic']
        rc, so, se = sh(cmd, cwd=src, env=dict(ENV, CARGO_TARGET_DIR=tgt), timeout=1800)
        if rc != 0:
            return {'ok': False, 'log': se[-6000:]}
        built = os.path.join(tgt, 'release', 'sm-expander')
        if dest:
            keep = os.path.join(dest, 'sm-expander' + ('-dyn' if feat else ''))
            shutil.copy(built, keep)
            built = keep
        bins[feat] = built
    return {'ok': True, 'bins': bins}


def expand(binary, dsl_texts):
    """run the real macro on definitions; returns list of result dicts"""
    inp = '\n=====\n'.join(t if t.strip() else '/*empty*/' for t in dsl_texts)
    p = subprocess.run([binary], input=inp, capture_output=True, text=True, timeout=1800)
    if p.returncode != 0:
        raise RuntimeError('expander failed: ' + p.stderr[-2000:])
    out = [None] * len(dsl_texts)
    for line in p.stdout.splitlines():
        j = json.loads(line)
        out[j['i']] = j['r']
    return out
