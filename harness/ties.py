"""Ties other than the K2 script families: K1 (the macro run as a library vs Front/Codegen),
direct implementation-level cross checks, K3 (rustc probes), K4 (core algebra); known findings; replay."""
import json
import os
import random
import re
import shutil

import coqrun
import corpus
import k2
import k2run
import smgen
import stages

ERR_MAP = [
    ('unexpected key', 1), ('missing `name`', 3), ('missing `initial`', 4), ('missing `states`', 5),
    ('duplicate state', 6), ('at least one child', 7), ('must reference a descendant', 8),
    ('transition missing `from`', 9), ('transition missing `to`', 10), ('must reference a leaf', 11),
    ('must be a member of', 12), ('snake_case', 13), ('at least one transition', 14),
    ('at least one source', 15), ('must declare an initial child', 16), ('target state not declared', 17),
    ('source state not declared', 18), ('does not resolve to any leaf', 19),
]


def real_code(r):
    if r.get('ok'):
        return 0
    msg = r.get('err', '')
    for pat, code in ERR_MAP:
        if pat in msg:
            return code
    return 99


# ---------------------------------------------------------------- K1: verdicts

def k1_verdict_corpus(ctx):
    rnd = random.Random(ctx.seed * 31 + 5)
    defs, _ = corpus.k2_definitions(ctx.tier, ctx.seed)
    cases = [('wf', d) for d in defs]
    n = 150 if ctx.tier == 'quick' else 1500
    for i in range(n):
        sh = smgen.Shape(async_=rnd.random() < 0.3, dynamic=rnd.random() < 0.6, concrete=rnd.random() < 0.4,
                         depth=rnd.randint(0, 3), nleaves=rnd.randint(1, 5), nevents=rnd.randint(0, 3),
                         data=rnd.choice(['none', 'some', 'all']), hooks=rnd.randint(0, 3),
                         payload=rnd.choice(['none', 'mixed', 'all']), super_data=rnd.random() < 0.2, cross_kind=rnd.random() < 0.3, hook_event=rnd.random() < 0.3,
                         ctx_ty=rnd.choice(['Ctx', 'Ctx', '()', 'u8', 'crate::Ctx', '(u8, u16)', "Cow<'static, str>", "&'static Board"]),
                         pl_ty=rnd.choice(['P', 'P', 'C', '()', "&'static str", 'u8', 'Box<dyn Fn(u8) -> u8 + Send>', "Cow<'static, str>", 'impl Fn(u8) -> bool']),
                         data_tys=rnd.choice([None, None, ['D0', "&'static str", '()', "Cow<'static, str>", 'Vec<u8>', 'Session<\'static, u8>']]))
        cases.append(('wf', smgen.gen_wellformed(rnd, sh, idx=-1)))
    # a leaf literally called `state` (the keyword of superstate blocks) in a states list written without commas
    cases.append(('wf', [('name', 'M'), ('initial', 'first'), ('_nocomma', True),
                         ('states', [('leaf', 'first', None), ('leaf', 'state', None), ('leaf', 'last', 'D0')]),
                         ('events', [('go', [('transition', [('from', ['first']), ('to', 'last')])])])]))
    cases.append(('wf', [('name', 'M'), ('initial', 'first'), ('_nocomma', True),
                         ('states', [('leaf', 'first', None), ('leaf', 'state', None), ('super', 'G', None, [('leaf', 'superstate', None), ('leaf', 'initial', None)])]),
                         ('events', [('go', [('transition', [('from', ['first', 'state']), ('to', 'G')])])])]))
    base = [d for (_, d) in cases]
    nm = 40 if ctx.tier == 'quick' else 400
    for d in rnd.sample(base, min(nm, len(base))):
        for (label, md) in corpus.mutants(rnd, d):
            cases.append((label, md))
        for (label, md) in corpus.ambiguous_mutants(rnd, d):
            cases.append((label, md))
    return cases


def k1_verdict(ctx):
    exp = ctx.stage('expander', lambda: stages.expander_build(ctx.dir))
    if not exp['ok']:
        return {'ok': False, 'why': 'expander does not build against /repo', 'log': exp['log']}
    cases = k1_verdict_corpus(ctx)
    texts = [smgen.dsl_defn(d, vary=True) for (_, d) in cases]
    real = stages.expand(exp['bins'][False], texts)
    shards = [[] for _ in range(16)]
    for i, (_, d) in enumerate(cases):
        shards[i % 16].append('Eval vm_compute in ("R", %d, 0, [accept_code false %s]).' % (i, smgen.coq_defn(d)))
    out = coqrun.run_shards(os.path.join(ctx.dir, 'coq_k1v'), ['\n'.join(s) for s in shards],
                            prelude=coqrun.PRELUDE + 'From SM Require Import Static.\n')
    R = coqrun.parse_R(out)
    rows = []
    for i, (label, d) in enumerate(cases):
        mc = R.get((i, 0), [None])[0]
        rc = real_code(real[i])
        rows.append({'i': i, 'label': label, 'model': mc, 'real': rc, 'real_ok': bool(real[i].get('ok')),
                     'real_err': real[i].get('err'), 'dsl': texts[i]})
    return {'ok': True, 'rows': rows}


def tie_k1_verdict(ctx, prop, rep, want_mutants):
    r = ctx.stage('k1_verdict', lambda: k1_verdict(ctx))
    if not r['ok']:
        rep.violate('tie', 'K1 could not run: ' + r['why'], {'log': r.get('log', '')[-3000:]}, no_input=True)
        return
    rows = r['rows']
    labels = {}
    kind_disagree = 0
    n = 0
    for row in rows:
        n += 1
        labels[row['label']] = labels.get(row['label'], 0) + 1
        model_accepts_front = row['model'] in (0, 100)
        if row['model'] is None:
            rep.violate('tie', 'model verdict missing for definition %d' % row['i'], {'dsl': row['dsl']}, no_input=True)
            continue
        if model_accepts_front != row['real_ok']:
            # the front ends disagree: concrete input
            if want_mutants and row['label'] != 'wf' and row['real_ok']:
                rep.violate('k1', 'ill-formed definition (%s) is accepted by the macro' % row['label'],
                            {'kind': 'k1', 'dsl': row['dsl'], 'rule': row['label'], 'model_code': row['model']})
            elif row['label'] == 'wf' and not row['real_ok'] and prop in ('C14', 'C01', 'C07'):
                rep.violate('k1', 'well-formed definition is rejected by the macro: %s' % row['real_err'],
                            {'kind': 'k1', 'dsl': row['dsl'], 'model_code': row['model']})
            else:
                rep.violate('k1', 'front-end verdict differs from the model (%s): model code %s, macro %s'
                            % (row['label'], row['model'], 'accepts' if row['real_ok'] else 'rejects: %s' % row['real_err']),
                            {'kind': 'k1', 'dsl': row['dsl'], 'model_code': row['model'], 'real': row['real_err']})
        elif not row['real_ok'] and row['model'] != row['real']:
            kind_disagree += 1
    rep.evals += n
    rep.distinct += len(set(row['dsl'] for row in rows))
    rep.cov['k1_verdict'] = {'definitions': n, 'by_rule': labels, 'diagnostic_kind_differs(informational)': kind_disagree}
    rep.samples.append({'k1_verdict_sample': rows[-1]['dsl'], 'label': rows[-1]['label'],
                        'model_code': rows[-1]['model'], 'macro': rows[-1]['real_err'] or 'accepted'})


# ---------------------------------------------------------------- direct implementation-level cross checks

def direct_pair(ctx, rep):
    """C09 on the implementation itself: the dynamic and the typed run of each pair agree"""
    r = ctx.stage('k2_pair', lambda: k2run.k2_family(ctx, 'pair'))
    if not r['ok'] or not r.get('jobs'):
        return
    n = 0
    for (i, scripts) in r['jobs']:
        for k in range(0, len(scripts) - 1, 2):
            a = r['real'][(i, k)]
            b = r['real'][(i, k + 1)]
            # a: ... handle ; into ; drop      b: ... into ; typed ; drop
            ha, hb = a[-3], b[-2]
            fa, fb = dict(zip(['res', 'trace', 'c', 'p', 'n', 'holder'], ha.split('|'))), dict(zip(['res', 'trace', 'c', 'p', 'n', 'holder'], hb.split('|')))
            n += 1
            ok = True
            why = ''
            if fb['res'] == 'nomethod':
                ok = fa['res'].startswith('err:IT(')
                why = 'no typed method but handle() did not refuse with InvalidTransition'
            elif fb['res'] == 'badop':
                continue     # into(leaf) failed: path did not reach leaf; nothing to compare
            else:
                ra, rb = fa['res'], fb['res']
                if rb == 'ok':
                    ok = ra == 'ok'
                elif rb.startswith('err:G('):
                    g, ev, kind = re.match(r'err:G\((.*),(.*),(gf\(.*\)|af\(.*\)|inv)\)$', rb).groups()
                    if kind.startswith('gf('):
                        ok = ra == 'err:GF(%s,%s)' % (kind[3:-1], ev)
                    elif kind.startswith('af('):
                        ok = ra == 'err:AF(%s,%s)' % (kind[3:-1], ev)
                    else:
                        ok = ra.startswith('err:IT(') and ra.endswith(',%s)' % ev)
                else:
                    ok = ra == rb
                why = 'results do not correspond: handle %s vs typed %s' % (ra, rb)
                if ok and fa['trace'] != fb['trace']:
                    ok = False
                    why = 'hook traces differ'
                if ok and (fa['c'], fa['p']) != (fb['c'], fb['p']) and not rb.startswith('panic'):
                    ok = False
                    why = 'drops differ'
                # final configuration: after `into leaf` (a) vs after typed (b)
                if ok and rb in ('ok',) :
                    pass
            if not ok:
                rep.violate('direct', 'typed and dynamic runs of the same call disagree: ' + why,
                            {'kind': 'k2-pair', 'dsl': smgen.dsl_defn(_def_of(ctx, i)),
                             'dynamic_script': [k2.op_text(o) for o in scripts[k]], 'dynamic_observed': a,
                             'typed_script': [k2.op_text(o) for o in scripts[k + 1]], 'typed_observed': b})
    rep.cov['direct_pair'] = {'pairs_compared': n}
    rep.evals += n


def _def_of(ctx, i):
    b = ctx.stage('k2build', lambda: k2run.k2_build(ctx))
    return b['defs'][i]


def direct_twin(ctx, rep):
    """C15 on the implementation itself: the async machine and its sync twin print the same lines,
    except for the count of Pending polls"""
    r = ctx.stage('k2_async', lambda: k2run.k2_family(ctx, 'async'))
    b = ctx.stage('k2build', lambda: k2run.k2_build(ctx))
    if not r['ok'] or not r.get('jobs'):
        return
    byi = dict(r['jobs'])
    n = 0
    for (a, s) in b['twins']:
        if a not in byi or s not in byi:
            continue
        for si in range(len(byi[a])):
            la, ls = r['real'][(a, si)], r['real'][(s, si)]
            for j, (x, y) in enumerate(zip(la, ls)):
                n += 1
                fx, fy = x.split('|'), y.split('|')
                if len(fx) == 6 and len(fy) == 6:
                    fx[4] = fy[4] = 'n'
                if fx != fy or len(la) != len(ls):
                    rep.violate('direct', 'async machine and its sync twin differ at op %d' % j,
                                {'kind': 'k2-twin', 'dsl_async': smgen.dsl_defn(b['defs'][a]),
                                 'script': [k2.op_text(o) for o in byi[a][si]], 'async_observed': la, 'sync_observed': ls})
                    break
    rep.cov['direct_twin'] = {'lines_compared': n, 'twin_pairs': len(b['twins'])}
    rep.evals += n


# ---------------------------------------------------------------- dispatcher

def run_extra(ctx, prop, spec, rep):
    k1 = spec.get('k1', [])
    if 'verdict' in k1 or 'mutants' in k1:
        tie_k1_verdict(ctx, prop, rep, want_mutants=('mutants' in k1))
    if spec.get('names'):
        tie_k1_names(ctx, prop, rep)
    if 'pair' in spec.get('direct', []):
        direct_pair(ctx, rep)
    if 'twin' in spec.get('direct', []):
        direct_twin(ctx, rep)
    try:
        import ties_k1s
        if 'struct' in k1 or 'forest' in k1 or spec.get('k1s'):
            ties_k1s.tie_struct(ctx, prop, rep, forest=('forest' in k1))
    except ImportError:
        pass
    try:
        import ties_k3
        for what in spec.get('k3', []):
            ties_k3.run(ctx, prop, what, rep)
    except ImportError:
        pass
    try:
        import ties_k4
        if spec.get('k4'):
            ties_k4.run(ctx, prop, rep)
    except ImportError:
        pass


def match_known(v, known):
    for k in known:
        m = k.get('match', {})
        pay = v.get('payload', {})
        if m.get('kind') and m['kind'] != pay.get('kind'):
            continue
        if m.get('dsl_regex') and not re.search(m['dsl_regex'], pay.get('dsl', '') or ''):
            continue
        if m.get('what_regex') and not re.search(m['what_regex'], v.get('what', '')):
            continue
        if m.get('rule') and m['rule'] != pay.get('rule'):
            continue
        if m.get('key') and m['key'] != pay.get('key'):
            continue
        return k
    return None


def setup(ctx):
    try:
        import ties_k3
        ties_k3.setup(ctx)
    except ImportError:
        pass


def replay(prop, path):
    with open(path) as f:
        rp = json.load(f)
    det = rp.get('detail', {})
    kind = det.get('kind')
    print('replaying', path, 'kind', kind)
    if kind == 'k2':
        return replay_k2(prop, det)
    if kind == 'k1':
        exp = stages.expander_build()
        r = stages.expand(exp['bins'][False], [det['dsl']])[0]
        print('macro verdict:', 'accepted' if r.get('ok') else 'rejected: %s' % r.get('err'))
        print('model code   :', det.get('model_code'))
        return 1 if (r.get('ok') and det.get('rule')) else 0
    if kind == 'k1s' and det.get('defn'):
        import ties_k1s
        exp = stages.expander_build()
        feat = bool(det.get('feature_dynamic'))
        d = to_tuples(det['defn'])
        r = stages.expand(exp['bins'][feat], [smgen.dsl_defn(d)])[0]
        out = coqrun.run_shards(os.path.join(stages.CACHE, 'replay_coq'),
                                ['Eval vm_compute in ("L", 0, 0, k3_table_of %s %s).' % ('true' if feat else 'false', smgen.coq_defn(d))])
        model = sorted(set(x.replace(' ', '') for x in coqrun.parse_L(out).get((0, 0), [])))
        real = sorted(set(x.replace(' ', '') for x in ties_k1s.skel_table(r, smgen.get(d, 'name'), smgen.get(d, 'context') is not None))) if r.get('ok') else ['REJECTED']
        om = [x for x in model if x not in real]
        orr = [x for x in real if x not in model]
        print('only in model       :', om[:10])
        print('only in macro output:', orr[:10])
        return 1 if (om or orr) else 0
    if kind == 'k3' and det.get('defn'):
        import ties_k3
        ctx = stages.Ctx('quick', 0)
        d = to_tuples(det['defn'])
        tables = ties_k3.model_tables(ctx, [d], [0], False, 'replay')
        src, exp_lines = ties_k3.probe_module(0, d, tables[0], {'methods', 'substate', 'send'})
        crate = os.path.join(stages.CACHE, 'replay_k3')
        ties_k3.write_lib_crate(crate, [('p0', src)], extra_root=ties_k3.ROOT_TYPES)
        rc, diags, se = ties_k3.cargo_check(crate)
        got = set()
        for dg in diags:
            for (fn, ln) in dg['locs']:
                if fn == 'src/p0.rs':
                    got.add(ln)
                    break
        bad = sorted(set(exp_lines) ^ got)
        lines = src.splitlines()
        for ln in bad:
            print('line %d: %s | model expects %s, rustc %s' % (ln, lines[ln - 1][:160], 'an error' if ln in exp_lines else 'no error',
                                                              'reports an error' if ln in got else 'accepts it'))
        return 1 if bad else 0
    print(json.dumps(rp, indent=1)[:4000])
    print('(no automatic replay for this kind: re-run ./check %s to re-evaluate it on the current tree)' % prop)
    return 1


def replay_k2(prop, det):
    """rebuild the one machine against the current tree, run the script, compare with the recorded model lines"""
    import subprocess
    exp = stages.expander_build()
    dsl = det['dsl']
    work = os.path.join(stages.CACHE, 'replay')
    if os.path.exists(work):
        shutil.rmtree(work)
    os.makedirs(work)
    skel = stages.expand(exp['bins'][False], [dsl])[0]
    if not skel.get('ok'):
        print('macro rejects the definition:', skel.get('err'))
        return 1
    d = to_tuples(det['defn'])
    # the machine's position in the corpus decides the form of its async hooks (k2.rust_module): keep its parity
    par = int(det.get('machine', 0)) % 2
    k2.write_crate(work, [(par, k2.rust_module(par, d, skel))])
    shutil.copy(os.path.join(stages.REPO, 'Cargo.lock'), os.path.join(work, 'Cargo.lock'))
    rc, so, se = stages.sh(['cargo', 'build', '--offline'], cwd=work,
                           env=dict(stages.ENV, CARGO_TARGET_DIR=os.path.join(stages.CACHE, 'target-k2')))
    if rc != 0:
        print(se[-2000:])
        return 1
    inp = 'M %d\nS\n' % par + '\n'.join(det['ops']) + '\n'
    p = subprocess.run([os.path.join(stages.CACHE, 'target-k2', 'debug', 'sm-k2')], input=inp, capture_output=True, text=True)
    lines = [l for l in p.stdout.splitlines() if not l.startswith('#')]
    bad = 0
    for i, (op, m, r) in enumerate(zip(det['ops'], det['required(model)'], lines)):
        flag = '  ' if m == r else 'XX'
        if m != r:
            bad += 1
        print(flag, op)
        if m != r:
            print('     required:', m)
            print('     observed:', r)
    print('replay: %s' % ('the implementation still differs from the model on %d line(s)' % bad if bad else
                          'the implementation agrees with the model on every line (not reproduced on this tree)'))
    return 1 if bad else 0


def to_tuples(x):
    if isinstance(x, list):
        # a node is a list whose first element is a tag string; children lists stay lists
        if x and isinstance(x[0], str) and x[0] in ('name', 'initial', 'context', 'async', 'dynamic', 'states', 'events',
                                                     'legacy', 'unknown', 'leaf', 'super', 'payload', 'list', 'transition',
                                                     'from', 'to'):
            return tuple(to_tuples(y) if i > 0 else y for i, y in enumerate(x))
        return [to_tuples(y) for y in x]
    return x


# ---------------------------------------------------------------- K1: the name functions

def k1_names(ctx):
    """to_snake_case / to_pascal_case of the real macro vs Ident.v, on every string over a 7-letter alphabet
    up to length 4 (quick) / 5 (thorough) and on the identifier pools"""
    import itertools
    import subprocess
    exp = ctx.stage('expander', lambda: stages.expander_build(ctx.dir))
    if not exp['ok']:
        return {'ok': False, 'why': 'expander does not build against /repo'}
    alpha = 'aA1_bB2'
    maxlen = 4 if ctx.tier == 'quick' else 5
    names = []
    for n in range(1, maxlen + 1):
        for t in itertools.product(alpha, repeat=n):
            names.append(''.join(t))
    names += ['r#loop', 'r#Type', 'r#HTTPServer', 'r#', 'r#_x', 'rr#a', 'r#r#loop']      # raw-identifier spellings
    # letters of the Latin-1 supplement (the model follows Unicode case mapping for U+00C0..U+00FF)
    names += ['démarrer', 'écoute', 'Écluse', 'ÉtatFinal', 'ÀvalOuvert', 'prüfen_größe', 'ß', 'ß_x', 'öffne_tür', 'a×b', '÷x', 'HTTPÉtat',
              'étatFinal', 'ÿ', 'ÿz_ÿ', 'Éa', 'aÉ', 'ÉÉa', 'aÉÉ', '_é', 'é_', 'é__é', 'É_É', 'ÞÐ', 'þ_ð', 'Æsir', 'æsir_1', 'x÷', 'ÀÈÌ', 'àèì']
    names += smgen.STATE_POOL + smgen.SUPER_POOL + smgen.EVENT_POOL + smgen.NAME_POOL + corpus.NON_SNAKE + \
        ['HTTPRequest', 'XMLParser', 'IOError', 'parseXML', 'sendHTTPRequest', 'ABCDef', 'SCREAMING_SNAKE', 'enable_2fa', 'x_y_z1']
    names = sorted(set(names))
    p = subprocess.run([exp['bins'][False], 'names'], input='\n'.join(names) + '\n', capture_output=True, text=True, timeout=600)
    real = {}
    for line in p.stdout.splitlines():
        f = line.split('\t')
        if len(f) == 3:
            real[f[0]] = (f[1], f[2])
    shards = [[] for _ in range(16)]
    for i, nm in enumerate(names):
        r = real.get(nm, ('?', '?'))
        shards[i % 16].append('Eval vm_compute in ("R", %d, 0, (if String.eqb (to_snake_case "%s") "%s" then [] else [1]) ++ '
                              '(if String.eqb (to_pascal_case "%s") "%s" then [] else [2])).' % (i, nm, r[0], nm, r[1]))
    out = coqrun.run_shards(os.path.join(ctx.dir, 'coq_k1n'), ['\n'.join(s) for s in shards])
    R = coqrun.parse_R(out)
    diffs = []
    for i, nm in enumerate(names):
        bad = R.get((i, 0))
        if bad is None or bad:
            diffs.append({'name': nm, 'real_snake': real.get(nm, ('?', '?'))[0], 'real_pascal': real.get(nm, ('?', '?'))[1],
                          'differs_in': ['missing'] if bad is None else ['to_snake_case' if 1 in bad else '', 'to_pascal_case' if 2 in bad else '']})
    return {'ok': True, 'n': len(names), 'diffs': diffs[:20], 'ndiffs': len(diffs)}


def tie_k1_names(ctx, prop, rep):
    r = ctx.stage('k1_names', lambda: k1_names(ctx))
    if not r['ok']:
        rep.violate('tie', 'K1 names could not run: ' + r['why'], {}, no_input=True)
        return
    rep.cov['k1_names'] = {'identifiers_compared': r['n'], 'differences': r['ndiffs']}
    rep.evals += r['n']
    rep.distinct += r['n']
    for d in r['diffs'][:4]:
        rep.violate('k1', 'name function differs from the model on `%s`: macro gives snake `%s`, pascal `%s`'
                    % (d['name'], d['real_snake'], d['real_pascal']), {'kind': 'k1-names', **d})
