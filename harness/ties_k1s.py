"""K1 structural tie: the items the real macro generates (run as a library, no rustc) against the
model's GIR, as sets of table lines (Script.k3_table).  Compared inside Coq? -- the model's lines are
printed by Coq and compared here as sets; any difference is reported with both sides."""
import os
import random
import re

import coqrun
import corpus
import smgen
import stages
import ties

P = r'::state_machines::core::'
AROUND_MATCH = (r'\{' + P + r'AroundOutcome::Proceed=>\{\},' + P + r'AroundOutcome::Abort\(err\)=>\{let callback_name=match&err\.kind\{'
                + P + r'TransitionErrorKind::GuardFailed\{guard\}=>\*guard,' + P + r'TransitionErrorKind::ActionFailed\{action\}=>\*action,'
                + P + r'TransitionErrorKind::InvalidTransition=>stringify!\((\w+)\),\};')
RE_AB = re.compile(r'^match self\.(\w+)\(' + P + r'AroundStage::Before\)(\.await)?' + AROUND_MATCH
                   + r'return::core::result::Result::Err\(\(self,' + P + r'GuardError::with_kind\(callback_name,stringify!\((\w+)\),err\.kind\)\)\);\}\}$')
RE_AA = re.compile(r'^match new_machine\.(\w+)\(' + P + r'AroundStage::AfterSuccess\)(\.await)?' + AROUND_MATCH
                   + r'panic!\("Around callback \'\{\}\' aborted at AfterSuccess stage during event \'\{\}\'.*",callback_name,stringify!\((\w+)\)\);\}\}$', re.S)
RE_C = re.compile(r'^if(!)?\s?self\.(\w+)\(&self\.ctx(,&payload)?\)(\.await)?\{return::core::result::Result::Err\(\(self,' + P
                  + r'GuardError::new\(stringify!\((\w+)\),stringify!\((\w+)\)\)\)\);\}$')
RE_B = re.compile(r'^self\.(\w+)\((&payload)?\)(\.await)?;$')
RE_A = re.compile(r'^new_machine\.(\w+)\((&payload)?\)(\.await)?;$')
RE_N = re.compile(r'^let mut new_machine=(\w+)\{ctx:self\.ctx,_state:::core::marker::PhantomData,(.*)\};$')
RE_INIT = re.compile(r'(\w+):::core::option::Option::(None|Some\(<((?:(?!as::core::default::Default>).)*?)as::core::default::Default>::default\(\)\)),')


def b2s(x):
    return '1' if x else '0'


def inits_code(text):
    out = []
    pos = 0
    for m in RE_INIT.finditer(text):
        if m.start() != pos:
            return None
        pos = m.end()
        out.append('%s=%s' % (m.group(1), 'N' if m.group(2) == 'None' else 'D'))
    if pos != len(text):
        return None
    return ','.join(out)


RE_IFLET = re.compile(r'^if\s?let\s?(' + P + r'AroundOutcome::Abort\(\w+\))=(\w+\.\w+\(' + P + r'AroundStage::\w+\)(?:\.await)?)\{(.*)\}$', re.S)


def canon_locals(stmts):
    """names of generated locals carry no meaning: rename them to the ones the templates use; an `if let Abort(e) = call
    { body }` is the two-armed `match call { Proceed => {}, Abort(e) => { body } }` (the enum has two variants)"""
    out = []
    for st in stmts:
        m = RE_IFLET.match(st)
        if m:
            st = 'match %s{%sAroundOutcome::Proceed=>{},%s=>{%s}}' % (m.group(2), P.replace('\\', ''), m.group(1), m.group(3))
        out.append(st)
    stmts = out
    ren = {}
    for st in stmts:
        m = re.match(r'^let mut (\w+)=\w+\{ctx:self\.ctx,', st)
        if m and m.group(1) != 'new_machine':
            ren[m.group(1)] = 'new_machine'
        m = re.search(r'AroundOutcome::Abort\((\w+)\)=>\{let (\w+)=match&(\w+)\.kind\{', st)
        if m and m.group(1) == m.group(3):
            if m.group(1) != 'err':
                ren[m.group(1)] = 'err'
            if m.group(2) != 'callback_name':
                ren[m.group(2)] = 'callback_name'
    if ren and not (set(ren.values()) & set(ren.keys())):
        pat = re.compile(r'(?<![\w])(' + '|'.join(re.escape(k) for k in ren) + r')(?![\w])')
        out = [pat.sub(lambda mm: ren[mm.group(1)], st) for st in out]
    return out



def _rename(body, ren):
    ren = {k: v for k, v in ren.items() if k != v}
    if not ren or (set(ren.values()) & set(ren.keys())):
        return body
    pat = re.compile(r'(?<![\w])(' + '|'.join(re.escape(k) for k in ren) + r')(?![\w])')
    return pat.sub(lambda mm: ren[mm.group(1)], body)


def canon_dyn(fn, body):
    """the locals of the generated Dynamic<Name> functions carry no meaning: bring them to the names the
    templates below use (a loose match finds each binder by its position, then the text is renamed)"""
    ren = {}

    def bind(rx, *names):
        m = re.search(rx, body)
        if m:
            for g, n in zip(m.groups(), names):
                ren.setdefault(g, n)

    if fn == 'handle':
        bind(r'^let (\w+)=self\.inner\.take\(\)', 'current')
        bind(r';let (\w+)=match\(\w+,event\)\{', 'new_state')
        bind(r'\(Any\w+State::\w+\((\w+)\),\w+Event::\w+(?:\(\w+\))?\)=>\{match (\w+)\.', 'm', 'm')
        bind(r'\{Ok\((\w+)\)=>Any\w+State::\w+\((\w+)\),Err\(\((\w+),(\w+)\)\)=>', 'new_machine', 'new_machine', 'old_machine', 'err')
        bind(r'\}(\w+)=>(\w+),\}\);', 'other', 'other')
        bind(r'\((\w+),event\)=>\{let (\w+)=(\w+)\.name\(\);', 'state', 'state_name', 'state')
    elif fn.startswith('set_') and fn.endswith('_data'):
        bind(r'Option::Some\((\w+)\)=>match (\w+)\{', 'state', 'state')
        bind(r'State::\w+\((\w+)\)\)?=>\{(\w+)\.\w+=', 'machine', 'machine')
        bind(r'\}(\w+)=>Err\(\S*?wrong_state\("[^"]*",(\w+)\.name\(\)', 'other', 'other')
        bind(r'Option::Some\((\w+)\)=>Err\(\S*?wrong_state\("[^"]*",(\w+)\.name\(\)', 'other', 'other')
    elif fn.endswith('_data') or fn.endswith('_data_mut'):
        bind(r'State::\w+\((\w+)\)=>(\w+)\.\w+\.as_', 'machine', 'machine')
    elif fn.startswith('into_'):
        bind(r'Option::Some\(Any\w+State::\w+\((\w+)\)\)=>Ok\((\w+)\)', 'm', 'm')
        bind(r',(\w+)=>\{self\.inner=(\w+);', 'other', 'other')
    # a binder found twice under different names is not a plain renaming: leave the text alone
    return _rename(body, ren)


def stmt_code(st, name):
    m = RE_AB.match(st)
    if m and m.group(1) == m.group(3):
        return 'AB(%s,%s,%s)' % (m.group(1), b2s(m.group(2)), m.group(4))
    m = RE_AA.match(st)
    if m and m.group(1) == m.group(3):
        return 'AA(%s,%s,%s)' % (m.group(1), b2s(m.group(2)), m.group(4))
    m = RE_C.match(st)
    if m:
        return 'C(%s,%s,%s,%s,%s,%s)' % (b2s(m.group(1)), m.group(2), b2s(m.group(3)), b2s(m.group(4)), m.group(5), m.group(6))
    m = RE_B.match(st)
    if m:
        return 'B(%s,%s,%s)' % (m.group(1), b2s(m.group(2)), b2s(m.group(3)))
    m = RE_A.match(st)
    if m:
        return 'A(%s,%s,%s)' % (m.group(1), b2s(m.group(2)), b2s(m.group(3)))
    m = RE_N.match(st)
    if m and m.group(1) == name:
        ic = inits_code(m.group(2))
        if ic is not None:
            return 'N(1,%s)' % ic
    if st == '::core::result::Result::Ok(new_machine)':
        return 'OK'
    return 'UNKNOWN<%s>' % st[:160]


def skel_table(skel, name, concrete):
    """table lines (same vocabulary as Script.k3_table) from the real expansion"""
    out = []
    items = skel.get('items', [])
    mt = re.compile(r'^%s<(?:C,)?(\w+)>$' % re.escape(name))
    ret = re.compile(r'^::core::result::Result<%s<(?:C,)?(\w+)>,\(Self,::state_machines::core::GuardError\)>$' % re.escape(name))
    for it in items:
        k = it['k']
        if k == 'struct' and it.get('unit') and it['derives'] == ['Debug', 'Clone', 'Copy', 'PartialEq', 'Eq', 'Hash'] and it['vis'] == 'pub':
            out.append('mk|' + it['name'])
        elif k == 'struct' and it['name'] == name:
            want = ['C', 'S'] if not concrete else ['S']
            if it['generics'] != want or it['derives'] != ['Debug']:
                out.append('BAD-STRUCT|%s|%s' % (it['generics'], it['derives']))
            fs = it['fields']
            if len(fs) < 2 or fs[0][1] != 'ctx' or fs[1][1:] != ['_state', '::core::marker::PhantomData<S>']:
                out.append('BAD-FIELDS|%s' % fs[:2])
            for f in fs[2:]:
                m = re.match(r'^::core::option::Option<(.*)>$', f[2])
                out.append('fld|%s|%s' % (f[1], m.group(1) if m else 'BAD:' + f[2]))
        elif k == 'struct' and it['name'] == 'Dynamic' + name:
            out.append('dyn')
            if it['derives'] != ['Debug'] or it['vis'] != 'pub':
                out.append('BAD-DYN-STRUCT|%s|%s' % (it['derives'], it['vis']))
            if not any(x['k'] == 'impl' and x['trait'] == 'Default' and x['self'].startswith('Dynamic' + name) for x in items):
                out.append('BAD-DYN-NO-DEFAULT-IMPL')
        elif k == 'enum' and it['name'] == name + 'Event':
            pass
        elif k == 'impl':
            tr = it['trait']
            if tr is not None:
                m = re.match(r'^::state_machines::SubstateOf<(\w+)>$', tr)
                if m:
                    out.append('sub|%s|%s' % (it['self'], m.group(1)))
                continue
            # every method of the machine, of the event enum and of the dynamic wrapper is part of the public API
            if re.match(r'^(?:Dynamic)?%s(?:Event)?(?:<.*>)?$' % re.escape(name), it['self']):
                for f in it['fns']:
                    if 'name' in f and f['vis'] != 'pub':
                        out.append('BAD-VIS|%s|%s' % (it['self'], f['name']))
            m = mt.match(it['self'])
            if m and 'S' not in it['generics']:
                st = m.group(1)
                for f in it['fns']:
                    if 'name' not in f:
                        out.append('OTHER|' + str(f))
                        continue
                    r = ret.match(f['output'])
                    if f['name'] == 'new' and f['output'] == 'Self':
                        out.append('new|' + st)
                        mm = re.match(r'^(?:Self|%s)\{ctx,_state:::core::marker::PhantomData,(.*)\}$' % re.escape(name), ''.join(f['stmts']))
                        ic = inits_code(mm.group(1)) if mm else None
                        out.append('nb|%s|%s' % (st, ic if ic is not None else 'UNKNOWN<%s>' % ''.join(f['stmts'])[:120]))
                    elif r:
                        pl = 'p' if len(f['inputs']) == 2 else '-'
                        if f['inputs'][0] != 'mut self' or f['vis'] != 'pub':
                            pl = 'BADSIG'
                        out.append('m|%s|%s|%s|%s|%s' % (st, f['name'], r.group(1), pl, 'a' if f['async'] else '-'))
                        out.append('b|%s|%s|%s' % (st, f['name'], ';'.join(stmt_code(x, name) for x in canon_locals(f['stmts']))))
                    elif f['name'] == 'into_dynamic':
                        pass
                    elif f['name'].endswith('_data') and f['output'].startswith('&') and f['inputs'] == ['&self']:
                        out.append('acc|%s|%s' % (st, f['name']))
                    elif f['name'].endswith('_data_mut') and f['output'].startswith('&mut') and f['inputs'] == ['&mut self']:
                        pass
                    else:
                        out.append('UNEXPECTED|%s|%s|%s' % (st, f['name'], f['output']))
            elif it['self'] == name + 'Event':
                for f in it['fns']:
                    if f.get('name') == 'name':
                        body = ''.join(f['stmts'])
                        for v, lit in re.findall(r'Self::(\w+)(?:\(_\))?=>"([^"]*)"', body):
                            out.append('ev|%s|%s' % (v, lit))
            elif re.match(r'^Dynamic%s(<C>)?$' % re.escape(name), it['self']):
                fns = {f['name']: f for f in it['fns'] if 'name' in f}
                for f in [x for x in it['fns'] if 'name' in x]:
                    fn = f['name']
                    body = canon_dyn(fn, ''.join(f['stmts']))
                    if fn.startswith('set_') and fn.endswith('_data'):
                        base = fn[4:-5]
                        lit = re.search(r'wrong_state\("([^"]*)",other\.name\(\),stringify!\((\w+)\)', body)
                        # nested (`Some(state) => match state { X(machine) => ..`) or flattened (`Some(X(machine)) => ..`)
                        vs = re.findall(r'Any%sState::(\w+)\(machine\)\)?=>\{machine\.(\w+)=' % re.escape(name), body)
                        rd = fns.get(base + '_data')
                        wr = fns.get(base + '_data_mut')
                        rvs = re.findall(r'Any%sState::(\w+)\(machine\)=>machine\.(\w+)\.as_ref\(\)' % re.escape(name), canon_dyn(base + '_data', ''.join(rd['stmts']))) if rd else None
                        wvs = re.findall(r'Any%sState::(\w+)\(machine\)=>machine\.(\w+)\.as_mut\(\)' % re.escape(name), canon_dyn(base + '_data_mut', ''.join(wr['stmts']))) if wr else None
                        # the setter writes through a borrow of the wrapped machine (it never takes it out of the wrapper)
                        if rvs != vs or wvs != vs or lit is None or lit.group(2) != fn or not body.startswith('match self.inner.as_mut(){'):
                            out.append('BAD-DACC|%s|%s|%s|%s' % (fn, vs, rvs, wvs))
                        else:
                            out.append('dacc|%s|%s|%s|%s|%s' % (lit.group(1), base + '_data', base + '_data_mut', fn, ','.join(v for v, _ in vs)))
                    elif fn.startswith('into_'):
                        m2 = re.search(r'::core::option::Option::Some\(Any%sState::(\w+)\(m\)\)=>Ok\(m\),other=>\{self\.inner=other;Err\(self\)\}' % re.escape(name), body)
                        r2 = re.match(r'^Result<%s<(?:C,)?(\w+)>,Self>$' % re.escape(name), f['output'])
                        if m2 and r2 and m2.group(1) == r2.group(1):
                            out.append('into|%s|%s' % (fn, m2.group(1)))
                        else:
                            out.append('BAD-INTO|%s|%s' % (fn, body[:80]))
                    elif fn == 'handle':
                        arms = re.findall(
                            r'\(Any%sState::(\w+)\(m\),%sEvent::(\w+)(\(payload\))?\)=>\{match m\.(\w+)\((payload)?\)(\.await)?\{'
                            r'Ok\(new_machine\)=>Any%sState::(\w+)\(new_machine\),Err\(\(old_machine,err\)\)=>\{self\.inner=::core::option::Option::Some\(Any%sState::(\w+)\(old_machine\)\);'
                            % (re.escape(name), re.escape(name), re.escape(name), re.escape(name)), body)
                        narms = body.count('=>{match m.')
                        if narms != len(arms):
                            out.append('BAD-ARMS|%d|%d' % (narms, len(arms)))
                        for (src, var, bp, meth, pp, aw, ok, restore) in arms:
                            if restore != src or bool(bp) != bool(pp):
                                out.append('BAD-ARM|%s|%s' % (src, var))
                            out.append('arm|%s|%s|%s|%s' % (src, var, meth, ok))
                        via_local = ';let new_state=match(current,event){' in body and \
                            body.rstrip().endswith('};self.inner=::core::option::Option::Some(new_state);Ok(())')
                        direct = ';self.inner=::core::option::Option::Some(match(current,event){' in body and body.rstrip().endswith('});Ok(())')
                        if 'let current=self.inner.take().expect(' not in body or not (via_local or direct):
                            out.append('BAD-HANDLE-FRAME')
    return out


def k1_struct(ctx):
    exp = ctx.stage('expander', lambda: stages.expander_build(ctx.dir))
    if not exp['ok']:
        return {'ok': False, 'why': 'expander does not build against /repo', 'log': exp['log']}
    cases = [d for (lab, d) in ties.k1_verdict_corpus(ctx) if lab == 'wf']
    rnd = random.Random(ctx.seed * 17 + 3)
    # bounded-exhaustive small forests for C07 are part of the same corpus
    cases += forest_family(ctx.tier, rnd)
    res = {'ok': True, 'rows': []}
    for feat in (False, True):
        texts = [smgen.dsl_defn(d, vary=True) for d in cases]
        real = stages.expand(exp['bins'][feat], texts)
        shards = [[] for _ in range(16)]
        for i, d in enumerate(cases):
            shards[i % 16].append('Eval vm_compute in ("L", %d, 0, k3_table_of %s %s).' % (i, 'true' if feat else 'false', smgen.coq_defn(d)))
        out = coqrun.run_shards(os.path.join(ctx.dir, 'coq_k1s_%d' % feat), ['\n'.join(s) for s in shards])
        L = coqrun.parse_L(out)
        for i, d in enumerate(cases):
            model = L.get((i, 0))
            r = real[i]
            name = smgen.get(d, 'name')
            concrete = smgen.get(d, 'context') is not None
            if model is None:
                res['rows'].append({'i': i, 'feat': feat, 'dsl': texts[i], 'problem': 'model table missing'})
                continue
            if not r.get('ok'):
                if model != ['REJECTED']:
                    res['rows'].append({'i': i, 'feat': feat, 'dsl': texts[i], 'problem': 'macro rejects: %s' % r.get('err')})
                continue
            if model == ['REJECTED']:
                res['rows'].append({'i': i, 'feat': feat, 'dsl': texts[i], 'problem': 'model rejects, macro accepts'})
                continue
            if 'items' not in r:
                res['rows'].append({'i': i, 'feat': feat, 'dsl': texts[i], 'problem': 'expansion is not a list of items: %s' % r.get('err')})
                continue
            rt = skel_table(r, name, concrete)
            # types are token text on one side and the DSL's spelling on the other: compare without white space
            model = [x.replace(' ', '') for x in model]
            rt = [x.replace(' ', '') for x in rt]
            ms, rs = sorted(set(model)), sorted(set(rt))
            if ms != rs or len(model) != len(rt) and False:
                only_m = [x for x in ms if x not in rs]
                only_r = [x for x in rs if x not in ms]
                res['rows'].append({'i': i, 'feat': feat, 'dsl': texts[i], 'defn': d, 'problem': 'generated items differ from the model',
                                    'only_in_model': only_m[:12], 'only_in_macro_output': only_r[:12]})
    res['n'] = len(cases) * 2
    res['distinct'] = len(set(smgen.dsl_defn(d) for d in cases))
    res['sample'] = smgen.dsl_defn(cases[-1])
    return res


# which table-line kinds matter to which property
KINDS = {
    'C01': ('arm', 'ev', 'new', 'm', 'BAD'),
    'C03': ('b',), 'C04': ('b',), 'C05': ('b', 'arm'), 'C06': ('b',), 'C08': ('b', 'nb', 'fld'), 'C15': ('b', 'arm', 'm'), 'C16': ('b', 'nb', 'new'),
    'C02': ('m', 'new', 'acc', 'UNEXPECTED', 'BAD-STRUCT', 'OTHER'),
    'C07': ('m', 'sub', 'mk', 'arm'),
    'C14': None,       # everything
    'C17': ('mk', 'fld', 'BAD-STRUCT', 'BAD-FIELDS'),
    # identifiers that coincide across roles (a hook named like an event, look-alike states): bodies, methods, arms, variants
    'C18': ('b', 'm', 'arm', 'ev', 'sub'),
    'C10': ('dyn', 'BAD-DYN', 'into', 'BAD-INTO', 'BAD-VIS'),       # the wrapper, its Default impl, the conversions
    'C19': ('arm', 'BAD-ARM', 'BAD-HANDLE', 'BAD-DYN'),
    'C11': ('dacc', 'BAD-DACC', 'acc'),                             # the dynamic accessors and setters             # the frame of handle(): take, arms, write-back
}


def tie_struct(ctx, prop, rep, forest=False):
    r = ctx.stage('k1_struct', lambda: k1_struct(ctx))
    if not r['ok']:
        rep.violate('tie', 'K1 could not run: ' + r['why'], {'log': r.get('log', '')[-3000:]}, no_input=True)
        return
    kinds = KINDS.get(prop)
    n_rel = 0
    for row in r['rows']:
        lines = row.get('only_in_model', []) + row.get('only_in_macro_output', [])
        if kinds is not None and lines and not any(l.split('|')[0].startswith(kinds) for l in lines):
            continue
        n_rel += 1
        # a structural difference says the correspondence no longer checks for this definition; whether the
        # property fails on it is for the behavioural ties (K2/K3/K4) of the same check to show
        rep.violate('k1', 'K1 structure (correspondence Codegen.v ~ macro output no longer checks): %s (feature dynamic=%s)'
                    % (row['problem'], row['feat']),
                    {'kind': 'k1s', 'dsl': row['dsl'], 'defn': row.get('defn'), 'feature_dynamic': row['feat'],
                     'only_in_model': row.get('only_in_model'), 'only_in_macro_output': row.get('only_in_macro_output')},
                    no_input=True)
        if n_rel >= 6:
            break
    rep.evals += r['n']
    rep.distinct += r['distinct']
    rep.cov['k1_struct'] = {'definitions_x_feature': r['n'], 'distinct_definitions': r['distinct'],
                            'differences': len(r['rows'])}
    rep.samples.append({'k1_struct_sample': r['sample']})


# ---------------------------------------------------------------- bounded-exhaustive forests (C07)

def forest_family(tier, rnd):
    """all forests with <= N nodes and depth <= 3, every placement of `initial:`, with transitions using
    every node as source and as target"""
    maxn = 4 if tier == 'quick' else 6
    shapes = set()

    def gen(n, depth):
        """yield lists of shapes (a shape: 'L' or tuple of child shapes) with exactly n nodes"""
        if n == 0:
            yield ()
            return
        for first in range(1, n + 1):
            for head in node(first, depth):
                for rest in gen(n - first, depth):
                    yield (head,) + rest

    def node(n, depth):
        if n == 1:
            yield 'L'
        if n >= 2 and depth > 0:
            for body in gen(n - 1, depth - 1):
                if body:
                    yield body
    out = []
    for n in range(2, maxn + 1):
        for f in gen(n, 3):
            shapes.add(f)
    shapes = sorted(shapes, key=repr)
    rnd.shuffle(shapes)
    if tier == 'quick':
        shapes = shapes[:60]
    for sh in shapes:
        ctr = [0, 0]

        def build(s):
            if s == 'L':
                ctr[0] += 1
                return ('leaf', 'S%d' % ctr[0], None)
            ctr[1] += 1
            nm = 'G%d' % ctr[1]
            return ('super', nm, None, [build(c) for c in s])
        forest = [build(s) for s in sh]
        leaves = smgen.leaves_of(forest)
        if not leaves:
            continue
        supers = smgen.supers_of(forest)
        # initial placements: none / each leaf of each superstate (one variant per superstate choice)
        variants = [forest]
        for g in supers:
            def with_init(items):
                res = []
                for it in items:
                    if it[0] == 'super':
                        body = with_init(it[3])
                        if it[1] == g:
                            lv = smgen.leaves_of(body)
                            body = body + [('initial', lv[-1])]
                        res.append(('super', it[1], it[2], body))
                    else:
                        res.append(it)
                return res
            variants.append(with_init(forest))
        for fv in variants:
            nodes = leaves + supers
            evs = []
            # one event per target node, sources: each node in turn (deterministic: one transition per event from one source)
            for ti, tgt in enumerate(nodes):
                src = nodes[(ti + 1) % len(nodes)]
                evs.append(('e%d' % ti, [('transition', [('from', [src]), ('to', tgt)])]))
            d = [('name', 'M'), ('initial', leaves[0]), ('dynamic', True), ('states', fv), ('events', evs)]
            out.append(d)
    return out
