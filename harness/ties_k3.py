"""K3: rustc as the oracle for facts that exist only at compile time.  Probe crates are generated from
the model's tables (positive and negative probes, one per line); `cargo check` diagnostics are matched
to probe lines; a run passes iff rustc's error lines are exactly the lines the model says must fail."""
import json
import os
import random
import re
import shutil

import coqrun
import corpus
import k2run
import smgen
import stages
from smgen import to_snake, to_pascal

ROOT_TYPES = '''
#[derive(Debug)] pub struct Ctx(pub u32);
impl Default for Ctx { fn default() -> Self { Ctx(0) } }
#[derive(Debug)] pub struct P(pub u32);
#[derive(Debug, Default, PartialEq)] pub struct D0(pub u64);
#[derive(Debug, Default, PartialEq)] pub struct D1(pub u64);
#[derive(Debug, Default, PartialEq)] pub struct D2(pub u64);
#[derive(Debug, Default, PartialEq)] pub struct D3(pub u64);
pub fn need_send<T: Send>(_: &T) {}
pub fn sub<L: ::state_machines::SubstateOf<Q> + ::state_machines::core::SubstateOf<Q>, Q>() {}
pub fn ms<T: ::state_machines::MachineState>() {}
'''


def plain_hooks(d):
    name = smgen.get(d, 'name')
    initial = smgen.get(d, 'initial')
    concrete = smgen.get(d, 'context') is not None
    is_async = bool(smgen.get(d, 'async', False))
    hooks = smgen.hook_names(d)
    hpl = smgen.hooks_with_payload(d)
    af = 'async fn' if is_async else 'fn'
    ctxty = 'Ctx' if concrete else 'C'
    o = ['impl<S> %s<S> {' % name if concrete else 'impl<C, S> %s<C, S> {' % name]
    for g in sorted(set(hooks['guards'] + hooks['unless'])):
        o.append('  %s %s(&self, _c: &%s%s) -> bool { true }' % (af, g, ctxty, ', _p: &P' if hpl.get(g) else ''))
    for cb in sorted(set(hooks['before'] + hooks['after'])):
        o.append('  %s %s(&self%s) {}' % (af, cb, ', _p: &P' if hpl.get(cb) else ''))
    for cb in hooks['around']:
        o.append('  %s %s(&self, _s: ::state_machines::core::AroundStage) -> ::state_machines::core::AroundOutcome<%s> { ::state_machines::core::AroundOutcome::Proceed }' % (af, cb, initial))
    o.append('}')
    return o


def parse_table(lines):
    t = {'new': [], 'm': [], 'acc': [], 'sub': [], 'mk': [], 'fld': [], 'dyn': False, 'ev': [], 'dacc': [], 'into': [], 'arm': [], 'b': [], 'nb': []}
    for l in lines:
        f = l.split('|')
        if f[0] == 'dyn':
            t['dyn'] = True
        elif f[0] in t:
            t[f[0]].append(f[1:])
    return t


def probe_module(i, d, table, want):
    """returns (source, {line_no: (probe id, expected code class)}) ; line numbers are 1-based in the file"""
    name = smgen.get(d, 'name')
    concrete = smgen.get(d, 'context') is not None
    is_async = bool(smgen.get(d, 'async', False))
    forest = smgen.get(d, 'states')
    leaves = smgen.leaves_of(forest)
    supers = smgen.supers_of(forest)
    specs = smgen.data_specs(forest)
    events = list(dict.fromkeys(smgen.event_names(d)))      # an event may be declared in several blocks
    MT = (lambda s: '%s<%s>' % (name, s)) if concrete else (lambda s: '%s<Ctx, %s>' % (name, s))
    DM = ('Dynamic%s' % name) if concrete else ('Dynamic%s<Ctx>' % name)
    L = []
    exp = {}

    def emit(line, neg=None):
        # names of probe functions are built from state and event names: `r#loop` cannot be part of one
        line = re.sub(r'^((?:async )?fn \w*)((?:_?r#\w+)+)', lambda m: m.group(1) + m.group(2).replace('r#', 'raw_'), line)
        while re.match(r'^(?:async )?fn [\w]*r#', line):
            line = re.sub(r'^((?:async )?fn [\w]*)r#', r'\1raw_', line)
        L.append(line)
        if neg:
            exp[len(L)] = neg
    emit('#![allow(non_camel_case_types, non_snake_case, dead_code, unused_variables, unused_mut, unused_imports, private_interfaces)]')
    emit('use crate::{Ctx, P, D0, D1, D2, D3, need_send, sub, ms};')
    emit('use state_machines::state_machine;')
    emit('use state_machines::core::GuardError;')
    for l in ('state_machine! {\n    %s\n}' % smgen.dsl_defn(d)).split('\n'):
        emit(l)
    for l in plain_hooks(d):
        emit(l)
    meth = {(m[0], m[1]): m for m in table['m']}
    if len(leaves) > 40:       # very wide machines: both ends and the byte boundary
        pick = lambda l: list(dict.fromkeys(l[:3] + l[62:66] + l[254:258] + l[-3:]))
        leaves, events = pick(leaves), pick(events)
    aw = '.await' if is_async else ''
    af = 'async fn' if is_async else 'fn'
    if 'methods' in want:
        for s in leaves:
            for ev in events:
                arg = 'P(0)' if smgen.event_payload(d, ev) else ''
                if (s, ev) in meth:
                    tgt = meth[(s, ev)][2]
                    emit('%s pos_%s_%s(m: %s) { let _r: ::core::result::Result<%s, (%s, GuardError)> = m.%s(%s)%s; }'
                         % (af, s, ev, MT(s), MT(tgt), MT(s), ev, arg, aw))
                else:
                    emit('fn neg_%s_%s(m: %s) { let _ = m.%s(%s); }' % (s, ev, MT(s), ev, arg), ('method %s on %s' % (ev, s), 'E0599'))
        news = [n[0] for n in table['new']]
        for s in leaves:
            if s in news:
                emit('fn pos_new_%s() { let _m: %s = <%s>::new(Ctx(0)); }' % (s, MT(s), MT(s)))
            else:
                emit('fn neg_new_%s() { let _ = <%s>::new(Ctx(0)); }' % (s, MT(s)), ('new on %s' % s, 'E0599'))
        accs = {(a[0], a[1]) for a in table['acc']}
        for (x, ty) in specs:
            an = to_snake(x) + '_data'
            for s in leaves:
                if (s, an) in accs:
                    emit('fn pos_acc_%s_%s(m: &mut %s) { let _d: &%s = m.%s(); let _e: &mut %s = m.%s_mut(); }' % (s, x, MT(s), ty, an, ty, an))
                else:
                    emit('fn neg_acc_%s_%s(m: &%s) { let _ = m.%s(); }' % (s, x, MT(s), an), ('accessor %s on %s' % (an, s), 'E0599'))
    if 'substate' in want:
        subs = {(a[0], a[1]) for a in table['sub']}
        for s in leaves:
            for g in supers:
                if (s, g) in subs:
                    emit('fn pos_sub_%s_%s() { sub::<%s, %s>(); }' % (s, g, s, g))
                else:
                    emit('fn neg_sub_%s_%s() { sub::<%s, %s>(); }' % (s, g, s, g), ('SubstateOf<%s> for %s' % (g, s), 'E0277'))
        for mk in leaves + supers:
            emit('fn pos_mk_%s() { ms::<%s>(); }' % (mk, mk))
    if 'send' in want and is_async:
        for (s, ev) in sorted(meth):
            arg = 'P(0)' if smgen.event_payload(d, ev) else ''
            emit('fn send_%s_%s(m: %s) { let f = m.%s(%s); need_send(&f); }' % (s, ev, MT(s), ev, arg))
        if table['dyn']:
            for ev in events:
                arg = '(P(0))' if smgen.event_payload(d, ev) else ''
                emit('fn send_handle_%s(d: &mut %s) { let f = d.handle(%sEvent::%s%s); need_send(&f); }' % (ev, DM, name, to_pascal(ev), arg))
    return '\n'.join(L) + '\n', exp


SEND_CONTROL = '''#![allow(non_camel_case_types, non_snake_case, dead_code, unused_variables)]
use crate::need_send;
use state_machines::state_machine;
pub struct NotSend(pub std::rc::Rc<()>);
state_machine! { name: Mc, initial: A, async: true, states: [A, B], events { go { guards: [g], transition: { from: A, to: B } } } }
impl<C, S> Mc<C, S> { async fn g(&self, _c: &C) -> bool { true } }
fn control_send(m: Mc<NotSend, A>) { let f = m.go(); need_send(&f); }
'''


def cargo_check(crate, features=None, target='target-k3', build=False):
    cmd = ['cargo', 'build' if build else 'check', '--offline', '--message-format=json', '--lib']
    rc, so, se = stages.sh(cmd, cwd=crate, env=dict(stages.ENV, CARGO_TARGET_DIR=os.path.join(stages.CACHE, target)), timeout=3000)
    diags = []
    for line in so.splitlines():
        try:
            j = json.loads(line)
        except ValueError:
            continue
        if j.get('reason') != 'compiler-message':
            continue
        m = j['message']
        if m.get('level') != 'error':
            continue
        code = (m.get('code') or {}).get('code')
        spans = [s for s in m.get('spans', []) if s.get('is_primary')] or m.get('spans', [])
        locs = []
        for s in spans:
            # follow macro expansion back to the invocation site in our file
            e = s
            while e.get('expansion') and not e['file_name'].startswith('src/'):
                e = e['expansion']['span']
            locs.append((e['file_name'], e['line_start']))
            if s.get('expansion'):
                e2 = s
                while e2.get('expansion'):
                    e2 = e2['expansion']['span']
                locs.append((e2['file_name'], e2['line_start']))
        diags.append({'code': code, 'msg': m.get('message', '')[:300], 'locs': locs})
    return rc, diags, se[-3000:]


def write_lib_crate(crate, modules, extra_root='', features=False, no_std=False):
    if os.path.exists(crate):
        shutil.rmtree(crate)
    os.makedirs(os.path.join(crate, 'src'))
    feats = ', features = ["dynamic"]' if features else ''
    with open(os.path.join(crate, 'Cargo.toml'), 'w') as f:
        f.write('[package]\nname = "sm-k3"\nversion = "0.0.0"\nedition = "2024"\n\n[workspace]\n\n[lib]\npath = "src/lib.rs"\n\n'
                '[dependencies]\nstate-machines = { path = "/repo/state-machines"%s }\n\n[profile.dev]\ndebug = false\nincremental = false\n' % feats)
    shutil.copy(os.path.join(stages.REPO, 'Cargo.lock'), os.path.join(crate, 'Cargo.lock'))
    root = ('#![no_std]\n' if no_std else '') + '#![allow(dead_code, unused)]\n' + extra_root
    for (nm, src) in modules:
        with open(os.path.join(crate, 'src', nm + '.rs'), 'w') as f:
            f.write(src)
        root += 'pub mod %s;\n' % nm
    with open(os.path.join(crate, 'src', 'lib.rs'), 'w') as f:
        f.write(root)


def model_tables(ctx, defs, idxs, feat, tag):
    shards = [[] for _ in range(16)]
    for n, i in enumerate(idxs):
        shards[n % 16].append('Eval vm_compute in ("L", %d, 0, k3_table_of %s %s).' % (i, 'true' if feat else 'false', smgen.coq_defn(defs[i])))
    out = coqrun.run_shards(os.path.join(ctx.dir, 'coq_k3_' + tag), ['\n'.join(s) for s in shards if s])
    L = coqrun.parse_L(out)
    return {i: parse_table(L[(i, 0)]) for i in idxs if (i, 0) in L}


# ---------------------------------------------------------------- batch A: method / accessor / SubstateOf / Send matrix

# states and superstates spelled as raw identifiers (keywords): sources, targets, superstate sources and targets, nested
RAW_DEFS = [
    [('name', 'M'), ('initial', 'idle'),
     ('states', [('leaf', 'idle', None),
                 ('super', 'r#mod', None, [('leaf', 'r#loop', 'D1'), ('leaf', 'review', None),
                                           ('super', 'r#static', None, [('initial', 'r#final'), ('leaf', 'cold', None), ('leaf', 'r#final', None)])]),
                 ('leaf', 'r#match', 'D0')]),
     ('events', [('go', [('transition', [('from', ['idle']), ('to', 'r#mod')])]),
                 ('hit', [('transition', [('from', ['r#loop']), ('to', 'r#match')])]),
                 ('retract', [('transition', [('from', ['r#mod']), ('to', 'idle')])]),
                 ('freeze', [('transition', [('from', ['review', 'r#match']), ('to', 'r#static')])]),
                 ('trash', [('transition', [('from', ['idle', 'r#static']), ('to', 'r#loop')])])])],
    [('name', 'M'), ('initial', 'r#loop'), ('context', 'Ctx'), ('async', True),
     ('states', [('leaf', 'r#loop', None), ('leaf', 'r#match', None), ('leaf', 'Done', None)]),
     ('events', [('hit', [('transition', [('from', ['r#loop']), ('to', 'r#match')])]),
                 ('resume', [('transition', [('from', ['r#match']), ('to', 'r#loop')])]),
                 ('finish', [('transition', [('from', ['r#loop', 'r#match']), ('to', 'Done')])])])],
]

def k3_matrix(ctx):
    b = ctx.stage('k2build', lambda: k2run.k2_build(ctx))
    if not b['ok']:
        return {'ok': False, 'why': b['why']}
    defs = list(b['defs']) + RAW_DEFS        # raw-identifier names are probed here only (the K2 driver and the K1 templates
    idxs = list(b['live']) + list(range(len(b['defs']), len(b['defs']) + len(RAW_DEFS)))    # are written for plain identifiers)
    tables = model_tables(ctx, defs, idxs, False, 'matrix')
    mods = []
    exps = {}
    for i in idxs:
        if i not in tables:
            continue
        src, exp = probe_module(i, defs[i], tables[i], {'methods', 'substate', 'send'})
        mods.append(('p%d' % i, src))
        exps['src/p%d.rs' % i] = exp
    mods.append(('sendctl', SEND_CONTROL))
    exps['src/sendctl.rs'] = {7: ('non-Send context control', 'E0277')}
    crate = os.path.join(ctx.dir, 'k3a')
    write_lib_crate(crate, mods, extra_root=ROOT_TYPES)
    rc, diags, se = cargo_check(crate)
    # observed error lines per file
    seen = {}
    stray = []
    for dg in diags:
        hit = False
        for (fn, ln) in dg['locs']:
            if fn in exps:
                seen.setdefault(fn, {}).setdefault(ln, []).append(dg['code'])
                hit = True
                break
        if not hit:
            stray.append(dg)
    problems = []
    npos = nneg = 0
    for fn, exp in exps.items():
        got = seen.get(fn, {})
        for ln, (what, code) in exp.items():
            nneg += 1
            if ln not in got:
                problems.append({'file': fn, 'line': ln, 'kind': 'negative probe compiled', 'probe': what})
            elif code not in got[ln]:
                problems.append({'file': fn, 'line': ln, 'kind': 'negative probe failed with %s, expected %s' % (got[ln], code), 'probe': what})
        for ln, codes in got.items():
            if ln not in exp:
                problems.append({'file': fn, 'line': ln, 'kind': 'unexpected compile error %s' % codes, 'probe': _line(crate, fn, ln)})
    for fn in exps:
        with open(os.path.join(crate, fn)) as f:
            npos += sum(1 for l in f if l.startswith(('fn pos_', 'async fn pos_', 'fn send_')))
    for p in problems:
        m = re.match(r'src/p(\d+)\.rs', p['file'])
        if m:
            p['dsl'] = smgen.dsl_defn(defs[int(m.group(1))])
            p['defn'] = defs[int(m.group(1))]
            p['machine'] = int(m.group(1))
    sample = None
    if mods:
        sample = {'file': mods[0][0], 'probes': [l for l in mods[0][1].splitlines() if l.startswith(('fn pos_', 'fn neg_', 'async fn pos_'))][:6]}
    return {'ok': True, 'machines': len(mods) - 1, 'positive': npos, 'negative': nneg, 'problems': problems,
            'stray': stray[:5], 'rc': rc, 'stderr': se if (rc != 0 and not diags) else '', 'sample': sample}


def _line(crate, fn, ln):
    try:
        with open(os.path.join(crate, fn)) as f:
            return f.read().splitlines()[ln - 1][:200]
    except Exception:
        return '?'


KIND_FILTER = {
    'methods': lambda p: any(k in p['probe'] for k in ('method ', 'new on', 'accessor ', 'pos_', 'neg_new', 'neg_acc')) and 'sub' not in p['probe'].split('(')[0][:8],
    'substate': lambda p: 'SubstateOf' in p['probe'] or 'sub_' in p['probe'] or 'mk_' in p['probe'],
    'send': lambda p: 'send' in p['probe'].lower() or 'Send' in p['probe'],
}


def run(ctx, prop, what, rep):
    if what in ('methods', 'substate', 'send'):
        r = ctx.stage('k3_matrix', lambda: k3_matrix(ctx))
        if not r['ok']:
            rep.violate('tie', 'K3 could not run: ' + r['why'], {}, no_input=True)
            return
        if r['stderr']:
            rep.violate('tie', 'K3 probe crate: cargo failed without diagnostics', {'stderr': r['stderr']}, no_input=True)
        rep.cov['k3_' + what] = {'machines': r['machines'], 'positive_probes': r['positive'], 'negative_probes': r['negative'],
                                 'problems_total': len(r['problems'])}
        rep.evals += r['positive'] + r['negative']
        rep.distinct += r['machines']
        if r['sample']:
            rep.samples.append({'k3_probe_sample': r['sample']})
        flt = KIND_FILTER[what]
        n = 0
        for p in r['problems']:
            if not flt(p):
                continue
            n += 1
            if n > 6:
                break
            rep.violate('k3', 'rustc disagrees with the model: %s: %s' % (p['kind'], p['probe']),
                        {'kind': 'k3', 'dsl': p.get('dsl'), 'defn': p.get('defn'), 'probe': p['probe'], 'what': p['kind'], 'file': p['file'], 'line': p['line']})
        for dg in r['stray']:
            rep.note('diagnostic outside probe files: %s %s' % (dg['code'], dg['msg'][:120]))
        return
    import ties_k3b
    ties_k3b.run(ctx, prop, what, rep)


def setup(ctx):
    pass
