"""K3 batches: compile-fail (C13), compile corpus in both dynamic configurations (C14), #![no_std] footprint (C17),
adversarial renaming (C18)."""
import os
import random
import re
import shutil

import coqrun
import corpus
import k2
import k2run
import smgen
import stages
import ties
import ties_k3
from smgen import to_snake, to_pascal


def strip_hooks(d):
    out = []
    for en in d:
        if en[0] == 'events':
            evs = []
            for (n, es) in en[1]:
                body = []
                for e in es:
                    if e[0] == 'list':
                        continue
                    if e[0] == 'transition':
                        body.append(('transition', [t for t in e[1] if t[0] != 'list']))
                    else:
                        body.append(e)
                evs.append((n, body))
            out.append(('events', evs))
        else:
            out.append(en)
    return out


def invocation_module(d, hooks=True):
    L = ['#![allow(non_camel_case_types, non_snake_case, dead_code, unused_variables, unused_mut, unused_imports, private_interfaces)]',
         'use crate::{Ctx, P, D0, D1, D2, D3};', 'use state_machines::state_machine;']
    L += ('state_machine! {\n    %s\n}' % smgen.dsl_defn(d)).split('\n')
    if hooks:
        try:
            L += ties_k3.plain_hooks(d)
        except Exception:
            pass
    return '\n'.join(L) + '\n'


# ---------------------------------------------------------------- C13: rejected definitions really fail to compile

def k3_reject(ctx):
    v = ctx.stage('k1_verdict', lambda: ties.k1_verdict(ctx))
    if not v['ok']:
        return {'ok': False, 'why': v['why']}
    cases = ties.k1_verdict_corpus(ctx)
    rnd = random.Random(ctx.seed + 99)
    by = {}
    for row in v['rows']:
        if row['label'] == 'wf':
            continue
        # compile-fail batches are chosen by what the model says about the definition: front-end rejections
        # must produce the macro's diagnostic, model code 100 (colliding items) must be rejected by rustc
        if row['label'].startswith('ambiguous') and row['model'] != 100:
            continue
        if not row['label'].startswith('ambiguous') and row['model'] in (0, 100, None):
            continue
        by.setdefault(row['label'], []).append(row['i'])
    per = 6 if ctx.tier == 'quick' else 40
    front, amb = [], []
    for lab, idxs in sorted(by.items()):
        rnd.shuffle(idxs)
        for i in idxs[:per]:
            (amb if lab.startswith('ambiguous') else front).append(i)
    res = {'ok': True, 'problems': [], 'n_front': len(front), 'n_amb': len(amb), 'labels': sorted(by)}
    # batch C: the macro's own diagnostics
    mods = [('r%d' % i, invocation_module(cases[i][1], hooks=False)) for i in front]
    crate = os.path.join(ctx.dir, 'k3c')
    ties_k3.write_lib_crate(crate, mods, extra_root=ties_k3.ROOT_TYPES)
    rc, diags, se = ties_k3.cargo_check(crate)
    files = set()
    for dg in diags:
        for (fn, ln) in dg['locs']:
            files.add(fn)
    for i in front:
        if 'src/r%d.rs' % i not in files:
            res['problems'].append({'rule': cases[i][0], 'dsl': smgen.dsl_defn(cases[i][1]),
                                    'what': 'rule-violating definition produced no compile error'})
    # batch D: ambiguity is rejected by rustc's duplicate-definition check
    mods = [('a%d' % i, invocation_module(strip_hooks(cases[i][1]), hooks=False)) for i in amb]
    crate = os.path.join(ctx.dir, 'k3d')
    ties_k3.write_lib_crate(crate, mods, extra_root=ties_k3.ROOT_TYPES)
    rc, diags, se = ties_k3.cargo_check(crate)
    files = {}
    for dg in diags:
        for (fn, ln) in dg['locs']:
            files.setdefault(fn, set()).add(dg['code'])
    for i in amb:
        codes = files.get('src/a%d.rs' % i, set())
        if not (codes & {'E0592', 'E0428', 'E0034', 'E0119'}):
            res['problems'].append({'rule': cases[i][0], 'dsl': smgen.dsl_defn(strip_hooks(cases[i][1])),
                                    'what': 'ambiguous definition compiles (rustc codes seen: %s)' % sorted(c for c in codes if c)})
    res['sample'] = smgen.dsl_defn(cases[front[0]][1]) if front else None
    return res


# ---------------------------------------------------------------- C14: the compile corpus in the feature = dynamic configuration

def k3_feature(ctx):
    rnd = random.Random(ctx.seed * 13 + 1)
    defs = []
    n = 24 if ctx.tier == 'quick' else 200
    for i in range(n):
        sh = smgen.Shape(async_=(i % 2 == 0), dynamic=False, concrete=(i % 3 == 0), depth=i % 4,
                         nleaves=rnd.randint(2, 5), nevents=rnd.randint(1, 3), data=rnd.choice(['none', 'some', 'all']),
                         hooks=rnd.choice([0, 1, 2, 3]), payload=rnd.choice(['none', 'mixed', 'all']))
        defs.append(smgen.gen_wellformed(rnd, sh, idx=-1))      # idx < 0: the machine's name comes from NAME_POOL
    mods = []
    for i, d in enumerate(defs):
        name = smgen.get(d, 'name')
        concrete = smgen.get(d, 'context') is not None
        DM = ('Dynamic%s' % name) if concrete else ('Dynamic%s<Ctx>' % name)
        src = invocation_module(d)
        src += 'fn dyn_exists(d: &%s) -> &\'static str { d.current_state() }\n' % DM
        src += 'fn dyn_new() -> %s { <%s>::new(Ctx(1)) }\n' % (DM, DM)
        mods.append(('f%d' % i, src))
    crate = os.path.join(ctx.dir, 'k3f')
    ties_k3.write_lib_crate(crate, mods, extra_root=ties_k3.ROOT_TYPES, features=True)
    rc, diags, se = ties_k3.cargo_check(crate, target='target-k3f')
    problems = []
    bad = {}
    for dg in diags:
        for (fn, ln) in dg['locs']:
            m = re.match(r'src/f(\d+)\.rs', fn)
            if m:
                bad.setdefault(int(m.group(1)), []).append('%s %s' % (dg['code'], dg['msg'][:150]))
                break
    for i, msgs in sorted(bad.items()):
        problems.append({'dsl': smgen.dsl_defn(defs[i]), 'what': 'does not compile with the crate feature `dynamic`: ' + msgs[0]})
    if rc != 0 and not diags:
        problems.append({'dsl': None, 'what': 'cargo failed: ' + se[-500:]})
    return {'ok': True, 'n': len(defs), 'problems': problems, 'sample': smgen.dsl_defn(defs[0])}



# ---------------------------------------------------------------- C14: context, data and payload types that are not one identifier

# (context type or None, data type of A, data type of B, payload type, a value of the payload type, a value of B's data type)
TYPE_CASES = [
    (None, 'Vec<u8>', '(u8, u16)', '[u8; 4]', '[1u8; 4]', '(1u8, 2u16)'),
    ('::std::collections::HashMap<u8, Vec<u8>>', 'Option<Box<u32>>', "&'static str", '::std::string::String', '::std::string::String::new()', '"x"'),
    ('(u8, u16)', 'crate::D0', '[Option<u8>; 2]', "Vec<(u8, &'static str)>", 'Vec::new()', '[None, Some(1u8)]'),
    (None, '::core::option::Option<(u8, [u16; 2])>', 'Box<dyn Fn(u8) -> u8 + Send + Sync>', '&\'static [u8]', '&[1u8, 2u8]', None),
    # a borrowed context that implements Default, unit data (a slot used as a presence marker), a borrowed payload
    ("&'static str", '()', "&'static [u8]", "&'static str", '"p"', '&[1u8]'),
    # a unit payload is still a payload: the method takes it, the variant carries it, the hooks are handed a reference to it
    (None, 'u8', 'u16', '()', '()', '2u16'),
    # a unit context spelled out as the concrete context type
    ('()', 'u8', 'u16', 'u32', '3u32', '2u16'),
]


def types_module(i, case, is_async):
    cty, da, db, pl, plv, dbv = case
    name = 'T%d' % i
    box_default = db.startswith('Box<dyn')
    L = ['#![allow(non_camel_case_types, non_snake_case, dead_code, unused_variables, unused_mut, unused_imports, private_interfaces)]',
         'use state_machines::state_machine;', 'use state_machines::core;   // `core` is the facade\'s module here: generated paths must be absolute']
    dsl = 'name: %s, initial: A,%s%s dynamic: true, states: [A(%s), B%s, K], events { go { payload: %s, guards: [ok], transition: { from: A, to: B } } ' \
          'back { before: [note], transition: { from: [B, K], to: A } } }' % (
              name, (' context: %s,' % cty) if cty else '', ' async: true,' if is_async else '', da,
              '' if box_default else '(%s)' % db, pl)
    L.append('state_machine! {\n    %s\n}' % dsl)
    af = 'async fn' if is_async else 'fn'
    if cty:
        L.append('impl<S> %s<S> { %s ok(&self, _c: &%s, _p: &%s) -> bool { true } %s note(&self) {} }' % (name, af, cty, pl, af))
        MT, DM, ctxv = (lambda st: '%s<%s>' % (name, st)), 'Dynamic%s' % name, '<%s as Default>::default()' % cty
    else:
        L.append('impl<C, S> %s<C, S> { %s ok(&self, _c: &C, _p: &%s) -> bool { true } %s note(&self) {} }' % (name, af, pl, af))
        MT, DM, ctxv = (lambda st: '%s<u8, %s>' % (name, st)), 'Dynamic%s<u8>' % name, '7u8'
    aw = '.await' if is_async else ''
    fk = 'async fn' if is_async else 'fn'
    L.append('fn p_new() -> %s { <%s>::new(%s) }' % (MT('A'), MT('A'), ctxv))
    L.append('fn p_a(m: &%s) -> &%s { m.a_data() }' % (MT('A'), da))
    L.append('fn p_am(m: &mut %s) -> &mut %s { m.a_data_mut() }' % (MT('A'), da))
    if not box_default:
        L.append('fn p_b(m: &%s) -> &%s { m.b_data() }' % (MT('B'), db))
        L.append('fn p_sb(m: &%s) -> Option<&%s> { m.state_data_b() }' % (MT('A'), db))
    L.append('%s p_go(m: %s) -> bool { m.go(%s)%s.is_ok() }' % (fk, MT('A'), plv, aw))
    L.append('%s p_back(m: %s) -> %s { match m.back()%s { Ok(n) => n, Err((_o, _e)) => panic!() } }' % (fk, MT('K'), MT('A'), aw))
    L.append('%s p_dyn(d: &mut %s) { let _ = d.handle(%sEvent::Go(%s))%s; let _: Option<&%s> = d.a_data(); let _: &str = d.current_state(); }'
             % (fk, DM, name, plv, aw, da))
    if dbv and not box_default:
        L.append('fn p_set(d: &mut %s) { let _ = d.set_b_data(%s); }' % (DM, dbv))
    L.append('fn p_conv(m: %s) -> Result<%s, %s> { m.into_dynamic().into_a() }' % (MT('A'), MT('A'), DM))
    L.append('fn p_presence(m: &%s) -> bool { m.state_data_a().is_some() }' % MT('B' if not box_default else 'K'))
    if cty:
        L.append('fn p_default() -> %s { <%s as Default>::default() }' % (DM, DM))
    return ('ty%d%s' % (i, 'a' if is_async else 's'), '\n'.join(L) + '\n', dsl)


WRAPPED_MOD = '''#![allow(non_camel_case_types, non_snake_case, dead_code, unused_variables, unused_mut, unused_imports, private_interfaces)]
use state_machines::state_machine;
#[derive(Debug, Default)] pub struct Pl(pub u8);
macro_rules! stamp {
    ($name:ident, $ev:ident, $guard:ident, $cb:ident, $from:ident, $to:ident, $is_async:tt) => {
        state_machine! {
            name: $name, initial: $from, async: $is_async, dynamic: true,
            states: [$from, $to(Pl)],
            events { $ev { payload: Pl, guards: [$guard], before: [$cb], after: [$cb], around: [wrap], transition: { from: $from, to: $to, unless: [never] } } }
        }
    };
}
pub mod s {
    use super::*;
    stamp!(Ws, launch, ready, note, Pad, Sky, false);
    impl<C, S> Ws<C, S> {
        fn ready(&self, _c: &C, _p: &Pl) -> bool { true }
        fn never(&self, _c: &C, _p: &Pl) -> bool { false }
        fn note(&self, _p: &Pl) {}
        fn wrap(&self, _s: state_machines::core::AroundStage) -> state_machines::core::AroundOutcome<Pad> { state_machines::core::AroundOutcome::Proceed }
    }
    pub fn drive(m: Ws<u8, Pad>) -> bool { m.launch(Pl(1)).is_ok() }
    pub fn dynamic(d: &mut DynamicWs<u8>) -> bool { d.handle(WsEvent::Launch(Pl(2))).is_ok() }
}
pub mod a {
    use super::*;
    stamp!(Wa, launch, ready, note, Pad, Sky, true);
    impl<C, S> Wa<C, S> {
        async fn ready(&self, _c: &C, _p: &Pl) -> bool { true }
        async fn never(&self, _c: &C, _p: &Pl) -> bool { false }
        async fn note(&self, _p: &Pl) {}
        async fn wrap(&self, _s: state_machines::core::AroundStage) -> state_machines::core::AroundOutcome<Pad> { state_machines::core::AroundOutcome::Proceed }
    }
    pub async fn drive(m: Wa<u8, Pad>) -> bool { m.launch(Pl(1)).await.is_ok() }
    pub async fn dynamic(d: &mut DynamicWa<u8>) -> bool { d.handle(WaEvent::Launch(Pl(2))).await.is_ok() }
}
'''


PRELUDE_MOD = '''#![allow(non_camel_case_types, non_snake_case, dead_code, unused_variables, unused_mut, unused_imports, private_interfaces)]
use state_machines::state_machine;
// states called like the prelude's Option constructors (they compile on the pinned tree: the expansion spells out ::core paths)
state_machine! { name: Link, initial: None, dynamic: true, states: [None, Some(u32), Idle],
    events { up { guards: [ok], transition: { from: None, to: Some } } down { transition: { from: [Some, Idle], to: None } } park { transition: { from: Some, to: Idle } } } }
impl<C, S> Link<C, S> { fn ok(&self, _c: &C) -> bool { true } }
pub fn drive() -> (bool, bool, &'static str) {
    let mut d = DynamicLink::new(1u8);
    let a = d.some_data().is_none();
    let _ = d.handle(LinkEvent::Up);
    let b = d.set_some_data(5).is_ok() && d.some_data_mut().is_some();
    (a, b, d.current_state())
}
pub fn typed(m: Link<u8, None>) -> bool { match m.up() { Ok(n) => *n.some_data() == 0 && n.state_data_some().is_some(), Err(_) => false } }
'''


def k3_types(ctx):
    mods = [('tywrapped', WRAPPED_MOD), ('typrelude', PRELUDE_MOD)]
    dsls = {'tywrapped': 'the definition stamped out by macro_rules! with every identifier passed in (module tywrapped)',
            'typrelude': 'name: Link, initial: None, dynamic: true, states: [None, Some(u32), Idle], ... (module typrelude)'}
    for i, case in enumerate(TYPE_CASES):
        for is_async in (False, True):
            nm, src, dsl = types_module(i, case, is_async)
            mods.append((nm, src))
            dsls[nm] = dsl
    crate = os.path.join(ctx.dir, 'k3t')
    ties_k3.write_lib_crate(crate, mods, extra_root=ties_k3.ROOT_TYPES)
    rc, diags, se = ties_k3.cargo_check(crate, target='target-k3f')
    problems, bad = [], {}
    for dg in diags:
        for (fn, ln) in dg['locs']:
            m = re.match(r'src/(ty\d+[as]|tywrapped|typrelude)\.rs', fn)
            if m:
                bad.setdefault(m.group(1), []).append('%s %s' % (dg['code'], dg['msg'][:200]))
                break
    for nm, msgs in sorted(bad.items()):
        problems.append({'dsl': dsls[nm], 'what': 'definition with compound context/data/payload types does not compile as documented: ' + msgs[0]})
    if rc != 0 and not diags:
        problems.append({'dsl': None, 'what': 'cargo failed: ' + se[-500:]})
    return {'ok': True, 'n': len(mods), 'problems': problems, 'sample': dsls[mods[2][0]]}

# ---------------------------------------------------------------- C17: #![no_std], zero-sized markers, machine = context

NOSTD_ROOT = '''
#[derive(Debug)] pub struct Ctx(pub u32);
impl Default for Ctx { fn default() -> Self { Ctx(0) } }
#[derive(Debug)] pub struct P(pub u32);
#[derive(Debug, Default, PartialEq)] pub struct D0(pub u64);
#[derive(Debug, Default, PartialEq)] pub struct D1(pub u64);
#[derive(Debug, Default, PartialEq)] pub struct D2(pub u64);
#[derive(Debug, Default, PartialEq)] pub struct D3(pub u64);
pub fn ms<T: ::state_machines::MachineState>() {}
pub fn marker_bounds<T: Copy + Eq + core::fmt::Debug + Send + Sync + 'static>() {}
'''


PANIC_PROBE_DSL = 'name: M, initial: A, dynamic: true, states: [A(u32), B], events { go { transition: { from: A, to: B } } }'
PANIC_PROBE_ROOT = '''
#[panic_handler]
fn on_panic(_: &core::panic::PanicInfo) -> ! { loop {} }
'''
PANIC_PROBE_MOD = '''#![allow(dead_code, unused)]
use state_machines::state_machine;
state_machine! {
    %s
}
pub fn drive() -> &'static str { let mut d = DynamicM::new(1u8); let _ = d.handle(MEvent::Go); d.current_state() }
pub mod names { pub const CHECK: &str = "check"; }
pub fn aborts() -> [state_machines::core::AroundOutcome<A>; 4] {
    use state_machines::core::{TransitionContext, TransitionErrorKind};
    let c = || TransitionContext::new(A, A, "go");
    [state_machines::abort_guard!(c(), some_guard), state_machines::abort_guard!(c(), "literal"),
     state_machines::abort_guard!(c(), names::CHECK), state_machines::abort_with!(c(), TransitionErrorKind::ActionFailed { action: "act" })]
}
''' % PANIC_PROBE_DSL


# typestate only (the event enum of the dynamic wrapper cannot name `impl Trait`): the payload is monomorphised, nothing is boxed
IMPL_TRAIT_MOD = '''
pub mod it {
    use state_machines::state_machine;
    state_machine! { name: Gate, initial: Shut, states: [Shut, Open],
        events { open { payload: impl Fn(u8) -> bool, guards: [allow], transition: { from: Shut, to: Open } } } }
    impl<C, S> Gate<C, S> { fn allow(&self, _c: &C, p: &impl Fn(u8) -> bool) -> bool { p(1) } }
    pub fn drive(g: Gate<(), Shut>) -> bool { g.open(|x| x > 0).is_ok() }
}
'''


def k3_nostd(ctx):
    b = ctx.stage('k2build', lambda: k2run.k2_build(ctx))
    if not b['ok']:
        return {'ok': False, 'why': b['why']}
    mods = []
    n_asserts = 0
    for i in b['live']:
        d = b['defs'][i]
        name = smgen.get(d, 'name')
        concrete = smgen.get(d, 'context') is not None
        forest = smgen.get(d, 'states')
        leaves = smgen.leaves_of(forest)
        supers = smgen.supers_of(forest)
        specs = smgen.data_specs(forest)
        L = ['#![allow(non_camel_case_types, non_snake_case, dead_code, unused_variables, unused_mut, unused_imports, private_interfaces)]',
             'use crate::{Ctx, P, D0, D1, D2, D3, ms, marker_bounds};', 'use state_machines::state_machine;']
        L += ('state_machine! {\n    %s\n}' % smgen.dsl_defn(d)).split('\n')
        L += ties_k3.plain_hooks(d)
        for mk in leaves + supers:
            L.append('const _: () = assert!(core::mem::size_of::<%s>() == 0);' % mk)
            L.append('fn mk_%s() { ms::<%s>(); marker_bounds::<%s>(); let _e: ::state_machines::core::TransitionError<%s> = ::state_machines::core::TransitionError::invalid_transition(%s, "e"); }' % (mk, mk, mk, mk, mk))
            n_asserts += 2
        if not specs:
            for s in leaves[:2]:
                if concrete:
                    L.append('const _: () = assert!(core::mem::size_of::<%s<%s>>() == core::mem::size_of::<Ctx>());' % (name, s))
                    n_asserts += 1
                else:
                    for cty in ['()', 'u8', '[u8; 3]', 'u64', '[u64; 3]']:
                        L.append('const _: () = assert!(core::mem::size_of::<%s<%s, %s>>() == core::mem::size_of::<%s>());' % (name, cty, s, cty))
                        n_asserts += 1
        mods.append(('n%d' % i, '\n'.join(L) + '\n'))
    crate = os.path.join(ctx.dir, 'k3n')
    ties_k3.write_lib_crate(crate, mods, extra_root=NOSTD_ROOT, no_std=True)
    rc, diags, se = ties_k3.cargo_check(crate, target='target-k3n', build=True)
    problems = []
    bad = {}
    for dg in diags:
        for (fn, ln) in dg['locs']:
            m = re.match(r'src/n(\d+)\.rs', fn)
            if m:
                bad.setdefault(int(m.group(1)), []).append((ln, '%s %s' % (dg['code'], dg['msg'][:200])))
                break
        else:
            problems.append({'dsl': None, 'what': 'no_std build error outside machine modules: %s %s' % (dg['code'], dg['msg'][:200])})
    for i, msgs in sorted(bad.items()):
        ln, msg = msgs[0]
        problems.append({'dsl': smgen.dsl_defn(b['defs'][i]), 'what': 'no_std / size / marker probe failed: %s | %s'
                         % (msg, ties_k3._line(crate, 'src/n%d.rs' % i, ln))})
    if rc != 0 and not diags:
        problems.append({'dsl': None, 'what': 'cargo failed: ' + se[-500:]})
    # the facade and the generated code must stay free of std in every feature configuration: a #![no_std] crate that
    # brings its own #[panic_handler] cannot be built once std is anywhere in its dependency graph (E0152)
    for feat in (False, True):
        pc = os.path.join(ctx.dir, 'k3np%d' % feat)
        ties_k3.write_lib_crate(pc, [('m0', PANIC_PROBE_MOD + ('' if feat else IMPL_TRAIT_MOD))], extra_root=PANIC_PROBE_ROOT, features=feat, no_std=True)
        rc2, diags2, se2 = ties_k3.cargo_check(pc, target='target-k3n', build=True)
        n_asserts += 1
        if rc2 != 0:
            msg = ('%s %s' % (diags2[0]['code'], diags2[0]['msg'][:300])) if diags2 else se2[-400:]
            problems.append({'dsl': PANIC_PROBE_DSL, 'what': 'a #![no_std] crate with its own panic handler does not build against the '
                             'library (crate feature dynamic=%s): %s' % (feat, msg)})
    return {'ok': True, 'n': len(mods), 'asserts': n_asserts, 'problems': problems,
            'sample': mods[0][1].splitlines()[-3:] if mods else None}


# ---------------------------------------------------------------- C18: adversarial renaming

ADV_TYPES = ['a', 'b', 'e', 'A_', 'AB', 'Ab', 'C', 'S', 'T', 'Ok', 'Err', 'Some', 'None', 'Result', 'Option', 'Default', 'Debug', 'Self_', 'Box', 'Vec',
             'PhantomData', 'GuardError', 'DynamicError', 'AroundStage', 'M', 'MEvent', 'DynamicM', 'AnyMState', 'Machine',
             'State', 'Event', 'Inner', 'Ctx2', 'A1', 'X',
             # words that are keywords of the Ruby gem's DSL or of neighbouring libraries: they are ordinary identifiers here
             'any', 'all', 'same', 'nil', 'except', 'loopback', 'initial_', 'state', 'event', 'Any', 'All', 'Same', '_Parked', 'Idle_', 'Écoute', 'ÀvalOuvert']
ADV_VALUES = ['x_y', 'step_2', 'go_2_x', 'a_1', 'zz_top', 'b', 'new', 'handle', 'name', 'into_dynamic', 'current_state', 'ok', 'err', 'default', 'clone', 'inner', 'ctx',
              'payload', 'state', 'event', 'm', 'self_', 'new_machine', 'old_machine', 'machine', 'data', 'other', 'current',
              'fmt', 'eq', 'x', 'c', 's', 'a_data', 'state_data_a', 'into_a', 'set_a_data', 'callback_name',
              'journal_sync', 'check_async', '_audit', '_x', 'x_', 'is_ok', 'r#try', 'r#match', 'écoute', 'prüfen_größe']


def rename_defn(d, mapping):
    def r(x):
        return mapping.get(x, x)

    def ritem(it):
        if it[0] == 'leaf':
            return ('leaf', r(it[1]), r(it[2]) if it[2] else None)
        if it[0] == 'super':
            return ('super', r(it[1]), r(it[2]) if it[2] else None, [ritem(c) for c in it[3]])
        if it[0] == 'initial':
            return ('initial', r(it[1]))
        return it
    out = []
    for en in d:
        if en[0] in ('name', 'initial'):
            out.append((en[0], r(en[1])))
        elif en[0] == 'states':
            out.append(('states', [ritem(i) for i in en[1]]))
        elif en[0] == 'events':
            evs = []
            for (n, es) in en[1]:
                body = []
                for e in es:
                    if e[0] == 'list':
                        body.append(('list', e[1], [r(x) for x in e[2]]))
                    elif e[0] == 'transition':
                        body.append(('transition', [('from', [r(x) for x in t[1]]) if t[0] == 'from' else
                                                    (('to', r(t[1])) if t[0] == 'to' else
                                                     (('list', t[1], [r(x) for x in t[2]]) if t[0] == 'list' else t)) for t in e[1]]))
                    else:
                        body.append(e)
                evs.append((r(n), body))
            out.append(('events', evs))
        else:
            out.append(en)
    return out


def rename_bases():
    b1 = [('name', 'M'), ('initial', 'A'), ('dynamic', True),
          ('states', [('leaf', 'A', 'D0'), ('super', 'G', None, [('leaf', 'B', None), ('leaf', 'E', 'D1'), ('initial', 'E')])]),
          ('events', [('go', [('list', 'guards', ['g1', 'g2']), ('list', 'before', ['b1']), ('list', 'around', ['w1']),
                              ('transition', [('from', ['A']), ('to', 'G'), ('list', 'unless', ['u1', 'u2']), ('list', 'guards', ['g3'])])]),
                      ('back', [('list', 'after', ['a1']), ('transition', [('from', ['G']), ('to', 'A')])])])]
    b2 = [('name', 'M'), ('initial', 'A'), ('context', 'Ctx'), ('async', True), ('dynamic', True),
          ('states', [('leaf', 'A', None), ('leaf', 'B', 'D0')]),
          ('events', [('go', [('payload', 'P'), ('list', 'guards', ['g1']), ('list', 'before', ['b1']), ('list', 'after', ['a1']),
                              ('list', 'around', ['w1']),
                              ('transition', [('from', ['A', 'B']), ('to', 'B'), ('list', 'unless', ['u1'])])])])]
    b3 = [('name', 'M'), ('initial', 'A'),
          ('states', [('leaf', 'A', 'D0'), ('leaf', 'B', None), ('leaf', 'E', 'D1')]),
          ('events', [('go', [('list', 'guards', ['g1']), ('transition', [('from', ['A']), ('to', 'B')])]),
                      ('on', [('transition', [('from', ['B']), ('to', 'E')])]),
                      ('back', [('transition', [('from', ['B', 'E']), ('to', 'A')])])])]
    return [b1, b2, b3]


def rename_variants(ctx):
    out = []
    for bi, base in enumerate(rename_bases()):
        roles = {'state': ['A', 'B'], 'super': ['G'] if bi == 0 else [], 'event': ['go'], 'hook': ['g1', 'g3', 'u2', 'w1', 'b1', 'a1'] if bi == 0 else (['g1', 'b1', 'a1', 'u1', 'w1'] if bi == 1 else ['g1']),
                 'name': ['M']}
        for role, olds in roles.items():
            pool = ADV_TYPES if role in ('state', 'super', 'name') else ADV_VALUES
            if ctx.tier == 'quick':
                rnd = random.Random('%d|%s|%d' % (ctx.seed, role, bi))
                must = [x for x in pool if x in ('a', 'b', 'e', 'AB', 'Ab', 'C', 'S', 'T', 'Ok', 'Err', 'Some', 'None', 'Result', 'Option', 'Default', 'new', 'handle', 'ctx', 'inner', 'into_dynamic', 'any', 'all', 'Same', '_Parked', 'journal_sync', '_audit', 'r#try',
                                                 'x_y', 'step_2', 'go_2_x', 'a_1', 'zz_top', 'b')]
                rest = [x for x in pool if x not in must]
                pool = must + rnd.sample(rest, min(6, len(rest)))
            for old in (olds if role == 'hook' else olds[:1]) if ctx.tier == 'quick' else olds:
                for new in pool:
                    if new == old:
                        continue
                    used = set(smgen.leaves_of(smgen.get(base, 'states'))) | set(smgen.supers_of(smgen.get(base, 'states'))) | {'M'}
                    if role in ('state', 'super', 'name') and new in used:
                        continue
                    out.append({'base': bi, 'role': role, 'old': old, 'new': new, 'defn': rename_defn(base, {old: new})})
    return out


def k3_rename(ctx):
    variants = rename_variants(ctx)
    defs = [v['defn'] for v in variants] + rename_bases()
    exp = ctx.stage('expander', lambda: stages.expander_build(ctx.dir))
    skels = stages.expand(exp['bins'][False], [smgen.dsl_defn(d, vary=True) for d in defs])
    live = [i for i, s in enumerate(skels) if s.get('ok') and 'items' in s]
    macro_rejected = [i for i in range(len(defs)) if i not in live]
    crate = os.path.join(ctx.dir, 'k3r')
    tgt = os.path.join(stages.CACHE, 'target-k2r')
    compile_failed = {}
    ok = False
    for attempt in range(12):
        if os.path.exists(crate):
            shutil.rmtree(crate)
        mods = []
        for i in live:
            try:
                mods.append((i, k2.rust_module(i, defs[i], skels[i])))
            except Exception as e:      # harness cannot even print a driver for it
                compile_failed[i] = ['harness: %r' % (e,)]
        live = [i for i in live if i not in compile_failed]
        k2.write_crate(crate, mods)
        shutil.copy(os.path.join(stages.REPO, 'Cargo.lock'), os.path.join(crate, 'Cargo.lock'))
        rc, so, se = stages.sh(['cargo', 'build', '--offline'], cwd=crate, env=dict(stages.ENV, CARGO_TARGET_DIR=tgt), timeout=3000)
        if rc == 0:
            ok = True
            break
        bad = set(int(m) for m in re.findall(r'--> src/m(\d+)\.rs', se))
        if not bad:
            return {'ok': False, 'why': 'rename crate does not build and no module is to blame', 'log': se[-3000:]}
        for bi in bad:
            compile_failed[bi] = re.findall(r'(error[^\n]*)\n\s*--> src/m%d\.rs' % bi, se)[:2]
        live = [i for i in live if i not in bad]
    if not ok:
        return {'ok': False, 'why': 'rename crate did not converge'}
    binp = os.path.join(ctx.dir, 'k3r_bin')
    shutil.copy(os.path.join(tgt, 'debug', 'sm-k2'), binp)
    # behaviour of every variant that compiles, against the model of the *renamed* definition
    jobs = []
    for i in live:
        mi = corpus.MI(i, defs[i], skels[i])
        rnd = random.Random('%d|rename|%d' % (ctx.seed, i))
        scripts = corpus.fam_walk(mi, rnd, 'quick')[:12] + corpus.fam_guards(mi, rnd, 'quick')[:40] + corpus.fam_around(mi, rnd, 'quick')[:8]
        if scripts:
            jobs.append((i, scripts))
    real = k2.run_scripts(binp, jobs)
    shards = [[] for _ in range(16)]
    for n, (i, scripts) in enumerate(jobs):
        body = ['Definition d%d : defn := %s.' % (i, smgen.coq_defn(defs[i])),
                'Definition g%d := Eval vm_compute in (gir_of false d%d).' % (i, i)]
        for si, s in enumerate(scripts):
            body.append('Eval vm_compute in ("R", %d, %d, chk g%d [%s] [%s]).' % (
                i, si, i, '; '.join(k2.op_coq(o) for o in s), '; '.join('"%s"' % l.replace('"', "'") for l in real[(i, si)])))
        shards[n % 16].extend(body)
    out = coqrun.run_shards(os.path.join(ctx.dir, 'coq_k3r'), ['\n'.join(s) for s in shards if s])
    R = coqrun.parse_R(out)
    problems = []
    byi = dict(jobs)
    for (i, si), bad in sorted(R.items()):
        if bad:
            v = variants[i] if i < len(variants) else {'role': 'base', 'old': '-', 'new': '-'}
            problems.append({'dsl': smgen.dsl_defn(defs[i]), 'role': v['role'], 'old': v['old'], 'new': v['new'],
                             'what': 'renamed definition compiles but behaves differently from the model of the renamed definition '
                                     '(script %d, lines %s)' % (si, bad[:3]),
                             'ops': [k2.op_text(o) for o in byi[i][si]], 'observed': real[(i, si)]})
            if len(problems) > 10:
                break
    # the known capture class is probed directly (it hides behind the harness's explicit types)
    cap = capture_probe(ctx)
    return {'ok': True, 'variants': len(variants), 'macro_rejected': len(macro_rejected), 'rustc_rejected': len(compile_failed),
            'compiled_and_compared': len(jobs), 'scripts': sum(len(s) for _, s in jobs), 'problems': problems, 'capture': cap,
            'sample': smgen.dsl_defn(variants[0]['defn']) if variants else None,
            'rejected_samples': [(variants[i]['role'], variants[i]['new'], compile_failed[i][:1]) for i in sorted(compile_failed) if i < len(variants)][:8]}


CAPTURE_SRC = '''#![allow(non_camel_case_types, non_snake_case, dead_code, unused_variables)]
use state_machines::state_machine;
state_machine! { name: Mcap, initial: C, states: [C, B], events { go { transition: { from: C, to: B } } } }
// if the state identifier `C` is captured by the generated generic parameter, new(7u8) is a Mcap<u8, u8>
fn captured() { let _m: Mcap<u8, u8> = Mcap::new(7u8); }
'''


def capture_probe(ctx):
    crate = os.path.join(ctx.dir, 'k3cap')
    ties_k3.write_lib_crate(crate, [('cap', CAPTURE_SRC)], extra_root='')
    rc, diags, se = ties_k3.cargo_check(crate)
    return {'compiles_with_captured_type': rc == 0, 'diags': [d['msg'][:120] for d in diags][:3]}



# ---------------------------------------------------------------- C14: probes of the recorded known findings

KNOWN_PROBES = [
    ('pascal-collision', [('name', 'M'), ('initial', 'A'), ('dynamic', True), ('states', [('leaf', 'A', None), ('leaf', 'B', None)]),
                          ('events', [('a_1', [('transition', [('from', ['A']), ('to', 'B')])]),
                                      ('a1', [('transition', [('from', ['B']), ('to', 'A')])])])]),
    ('snake-collision', [('name', 'M'), ('initial', 'HTTPServer'), ('dynamic', True),
                         ('states', [('leaf', 'HTTPServer', None), ('leaf', 'HttpServer', None)]),
                         ('events', [('go', [('transition', [('from', ['HTTPServer']), ('to', 'HttpServer')])])])]),
    ('dynamic-no-events', [('name', 'M'), ('initial', 'A'), ('dynamic', True), ('states', [('leaf', 'A', None)])]),
    # a concrete context type the README does not ask anything of: without Default (dynamic wrapper), without Debug
    ('concrete-context-not-default', [('name', 'M'), ('initial', 'A'), ('context', 'crate::NoDefault'), ('dynamic', True),
                                      ('states', [('leaf', 'A', None), ('leaf', 'B', None)]),
                                      ('events', [('go', [('transition', [('from', ['A']), ('to', 'B')])])])]),
    ('concrete-context-not-debug', [('name', 'M'), ('initial', 'A'), ('context', 'crate::NoDebug'),
                                    ('states', [('leaf', 'A', None), ('leaf', 'B', None)]),
                                    ('events', [('go', [('transition', [('from', ['A']), ('to', 'B')])])])]),
]


def k3_known_probes(ctx):
    mods = [('k%d' % i, invocation_module(d, hooks=False)) for i, (_, d) in enumerate(KNOWN_PROBES)]
    crate = os.path.join(ctx.dir, 'k3k')
    ties_k3.write_lib_crate(crate, mods, extra_root=ties_k3.ROOT_TYPES +
                            '#[derive(Debug)] pub struct NoDefault(pub u32);\npub struct NoDebug(pub u32);\nimpl Default for NoDebug { fn default() -> Self { NoDebug(0) } }\n')
    rc, diags, se = ties_k3.cargo_check(crate)
    bad = {}
    for dg in diags:
        for (fn, ln) in dg['locs']:
            m = re.match(r'src/k(\d+)\.rs', fn)
            if m:
                bad.setdefault(int(m.group(1)), []).append('%s %s' % (dg['code'], dg['msg'][:120]))
                break
    return [{'key': KNOWN_PROBES[i][0], 'dsl': smgen.dsl_defn(KNOWN_PROBES[i][1]), 'rustc': msgs[:2]} for i, msgs in sorted(bad.items())]

# ---------------------------------------------------------------- dispatcher

def run(ctx, prop, what, rep):
    if what == 'reject':
        r = ctx.stage('k3_reject', lambda: k3_reject(ctx))
        if not r['ok']:
            rep.violate('tie', 'K3 reject batch could not run: ' + r['why'], {}, no_input=True)
            return
        rep.cov['k3_reject'] = {'front_end_rejections_compiled': r['n_front'], 'ambiguous_compiled': r['n_amb'], 'rules': r['labels'],
                                'problems': len(r['problems'])}
        rep.evals += r['n_front'] + r['n_amb']
        rep.distinct += r['n_front'] + r['n_amb']
        if r['sample']:
            rep.samples.append({'k3_reject_sample': r['sample']})
        for p in r['problems'][:6]:
            rep.violate('k3', '%s (%s)' % (p['what'], p['rule']), {'kind': 'k3-reject', 'dsl': p['dsl'], 'rule': p['rule']})
    elif what == 'compile':
        b = ctx.stage('k2build', lambda: k2run.k2_build(ctx))
        if not b['ok']:
            rep.violate('tie', 'compile corpus could not be built: ' + b['why'], {'log': b.get('log', '')[-2000:]}, no_input=True)
            return
        for i in b['rejected']:
            rep.violate('k3', 'well-formed definition rejected by the macro: %s' % b['skels'][i].get('err'),
                        {'kind': 'k3-compile', 'dsl': smgen.dsl_defn(b['defs'][i])})
        for i, msgs in sorted(b['compile_errors'].items())[:6]:
            rep.violate('k3', 'well-formed definition does not compile (or lacks a documented item name): %s' % (msgs[:1],),
                        {'kind': 'k3-compile', 'dsl': smgen.dsl_defn(b['defs'][i]), 'rustc': msgs})
        rep.cov['k3_compile'] = {'machines_compiled_with_driver': len(b['live']), 'rejected': len(b['rejected']),
                                 'compile_errors': len(b['compile_errors'])}
        rep.evals += len(b['defs'])
        rep.distinct += len(b['defs'])
        f = ctx.stage('k3_feature', lambda: k3_feature(ctx))
        rep.cov['k3_feature_dynamic'] = {'typestate_only_definitions_compiled_with_feature': f['n'], 'problems': len(f['problems'])}
        rep.evals += f['n']
        rep.distinct += f['n']
        rep.samples.append({'k3_feature_sample': f['sample']})
        for p in f['problems'][:6]:
            rep.violate('k3', p['what'], {'kind': 'k3-feature', 'dsl': p['dsl']})
        t = ctx.stage('k3_types', lambda: k3_types(ctx))
        rep.cov['k3_compound_types'] = {'definitions_compiled_with_type_probes': t['n'], 'problems': len(t['problems'])}
        rep.evals += t['n']
        rep.distinct += t['n']
        rep.samples.append({'k3_types_sample': t['sample']})
        for p in t['problems'][:6]:
            rep.violate('k3', p['what'], {'kind': 'k3-types', 'dsl': p['dsl']})
        for kp in ctx.stage('k3_known_probes', lambda: k3_known_probes(ctx)):
            rep.violate('k3', 'definition within the documented rules does not compile (%s): %s' % (kp['key'], kp['rustc'][:1]),
                        {'kind': 'k3-known-probe', 'key': kp['key'], 'dsl': kp['dsl']})
    elif what == 'types':
        t = ctx.stage('k3_types', lambda: k3_types(ctx))
        rep.cov['k3_compound_types'] = {'definitions_compiled_with_type_probes': t['n'], 'problems': len(t['problems'])}
        rep.evals += t['n']
        rep.distinct += t['n']
        rep.samples.append({'k3_types_sample': t['sample']})
        for p in t['problems'][:6]:
            rep.violate('k3', p['what'], {'kind': 'k3-types', 'dsl': p['dsl']})
    elif what == 'nostd':
        r = ctx.stage('k3_nostd', lambda: k3_nostd(ctx))
        if not r['ok']:
            rep.violate('tie', 'K3 no_std batch could not run: ' + r['why'], {}, no_input=True)
            return
        rep.cov['k3_nostd'] = {'machines': r['n'], 'const_and_bound_probes': r['asserts'], 'problems': len(r['problems'])}
        rep.evals += r['asserts']
        rep.distinct += r['n']
        rep.samples.append({'k3_nostd_sample': r['sample']})
        for p in r['problems'][:6]:
            rep.violate('k3', p['what'], {'kind': 'k3-nostd', 'dsl': p['dsl']})
    elif what == 'rename':
        r = ctx.stage('k3_rename', lambda: k3_rename(ctx))
        if not r['ok']:
            rep.violate('tie', 'K3 rename batch could not run: ' + r['why'], {'log': r.get('log', '')}, no_input=True)
            return
        rep.cov['k3_rename'] = {k: r[k] for k in ('variants', 'macro_rejected', 'rustc_rejected', 'compiled_and_compared', 'scripts')}
        rep.cov['k3_rename']['rejected_samples'] = r['rejected_samples']
        rep.cov['k3_rename']['capture_probe'] = r['capture']
        rep.evals += r['scripts'] + r['variants']
        rep.distinct += r['variants']
        rep.samples.append({'k3_rename_sample': r['sample']})
        for p in r['problems'][:6]:
            rep.violate('k3', p['what'], {'kind': 'k3-rename', 'dsl': p['dsl'], 'role': p['role'], 'new': p['new'],
                                          'ops': p['ops'], 'observed': p['observed']})
        # the capture by the generated type parameters is C18's finding; C12 borrows this batch for the names in errors only
        if prop == 'C18' and r['capture']['compiles_with_captured_type']:
            rep.violate('k3', 'a state named like the generated generic parameter is captured: Mcap::new(7u8) has type Mcap<u8, u8>',
                        {'kind': 'k3-capture', 'dsl': 'name: Mcap, initial: C, states: [C, B], events { go { transition: { from: C, to: B } } }'})
    else:
        rep.note('unknown K3 batch ' + what)
