"""K4: the core crate's error algebra and the abort macros against Core.v, on kinds x a name pool."""
import os
import shutil
import subprocess

import coqrun
import stages

# the core crate must treat names as opaque text: raw-identifier spellings (what `stringify!(r#try)` yields), camelCase,
# a leading underscore and a non-ASCII letter are in the first six so that the quick tier has them
NAMES = ['go', 'enter_half_open', 'r#try', 'fuelOK', '_x', 'ecoute_\u00e9', 'a_1', 'g0_t2', 'Idle', 'HTTPServer', 'X1', 'set_thrust', 'http_request', 'e1']


def k4(ctx):
    src = os.path.join(stages.VERIF, 'harness', 'k4')
    shutil.copy(os.path.join(stages.REPO, 'Cargo.lock'), os.path.join(src, 'Cargo.lock'))
    tgt = os.path.join(stages.CACHE, 'target-k4')
    rc, so, se = stages.sh(['cargo', 'build', '--offline'], cwd=src, env=dict(stages.ENV, CARGO_TARGET_DIR=tgt), timeout=1800)
    if rc != 0:
        return {'ok': False, 'why': 'K4 binary does not build against /repo', 'log': se[-3000:]}
    names = NAMES[:9] if ctx.tier == 'thorough' else NAMES[:6]     # cubic in the number of names (Coq prints the whole table)
    p = subprocess.run([os.path.join(tgt, 'debug', 'sm-k4')], input='\n'.join(names) + '\n', capture_output=True, text=True, timeout=600)
    real = p.stdout.splitlines()
    body = 'Eval vm_compute in ("L", 0, 0, k4_lines [%s]).' % '; '.join('"%s"' % n for n in names)
    out = coqrun.run_shards(os.path.join(ctx.dir, 'coq_k4'), [body], prelude=coqrun.PRELUDE + 'From SM Require Import Core.\n')
    model = coqrun.parse_L(out).get((0, 0), [])
    diffs = []
    if len(model) != len(real):
        diffs.append({'what': 'line counts differ: model %d, implementation %d' % (len(model), len(real))})
    for m, r in zip(model, real):
        if m != r:
            diffs.append({'required(model)': m, 'observed(implementation)': r})
    return {'ok': True, 'n': len(real), 'diffs': diffs[:20], 'sample': real[:3] + real[-2:]}


def run(ctx, prop, rep):
    r = ctx.stage('k4', lambda: k4(ctx))
    if not r['ok']:
        rep.violate('tie', r['why'], {'log': r.get('log', '')}, no_input=True)
        return
    rep.cov['k4_core_algebra'] = {'calls_compared': r['n'], 'differences': len(r['diffs'])}
    rep.evals += r['n']
    rep.distinct += r['n']
    rep.samples.append({'k4_sample': r['sample']})
    for d in r['diffs'][:6]:
        rep.violate('k4', 'core function / macro differs from the model: %s' % (d,), {'kind': 'k4', **d})
